"""Coq side of the machinery: build, audit, Print Assumptions, vm_compute evaluation.

Everything runs under a shell-level timeout; full .vo builds only.
"""
import fcntl
import os
import re
import subprocess
import time
from concurrent.futures import ThreadPoolExecutor

VERIF = os.path.dirname(os.path.dirname(os.path.abspath(__file__)))
COQDIR = os.path.join(VERIF, 'coq')
WORK = os.path.join(VERIF, '.work')
LOGICAL = 'PSO'
COQFLAGS = ['-Q', COQDIR, LOGICAL]

FORBIDDEN = re.compile(
    r'\b(Admitted|admit|Axiom|Axioms|Parameter|Parameters|Conjecture|Conjectures|Abort All)\b'
    r'|Unset\s+Guard|Unset\s+Positivity|Unset\s+Universe|bypass_check|Admit\s+Obligations'
    r'|type-in-type|impredicative-set|native_compute')
TOPLEVEL_HYP = re.compile(r'^\s*(Variable|Variables|Hypothesis|Hypotheses|Context)\b')

STDLIB_AXIOM_WHITELIST = {
    # none expected; anything listed by Print Assumptions is reported by name,
    # and only names in this set are accepted.
    'Coq.Logic.FunctionalExtensionality.functional_extensionality_dep',
    'FunctionalExtensionality.functional_extensionality_dep',
    'functional_extensionality_dep',
}


def strip_comments(src):
    out, depth, i, n = [], 0, 0, len(src)
    in_str = False
    while i < n:
        c = src[i]
        if depth == 0 and c == '"':
            in_str = not in_str
            out.append(c)
            i += 1
            continue
        if not in_str and src.startswith('(*', i):
            depth += 1
            i += 2
            continue
        if not in_str and depth > 0 and src.startswith('*)', i):
            depth -= 1
            i += 2
            continue
        if depth == 0:
            out.append(c)
        elif c == '\n':
            out.append('\n')
        i += 1
    return ''.join(out)


def _wip_patterns():
    """coq/.wip_exclude: one glob per line (relative to coq/) of files that are work in progress of a proof worker and
    are not part of the project yet (not built, not audited, not an obligation of any check); normally empty"""
    p = os.path.join(COQDIR, '.wip_exclude')
    if not os.path.exists(p):
        return []
    return [l.strip() for l in open(p) if l.strip() and not l.startswith('#')]


def v_files():
    import fnmatch
    pats = _wip_patterns()
    res = []
    for root, _, files in os.walk(COQDIR):
        for f in files:
            if f.endswith('.v'):
                path = os.path.join(root, f)
                rel = os.path.relpath(path, COQDIR)
                if any(fnmatch.fnmatch(rel, pat) for pat in pats):
                    continue
                res.append(path)
    return sorted(res)


def audit(files=None):
    """Static audit (DESIGN 3.6).  Returns list of problems (empty = ok)."""
    problems = []
    for path in (files or v_files()):
        src = strip_comments(open(path).read())
        section_depth = 0
        for ln, line in enumerate(src.split('\n'), 1):
            m = FORBIDDEN.search(line)
            if m:
                problems.append('%s:%d: forbidden %r' % (os.path.relpath(path, VERIF), ln, m.group(0)))
            if re.match(r'^\s*Section\b', line):
                section_depth += 1
            elif re.match(r'^\s*End\b', line) and section_depth > 0:
                section_depth -= 1
            elif TOPLEVEL_HYP.match(line) and section_depth == 0:
                problems.append('%s:%d: Variable/Hypothesis outside a section' % (os.path.relpath(path, VERIF), ln))
    proj = os.path.join(COQDIR, '_CoqProject')
    if os.path.exists(proj):
        txt = open(proj).read()
        for bad in ('-vos', '-vok', 'type-in-type', 'impredicative-set', 'bypass'):
            if bad in txt:
                problems.append('_CoqProject mentions %s' % bad)
    return problems


def deps_closure(pid):
    """.v files Props/<pid>.v depends on (transitively), from coqdep.  Falls back to every file."""
    try:
        files = [os.path.relpath(p, COQDIR) for p in v_files()]
        out = subprocess.run(['coqdep', '-Q', '.', LOGICAL] + files, cwd=COQDIR, stdout=subprocess.PIPE,
                             stderr=subprocess.DEVNULL, text=True, timeout=120).stdout
        dep = {}
        for line in out.split('\n'):
            if ':' not in line:
                continue
            lhs, rhs = line.split(':', 1)
            tgt = [t for t in lhs.split() if t.endswith('.vo')]
            if not tgt:
                continue
            src = tgt[0][:-3] + '.v'
            dep[src] = [d[:-3] + '.v' for d in rhs.split() if d.endswith('.vo')]
        start = os.path.join('Props', pid + '.v')
        seen, todo = set(), [start]
        while todo:
            x = os.path.normpath(todo.pop())
            if x in seen:
                continue
            seen.add(x)
            todo.extend(dep.get(x, []))
        res = [os.path.join(COQDIR, x) for x in sorted(seen) if os.path.exists(os.path.join(COQDIR, x))]
        if os.path.join(COQDIR, start) in res:
            return res
    except Exception:
        pass
    return v_files()


class _Lock(object):
    def __init__(self, name='build.lock'):
        os.makedirs(WORK, exist_ok=True)
        self.path = os.path.join(WORK, name)

    def __enter__(self):
        self.f = open(self.path, 'w')
        fcntl.flock(self.f, fcntl.LOCK_EX)
        return self

    def __exit__(self, *a):
        fcntl.flock(self.f, fcntl.LOCK_UN)
        self.f.close()


def write_if_changed(path, text):
    """Generated files are rewritten only when their content changes (keeps make incremental)."""
    try:
        if open(path).read() == text:
            return False
    except IOError:
        pass
    os.makedirs(os.path.dirname(path), exist_ok=True)
    with open(path, 'w') as f:
        f.write(text)
    return True


def refresh_project():
    """Regenerate _CoqProject from the files present (sorted) and the Makefile if needed."""
    files = [os.path.relpath(p, COQDIR) for p in v_files()]
    txt = '-Q . %s\n' % LOGICAL + '\n'.join(files) + '\n'
    changed = write_if_changed(os.path.join(COQDIR, '_CoqProject'), txt)
    mk = os.path.join(COQDIR, 'Makefile')
    if changed or not os.path.exists(mk):
        subprocess.check_call(['coq_makefile', '-f', '_CoqProject', '-o', 'Makefile'], cwd=COQDIR,
                              stdout=subprocess.DEVNULL)


def make(targets, timeout=3000, jobs=16):
    """Full .vo build of the given targets (paths relative to coq/).  Returns (ok, log)."""
    with _Lock():
        refresh_project()
        cmd = ['timeout', str(timeout), 'make', '-j%d' % jobs] + list(targets)
        p = subprocess.run(cmd, cwd=COQDIR, stdout=subprocess.PIPE, stderr=subprocess.STDOUT, text=True)
        return p.returncode == 0, p.stdout, ' '.join(cmd)


def vo_fresh(vpath):
    vo = vpath[:-2] + '.vo'
    return os.path.exists(vo) and os.path.getmtime(vo) >= os.path.getmtime(vpath)


_PA_CLOSED = 'Closed under the global context'


def check_props(pid, workdir, timeout=600):
    """Re-compile Props/<pid>.v on its own, capturing Print Assumptions.

    Returns dict: ok, theorems [{name, closed, axioms}], log, cmd, shape_problems.
    The file must contain nothing but Require/Import lines, Theorem ... Proof. exact ... Qed.
    and Print Assumptions commands.
    """
    src_path = os.path.join(COQDIR, 'Props', pid + '.v')
    res = {'ok': False, 'theorems': [], 'log': '', 'cmd': '', 'shape_problems': []}
    if not os.path.exists(src_path):
        res['log'] = 'missing ' + src_path
        return res
    src = strip_comments(open(src_path).read())
    thms = re.findall(r"^\s*Theorem\s+([\w']+)", src, re.M)
    pas = re.findall(r"^\s*Print\s+Assumptions\s+([\w']+)\s*\.", src, re.M)
    if thms != pas:
        res['shape_problems'].append('theorems %r and Print Assumptions %r do not line up' % (thms, pas))
    # shape: every sentence is Require/From/Import/Theorem/Proof/exact/Qed/Print Assumptions/Set Printing
    body = re.sub(r'\s+', ' ', src)
    for sentence in re.split(r'\.(?:\s|$)', body):
        s = sentence.strip()
        if not s:
            continue
        if not re.match(r'^(From |Require |Import |Export |Theorem |Proof$|Proof |exact |Qed$|Print Assumptions |Set Printing |Local Open Scope |Open Scope )', s):
            res['shape_problems'].append('unexpected sentence in Props/%s.v: %s' % (pid, s[:80]))
    os.makedirs(os.path.join(workdir, 'props_out'), exist_ok=True)
    out = os.path.join(workdir, 'props_out', pid + '.vo')
    cmd = ['timeout', str(timeout), 'coqc'] + COQFLAGS + ['-o', out, src_path]
    p = subprocess.run(cmd, stdout=subprocess.PIPE, stderr=subprocess.STDOUT, text=True, cwd=COQDIR)
    res['cmd'] = ' '.join(cmd)
    res['log'] = p.stdout
    # parse Print Assumptions blocks in order
    blocks = []
    lines = p.stdout.split('\n')
    i = 0
    while i < len(lines):
        ln = lines[i]
        if ln.strip() == _PA_CLOSED:
            blocks.append([])
        elif ln.strip() == 'Axioms:':
            axs = []
            i += 1
            while i < len(lines) and lines[i].strip() and lines[i].strip() != _PA_CLOSED and lines[i].strip() != 'Axioms:':
                m = re.match(r'^(\S+)\s*:', lines[i])
                if m and not lines[i].startswith(' '):
                    axs.append(m.group(1))
                i += 1
            blocks.append(axs)
            continue
        i += 1
    for k, name in enumerate(thms):
        if p.returncode == 0 and k < len(blocks):
            axs = blocks[k]
            bad = [a for a in axs if a not in STDLIB_AXIOM_WHITELIST]
            res['theorems'].append({'name': name, 'compiled': True, 'closed': not axs, 'axioms': axs,
                                    'ok': not bad})
        else:
            res['theorems'].append({'name': name, 'compiled': False, 'closed': False, 'axioms': [], 'ok': False})
    res['ok'] = (p.returncode == 0 and not res['shape_problems'] and len(blocks) == len(thms)
                 and all(t['ok'] for t in res['theorems']) and len(thms) > 0)
    return res


def theorem_statements(pid):
    """Theorem name -> statement text (for evidence samples)."""
    src_path = os.path.join(COQDIR, 'Props', pid + '.v')
    src = strip_comments(open(src_path).read())
    out = {}
    for m in re.finditer(r"Theorem\s+([\w']+)\s*(.*?)\.\s*Proof", src, re.S):
        out[m.group(1)] = re.sub(r'\s+', ' ', m.group(2)).strip()
    return out


def coqc_eval(files, workdir, timeout=900, jobs=16, extra_flags=()):
    """Compile a list of (.v path) files in parallel; returns {path: (rc, stdout)}."""
    def one(path):
        cmd = ['timeout', str(timeout), 'coqc'] + COQFLAGS + list(extra_flags) + [path]
        t0 = time.time()
        p = subprocess.run(cmd, stdout=subprocess.PIPE, stderr=subprocess.STDOUT, text=True, cwd=workdir)
        return path, p.returncode, p.stdout, time.time() - t0
    res = {}
    with ThreadPoolExecutor(max_workers=jobs) as ex:
        for path, rc, out, dt in ex.map(one, files):
            res[path] = (rc, out, dt)
    return res


_NUM_SUFFIX = re.compile(r'%(N|Z|nat|positive)\b')


def parse_coq_value(text):
    """Parse the value printed by one `Eval vm_compute in e.` where e is built from
    numbers, lists, pairs, booleans, option.  Returns a Python structure
    (lists, tuples, ints, True/False, None / ('Some', x))."""
    m = re.search(r'=\s*(.*?)\n\s*:\s', text, re.S)
    if not m:
        raise ValueError('no value in: ' + text[:200])
    s = m.group(1)
    return parse_coq_term(s)


def parse_coq_term(s):
    s = _NUM_SUFFIX.sub('', s)
    s = s.replace(';', ',')
    s = re.sub(r'\btrue\b', 'True', s)
    s = re.sub(r'\bfalse\b', 'False', s)
    s = re.sub(r'\bNone\b', 'None', s)
    s = re.sub(r'\bSome\s+', '', s)
    s = re.sub(r'\s+', ' ', s)
    import ast
    return ast.literal_eval(s.strip())


def split_evals(stdout):
    """Split coqc stdout into the chunks printed by successive Eval commands."""
    parts = re.split(r'(?m)^\s*=\s', stdout)
    res = []
    for p in parts[1:]:
        res.append('= ' + p)
    return res


# ---- literal helpers (Python -> Gallina text) ---------------------------------------

def vN(n):
    assert n >= 0
    return '%d%%N' % n


def vZ(n):
    return '(%d)%%Z' % n


def vbool(b):
    return 'true' if b else 'false'


def vlist(items):
    return '[' + '; '.join(items) + ']'


def vbytes(bs):
    """bytes -> list N literal"""
    return '[' + ';'.join('%d' % b for b in bs) + ']%N'


def vopt(x):
    return 'None' if x is None else '(Some %s)' % x


def coqchk(pid, timeout=1800):
    """Independent re-check of Props/<pid>.vo and everything it depends on (thorough tier)."""
    cmd = ['timeout', str(timeout), 'coqchk', '-silent', '-o', '-Q', COQDIR, LOGICAL, '%s.Props.%s' % (LOGICAL, pid)]
    p = subprocess.run(cmd, stdout=subprocess.PIPE, stderr=subprocess.STDOUT, text=True, cwd=COQDIR)
    out = p.stdout
    axioms = None
    m = re.search(r'\* Axioms:(.*?)\n\s*\n\* Constants', out, re.S)
    if m:
        axioms = [x.strip() for x in m.group(1).strip().split('\n') if x.strip()]
    ok = p.returncode == 0 and axioms is not None and (axioms == ['<none>'] or all(
        a.split()[0] in STDLIB_AXIOM_WHITELIST or a.startswith('Coq.') for a in axioms))
    return {'ok': ok, 'rc': p.returncode, 'axioms': axioms, 'cmd': ' '.join(cmd), 'tail': out[-1500:]}
