"""Per-run context: obligations, correspondence statistics, violations, known findings, evidence."""
import hashlib
import json
import os
import random
import shutil
import sys
import time

from . import coq

VERIF = coq.VERIF
REPO = (os.environ.get('VERIF_REPO') or '/repo')
GUARD = 'PYSYNCOBJ_VERIF'

# theorem files shared by several properties: the refinement of the L1 model to abstract Raft (log matching, leader
# completeness, state-machine safety, committed entries never change) is an obligation of each of these
SHARED_PROPS = {'C01': ['TierC', 'TierC2', 'TierC3', 'TierC4', 'TierC5', 'TierC6', 'TierC7', 'TierCM2c'],
                'C02': ['C02b'],
                'C03': ['TierC', 'TierC2', 'TierC3', 'TierC4', 'TierC5'], 'C05': ['C05b'], 'C06': ['C06b'],
                'C04': ['TierC', 'TierC2', 'TierC3', 'TierC4', 'TierC5'], 'C09': ['TierC3', 'TierC4', 'TierC5', 'TierC6'],
                'C10': ['C10m', 'TierCM', 'TierCM3', 'TierCM2', 'TierCM2b', 'TierCM2c', 'TierCM2d'], 'C11': ['TierC3'], 'C12': ['TierC6'], 'C13': ['C13p'], 'C17': ['TierC5'], 'C18': ['TierC7'], 'C20': ['C20b']}

BASE_TRUSTED = [
    'Coq 8.16.1 kernel (coqc); vm_compute conversion is used to evaluate the model in the correspondence check, '
    'in finite forallb sweeps and in *_refuted witnesses; native_compute is not used',
    'no Axiom/Parameter/Admitted in the development (static audit on every run); per-theorem axiom list parsed '
    'from Print Assumptions on every run',
    'the correspondence harness (Python, /verif/harness, /verif/props) decides what "the same input" is and how '
    'observations are canonicalised',
]


def repo_digest():
    h = hashlib.sha256()
    d = os.path.join(REPO, 'pysyncobj')
    for f in sorted(os.listdir(d)):
        if f.endswith('.py'):
            h.update(f.encode())
            h.update(open(os.path.join(d, f), 'rb').read())
    return h.hexdigest()[:16]


class Ctx(object):
    def __init__(self, pid, tier, seed):
        self.pid = pid
        self.tier = tier
        self.seed = seed
        self.rng = random.Random(seed)
        self.t0 = time.time()
        self.work = os.path.join(VERIF, '.work', pid)
        shutil.rmtree(self.work, ignore_errors=True)
        os.makedirs(self.work)
        self.replays = os.path.join(VERIF, 'replays')
        os.makedirs(self.replays, exist_ok=True)
        self.obligations = []          # {name, ok, detail}
        self.correspondence = {}       # component -> stats dict
        self.monitor = {}              # free-form monitor statistics
        self.samples = []
        self.violations = []
        self.known_lines = []
        self.trusted = list(BASE_TRUSTED)
        self.assumptions = []
        self.partial = []
        self.checker_cmds = []
        self.extra = {}
        self.findings = self._load_findings()
        self.quick = (tier == 'quick')

    # ---- known findings ------------------------------------------------------------
    def _load_findings(self):
        p = os.path.join(VERIF, 'known_findings.json')
        if not os.path.exists(p):
            return []
        data = json.load(open(p))
        return [f for f in data.get('findings', [])]

    def known_for(self, pid=None):
        pid = pid or self.pid
        return [f for f in self.findings if f.get('status') == 'known' and pid in f.get('properties', [f.get('property')])]

    def fixed_for(self, pid=None):
        pid = pid or self.pid
        return [f for f in self.findings if f.get('status') == 'fixed' and pid in f.get('properties', [f.get('property')])]

    def known_finding(self, finding, what=None):
        line = 'KNOWN-FINDING: property=%s %s %s' % (self.pid, finding['id'], what or finding['what'])
        if line not in self.known_lines:
            self.known_lines.append(line)
            print(line, flush=True)

    # ---- obligations ---------------------------------------------------------------
    def obligation(self, name, ok, detail=''):
        self.obligations.append({'name': name, 'ok': bool(ok), 'detail': detail})
        return ok

    def note(self, msg):
        print('[%s %6.1fs] %s' % (self.pid, time.time() - self.t0, msg), flush=True)

    def coq_obligations(self, extra_targets=()):
        """Build Props/<pid>.vo (and its dependencies) from the current sources, run the audit,
        re-check the property file capturing Print Assumptions.  Each theorem is one obligation."""
        shared = [x for x in SHARED_PROPS.get(self.pid, []) if os.path.exists(os.path.join(coq.COQDIR, 'Props', x + '.v'))]
        targets = ['Props/%s.vo' % self.pid] + ['Props/%s.vo' % x for x in shared] + list(extra_targets)
        ok, log, cmd = coq.make(targets, timeout=3000)
        self.checker_cmds.append('cd /verif/coq && ' + cmd)
        self.obligation('build:' + ' '.join(targets), ok, '' if ok else log[-3000:])
        if not ok:
            self.note('Coq build failed:\n' + log[-3000:])
        files = coq.deps_closure(self.pid)
        for x in shared:
            files = sorted(set(files) | set(coq.deps_closure(x)))
        problems = coq.audit(files)
        self.obligation('audit:no-axioms-no-admits', not problems, '; '.join(problems[:20]))
        self.extra['audited_files'] = [os.path.relpath(f, VERIF) for f in files]
        res = coq.check_props(self.pid, self.work)
        self.checker_cmds.append(res['cmd'])
        for x in shared:
            r2 = coq.check_props(x, self.work)
            self.checker_cmds.append(r2['cmd'])
            res['shape_problems'] += r2['shape_problems']
            res['theorems'] += r2['theorems']
            res['ok'] = res['ok'] and r2['ok']
            res['log'] += r2['log']
        for p in res['shape_problems']:
            self.obligation('shape:' + p[:60], False, p)
        stm = {}
        try:
            stm = coq.theorem_statements(self.pid)
            for x in shared:
                stm.update(coq.theorem_statements(x))
        except Exception:
            pass
        for t in res['theorems']:
            detail = 'Closed under the global context' if t['closed'] else ('axioms: ' + ', '.join(t['axioms']) if t['compiled'] else 'did not compile')
            self.obligation('theorem:' + t['name'], t['ok'], detail)
            self.samples.append({'theorem': t['name'], 'statement': stm.get(t['name'], '')[:600], 'assumptions': detail})
            for a in t['axioms']:
                s = 'standard-library axiom used by %s: %s' % (t['name'], a)
                if s not in self.trusted:
                    self.trusted.append(s)
        if not res['theorems']:
            self.obligation('theorems-present', False, res['log'][-2000:])
        if not res['ok']:
            self.note('property file check failed:\n' + res['log'][-2000:])
        return ok and not problems and res['ok']

    def failed_obligations(self):
        return [o for o in self.obligations if not o['ok']]

    # ---- correspondence ------------------------------------------------------------
    def corr(self, component):
        return self.correspondence.setdefault(component, {'cases': 0, 'steps': 0, 'divergences': 0,
                                                          'distribution': {}, 'nontrivial': 0})

    def count(self, component, key, n=1):
        d = self.corr(component)['distribution']
        d[key] = d.get(key, 0) + n

    # ---- violations ----------------------------------------------------------------
    def violation(self, what, replay, found_input=True, tag=None):
        """Record a violation.  replay: JSON-serialisable object; found_input False =>
        the line ends with no-failing-input-found."""
        body = json.dumps(replay, sort_keys=True, default=str)
        h = hashlib.sha256(body.encode()).hexdigest()[:10]
        path = os.path.join(self.replays, '%s-%s%s.json' % (self.pid, (tag + '-') if tag else '', h))
        with open(path, 'w') as f:
            json.dump({'property': self.pid, 'what': what, 'found_failing_input': found_input,
                       'seed': self.seed, 'tier': self.tier, 'repo_digest': repo_digest(), 'replay': replay},
                      f, indent=1, sort_keys=True, default=str)
        line = 'VIOLATION property=%s replay=%s' % (self.pid, path)
        if not found_input:
            line += ' no-failing-input-found'
        print('[%s] %s' % (self.pid, what), flush=True)
        print(line, flush=True)
        self.violations.append({'what': what, 'replay': path, 'found_failing_input': found_input})

    # ---- evidence ------------------------------------------------------------------
    def finish(self, level='proof'):
        n_ob = len(self.obligations)
        n_ok = sum(1 for o in self.obligations if o['ok'])
        evals = sum(c['cases'] for c in self.correspondence.values())
        nontriv = sum(c['nontrivial'] for c in self.correspondence.values())
        cov = {
            'obligations': n_ob,
            'discharged': n_ok,
            'checker_cmd': ' ; '.join(self.checker_cmds) or 'none',
            'trusted_base': self.trusted,
            'obligation_list': self.obligations,
            'correspondence': self.correspondence,
            'monitor': self.monitor,
            'partial': self.partial,
            'samples': self.samples[:40] or [{'note': 'no samples'}],
            'evaluations': evals,
            'distinct_nontrivial': nontriv,
            'rule': self.extra.pop('rule', 'see correspondence.*.distribution'),
            'repo_digest': repo_digest(),
            'known_findings_reported': self.known_lines,
        }
        try:
            from . import cov as _cov
            _cov.attach_default(self)
        except Exception as e:          # a measurement, never a reason to fail a check
            self.extra['source_coverage'] = {'error': repr(e)}
        cov.update(self.extra)
        ev = {
            'property_id': self.pid,
            'tier': self.tier,
            'seed': self.seed,
            'level': level,
            'coverage': cov,
            'assumptions': self.assumptions,
            'wall_s': round(time.time() - self.t0, 2),
            'violations': len(self.violations),
        }
        os.makedirs(os.path.join(VERIF, 'evidence'), exist_ok=True)
        with open(os.path.join(VERIF, 'evidence', self.pid + '.json'), 'w') as f:
            json.dump(ev, f, indent=1, sort_keys=True, default=str)
        rc = 1 if self.violations else 0
        self.note('done: obligations %d/%d, correspondence cases %d, violations %d, exit %d' %
                  (n_ok, n_ob, evals, len(self.violations), rc))
        return rc


def impl_env():
    """Environment for subprocesses that import the implementation from /repo's working tree."""
    env = dict(os.environ)
    env['PYTHONPATH'] = REPO + os.pathsep + VERIF
    env['PYTHONHASHSEED'] = '0'
    env['PYTHONDONTWRITEBYTECODE'] = '1'
    env[GUARD] = '1'
    return env
