"""./check <Cxx> [--tier quick|thorough] [--replay file]

Flow per property (DESIGN.md 3.1):
  1. proof obligations: build Props/<id>.vo from current sources, audit, Print Assumptions
  2. correspondence model <-> implementation (from /repo's working tree) + runtime monitors
  3. known findings: replay witnesses, print KNOWN-FINDING lines
  4. if an obligation or the correspondence broke and no concrete violation was found yet:
     failing-input search; no hit => VIOLATION ... no-failing-input-found
  5. evidence/<id>.json, exit code
"""
import argparse
import importlib
import json
import os
import sys
import traceback

from .ctx import Ctx


def main(argv=None):
    ap = argparse.ArgumentParser()
    ap.add_argument('pid')
    ap.add_argument('--tier', default=os.environ.get('VERIF_TIER', 'quick'), choices=['quick', 'thorough'])
    ap.add_argument('--replay', default=None)
    ap.add_argument('--seed', type=int, default=None)
    a = ap.parse_args(argv)
    seed = a.seed if a.seed is not None else int(os.environ.get('VERIF_SEED', '20260923') or 0)
    pid = a.pid.upper()
    ctx = Ctx(pid, a.tier, seed)
    try:
        mod = importlib.import_module('props.' + pid.lower())
    except ImportError:
        traceback.print_exc()
        print('no check module for', pid)
        return 2

    if a.replay:
        data = json.load(open(a.replay))
        rc = mod.replay(ctx, data.get('replay', data))
        return rc

    try:
        if hasattr(mod, 'pre_build'):
            mod.pre_build(ctx)          # e.g. regenerate translator output from /repo's working tree
        ctx.note('proof obligations')
        ctx.coq_obligations(getattr(mod, 'EXTRA_TARGETS', ()))
        if not ctx.quick:
            from . import coq as _coq
            ctx.note('coqchk (independent re-check of the compiled development)')
            from .ctx import SHARED_PROPS
            for x in [pid] + [y for y in SHARED_PROPS.get(pid, []) if os.path.exists(os.path.join(_coq.COQDIR, 'Props', y + '.v'))]:
                r = _coq.coqchk(x)
                ctx.checker_cmds.append(r['cmd'])
                ctx.obligation('coqchk:' + x, r['ok'], 'axioms: %r' % (r['axioms'],) if r['ok'] else r['tail'])
                ctx.extra['coqchk_axioms' if x == pid else 'coqchk_axioms_' + x] = r['axioms']
        ctx.note('correspondence + monitors')
        mod.correspondence(ctx)
        if hasattr(mod, 'known'):
            ctx.note('known findings / corpus')
            mod.known(ctx)
        broken = ctx.failed_obligations()
        divergences = sum(c['divergences'] for c in ctx.correspondence.values())
        if (broken or divergences) and not any(v['found_failing_input'] for v in ctx.violations):
            ctx.note('obligation/correspondence broken (%d obligations, %d divergences): searching for a failing input'
                     % (len(broken), divergences))
            found = False
            if hasattr(mod, 'search'):
                found = mod.search(ctx)
            if not found and not any(v['found_failing_input'] for v in ctx.violations):
                ctx.violation('property no longer shown to hold: %s' % (
                    '; '.join(['obligation ' + o['name'] for o in broken] +
                              ['correspondence %s: %d divergence(s)' % (k, c['divergences'])
                               for k, c in ctx.correspondence.items() if c['divergences']])),
                    {'broken_obligations': broken,
                     'broken_correspondence': {k: c.get('first_divergences', []) for k, c in ctx.correspondence.items() if c['divergences']}},
                    found_input=False, tag='unproved')
    except Exception:
        tb = traceback.format_exc()
        print(tb, flush=True)
        ctx.obligation('check-machinery-ran', False, tb[-3000:])
        ctx.violation('check machinery failed: ' + tb.strip().split('\n')[-1],
                      {'traceback': tb}, found_input=False, tag='machinery')
    return ctx.finish(level='proof')


if __name__ == '__main__':
    sys.exit(main())
