"""Source coverage of /repo/pysyncobj under the implementation runs of a check (harness/srccov.py does the measuring).

    results = cov.pmap(ctx, pool, worker, chunks, tag='compared')

is `pool.map(worker, chunks)` with every call of `worker` in the pool process wrapped in a coverage collector; the
per-call coverage is merged into ctx (ctx._srccov) and reported in the evidence by `attach(ctx, files)`.
tag: 'compared' when every case of the worker is diffed against the Coq model, 'monitored' when the implementation
runs under a monitor only."""
from harness import srccov


class _Wrapped(object):
    def __init__(self, fn, tag):
        self.fn = fn
        self.tag = tag

    def __call__(self, arg):
        c = srccov.Collector()
        c.begin()
        try:
            r = self.fn(arg)
        except BaseException:
            c.abort()
            raise
        c.end(self.tag)
        return r, c.dump()


def pmap(ctx, pool, fn, chunks, tag='compared'):
    if not srccov.ENABLED:
        return pool.map(fn, chunks)
    out = pool.map(_Wrapped(fn, tag), chunks)
    acc = getattr(ctx, '_srccov', None)
    merged = srccov.merge(([acc] if acc else []) + [d for _, d in out])
    ctx._srccov = dict((tag_, dict((f, {'lines': sorted(e['lines']), 'arcs': sorted(list(a) for a in e['arcs'])})
                                   for f, e in files.items())) for tag_, files in merged.items())
    return [r for r, _ in out]


def local(ctx, fn, tag='compared'):
    """run fn() in this process under the collector"""
    if not srccov.ENABLED:
        return fn()
    c = srccov.Collector()
    c.begin()
    try:
        r = fn()
    except BaseException:
        c.abort()
        raise
    c.end(tag)
    acc = getattr(ctx, '_srccov', None)
    merged = srccov.merge(([acc] if acc else []) + [c.dump()])
    ctx._srccov = dict((tag_, dict((f, {'lines': sorted(e['lines']), 'arcs': sorted(list(a) for a in e['arcs'])})
                                   for f, e in files.items())) for tag_, files in merged.items())
    return r


# what each check's own implementation runs are expected to reach: (file, only these functions or None = all)
BY_PID = {
    'C08': [('journal.py', None)],
    'C13': [('tcp_connection.py', None), ('poller.py', None)],
    'C14': [('transport.py', None)],
    'C15': [('batteries.py', None)],
    'C16': [('batteries.py', ('_ReplLockManagerImpl', 'ReplLockManager'))],
    'C19': [('fast_queue.py', None), ('syncobj.py', ('SyncObj._applyCommand', 'SyncObj._checkCommandsToApply', 'replicated',
                                                      'replicated_sync', 'AsyncResult'))],
}


def attach_default(ctx):
    acc = getattr(ctx, '_srccov', None)
    if not acc or 'source_coverage' in ctx.extra or ctx.pid not in BY_PID:
        return
    merged = srccov.merge([acc])
    files = {}
    for fn, only in BY_PID[ctx.pid]:
        files.update(srccov.report(merged, [fn], only_functions=only))
    ctx.extra['source_coverage'] = {
        'what': 'statements / branch exits of /repo/pysyncobj executed by the implementation runs of this check (coverage.py, '
                'function bodies only): "compared" = inside cases diffed against the Coq model; "any" = also cases run under a '
                'monitor only.  A statement no compared case reaches is outside the tie between model and source for this run',
        'files': files}


def attach(ctx, files, only_functions=None, skip_functions=()):
    acc = getattr(ctx, '_srccov', None)
    if not acc:
        return
    merged = srccov.merge([acc])
    ctx.extra['source_coverage'] = {
        'what': 'statements / branch exits of /repo/pysyncobj executed by the implementation runs of this check (coverage.py, '
                'function bodies only): "compared" = inside cases diffed against the Coq model; "any" = also cases run under a '
                'monitor only.  A statement no compared case reaches is outside the tie between model and source for this run',
        'files': srccov.report(merged, files, only_functions=only_functions, skip_functions=skip_functions)}
