import sys, os
sys.path.insert(0, '/verif'); sys.path.insert(0, '/repo')
os.environ.setdefault('PYTHONHASHSEED', '0')
from harness.raft_scenarios import Script, base_cfg

def ser(sim, n):
    return sim.nodes[n]._SyncObj__serializer
def blob(sim, n):
    fn = ser(sim, n)._Serializer__fileName
    if fn is not None:
        return open(fn, 'rb').read() if os.path.exists(fn) else None
    return ser(sim, n)._Serializer__inMemorySerializedData
def trans(sim, n):
    t = ser(sim, n)._Serializer__transmissions
    return dict((k.id if hasattr(k, 'id') else k, v['transmitted']) for k, v in t.items())
def incoming(sim, n):
    x = ser(sim, n)._Serializer__incomingTransmissionFile
    if x is None: return None
    try: return len(x)
    except TypeError: return x.tell()
def show(sim, tag):
    print(tag)
    for n in (1, 2, 3):
        o = sim.nodes[n]
        b = blob(sim, n)
        print('  node', n, 'leader' if o._isLeader() else 'follower', 'term', o._SyncObj__raftCurrentTerm,
              'log', [e[1] for e in o._SyncObj__raftLog], 'applied', o._SyncObj__raftLastApplied,
              'blob', None if b is None else len(b), 'trans', trans(sim, n), 'incoming', incoming(sim, n))

def main(dump=None):
    kw = {}
    if dump:
        kw = dict(dump='file', journal='file')
    sc = Script(base_cfg([1, 2, 3], chunk=32, fallback=100, **kw), workdir='/tmp/sc/work/stale')
    s, sim = sc.s, sc.sim
    s.boot()
    sc.elect(1)
    sc.settle([1, 2], 2)
    sc.isolate(3)
    for _ in range(4):
        s.submit(1, size=20)
    sc.settle([1, 2], 4)
    sc.rec.do(('compact', 1))
    sc.settle([1, 2], 3)
    show(sim, 'leader 1 compacted')
    sc.join(3)
    sc.settle([1, 3], 1) if False else None
    for _ in range(5):
        s.tick(1, 11, budget=2)       # cut after two loop turns
        sc.flush(1, 3); sc.flush(3, 1); sc.flush(1, 2); sc.flush(2, 1)
        if trans(sim, 1):
            break
    show(sim, 'node 1 sent two chunks to 3')
    # node 2 takes over; 3 votes but does not get 2's entries yet
    sc.elect(2, voters_for=[3])
    while sim.queue_len(2, 3): sc.rec.do(('lose', 2, 3, 100))
    sc.flush(2, 1); sc.flush(1, 2)
    for _ in range(2):
        s.submit(2, size=20)
    for _ in range(4):
        s.tick(2, 11); sc.rec.do(('lose', 2, 3, 100)); sc.flush(2, 1); sc.flush(1, 2)
        s.tick(1, 11) if False else None
    sc.rec.do(('compact', 2))
    for _ in range(3):
        s.tick(2, 11); sc.rec.do(('lose', 2, 3, 100)); sc.flush(2, 1); sc.flush(1, 2)
    show(sim, 'node 2 leads and compacted')
    for _ in range(5):
        s.tick(2, 11, budget=2)
        sc.flush(2, 3); sc.flush(3, 2); sc.flush(2, 1); sc.flush(1, 2)
        if trans(sim, 2):
            break
    show(sim, 'node 2 sent two chunks to 3')
    # node 1 again
    sc.elect(1, voters_for=[3, 2])
    sc.flush(1, 3); sc.flush(3, 1); sc.flush(1, 2); sc.flush(2, 1)
    show(sim, 'node 1 re-elected')
    b1, b2 = blob(sim, 1), blob(sim, 2)
    for i in range(3):
        s.tick(1, 11)
        sc.flush(1, 3)
        b3 = blob(sim, 3)
        if b3 is not None:
            print('  tick', i, 'node 3 stored', len(b3), 'equals blob of 1:', b3 == b1, 'of 2:', b3 == b2,
                  'head of 2 + tail of 1:', b3 == b2[:96] + b1[96:])
            try:
                ser(sim, 3).deserialize(); print('  deserialize ok')
            except Exception as e:
                print('  deserialize FAILS:', repr(e)[:100])
            break
        sc.flush(3, 1); sc.flush(1, 2); sc.flush(2, 1)
    show(sim, 'end')
    return sc

if __name__ == '__main__':
    main(dump=(len(sys.argv) > 1))
