#!/bin/bash
# Build the whole Coq development from clean (full .vo build), offline.
set -e
cd "$(dirname "$0")"
mkdir -p .work evidence replays
/venv/bin/python - <<'PY'
import sys
sys.path.insert(0, '/verif')
from vlib import coq
import subprocess, os
coq.refresh_project()
PY
cd coq
coq_makefile -f _CoqProject -o Makefile > /dev/null
timeout 3400 make -j16 2>&1 | tail -5
cd ..
/venv/bin/python - <<'PY'
import sys
sys.path.insert(0, '/verif')
from vlib import coq
p = coq.audit()
print('audit:', p or 'clean')
sys.exit(1 if p else 0)
PY
