"""C07 - decided on the shared Raft run (props/raftcommon.py): theorems in coq/Props/C07.v over the L1 model
coq/Raft, correspondence of that model with the implementation, runtime monitor records of C07."""
from props import raftcommon as R

PROPS = ('C07',)
correspondence, search, replay = R.standard_module('C07', PROPS)
