"""C07 - decided on the shared Raft run (props/raftcommon.py): theorems in coq/Props/C07.v over the L1 model
coq/Raft, correspondence of that model with the implementation, runtime monitor records of C07."""
from props import raftcommon as R

PROPS = ('C07',)
# "therefore the one-leader-per-term guarantee also holds across restarts of journaled nodes": two leaders in one
# term in a schedule with journaled nodes is a C07 record (after a restart of a voter it is attributed to KF-C07-1)
correspondence, search, replay = R.standard_module('C07', PROPS, {'journal_trace': ('C03',), 'killpoint_trace': ('C03',),
                                                                  'scenario:vote_regrant_after_flap': ('C03',),
                                                                  'scenario:role_hook_raises_on_step_down': ('C01', 'C03', 'C04')})
