"""C16 - replicated locks.  Model: coq/Lock/{Base,Gen,Log,Client}.v; theorems: coq/Props/C16.v.

Step 0 (at import, i.e. before the driver builds the Coq development): translate/lock2v.py
regenerates coq/Lock/Gen.v from /repo/pysyncobj/batteries.py; a construct it does not know is the
failed obligation 'translator accepted _ReplLockManagerImpl'.

Correspondence: (a) generated table functions vs the real `_ReplLockManagerImpl` (`_doApply=True`)
on random command logs; (b) Lock/Client.v vs real `ReplLockManager` objects driven by a fake
cluster (harness/locks.py).  Monitors: see harness/locks.py.
"""
import os
import sys

from vlib import coq
from harness import locks as K

sys.path.insert(0, os.path.join(coq.VERIF, 'translate'))
import lock2v  # noqa: E402

COMP_A = 'Lock/Gen.v (generated) <-> pysyncobj/batteries.py:_ReplLockManagerImpl'
COMP_B = 'Lock/Client.v <-> pysyncobj/batteries.py:ReplLockManager'
HEADER = ('From Coq Require Import ZArith NArith List Bool.\n'
          'From PSO Require Import Lock.Base Lock.Gen Lock.Log Lock.Client.\n'
          'Import ListNotations.\nOpen Scope Z_scope.\n')

# regenerate the generated model before anything is built (the driver imports this module first)
TRANSLATOR = lock2v.run()


def _worker(args):
    kind, seeds = args
    B = K.load_impl()
    out = []
    for s in seeds:
        try:
            c = K.run_table_case(s, B) if kind == 'a' else K.run_client_case(s, B)
            c['call'] = K.v_table_case(c) if kind == 'a' else K.v_client_case(c)
            c['steps'] = len(c['ops']) if kind == 'a' else len(c['events'])
        except Exception:
            import traceback
            c = {'seed': s, 'crash': traceback.format_exc()}
        c['kind'] = kind
        out.append(c)
    return out


def run_cases(ctx, kind, seeds, label):
    import multiprocessing as mp
    comp = COMP_A if kind == 'a' else COMP_B
    nproc = 16
    chunks = [(kind, seeds[i::nproc]) for i in range(nproc) if seeds[i::nproc]]
    with mp.get_context('fork').Pool(len(chunks)) as pool:
        from vlib import cov
        results = [r for part in cov.pmap(ctx, pool, _worker, chunks) for r in part]
    results.sort(key=lambda r: r['seed'])
    good = [r for r in results if 'crash' not in r]
    per_file = 60 if kind == 'a' else 40
    files, groups = [], []
    for i in range(0, len(good), per_file):
        grp = good[i:i + per_file]
        path = os.path.join(ctx.work, 'cases_%s_%d.v' % (label, i // per_file))
        with open(path, 'w') as f:
            f.write(HEADER)
            f.write('Eval vm_compute in [%s].\n' % ';\n '.join(r['call'] for r in grp))
        files.append(path)
        groups.append(grp)
    res = coq.coqc_eval(files, ctx.work)
    st = ctx.corr(comp)
    for path, grp in zip(files, groups):
        rc, out, dt = res[path]
        if rc != 0:
            st['divergences'] += 1
            st.setdefault('first_divergences', []).append({'file': path, 'coqc_failed': out[-1500:]})
            continue
        vals = coq.parse_coq_value(out)
        for r, v in zip(grp, vals):
            st['cases'] += 1
            st['steps'] += r['steps']
            if v is not None:
                st['divergences'] += 1
                r['divergence'] = v
                if len(st.setdefault('first_divergences', [])) < 5:
                    what = (r['ops'][v] if kind == 'a' else r['events'][v]) if v < r['steps'] else 'length mismatch'
                    st['first_divergences'].append({'seed': r['seed'], 'kind': kind, 'step': v, 'at': str(what),
                                                    'impl_observed': str((r['expected'][v] if v < len(r['expected']) else None))})
            if nontrivial(r):
                st['nontrivial'] += 1
    for r in results:
        if 'crash' in r:
            st['divergences'] += 1
            st.setdefault('first_divergences', []).append({'seed': r['seed'], 'kind': kind, 'harness_crash': r['crash'][-1500:]})
            continue
        for k, n in r['kinds'].items():
            ctx.count(comp, k, n)
    return results


def nontrivial(r):
    k = r['kinds']
    if r['kind'] == 'a':
        return k.get('acq', 0) >= 2 and (k.get('pro', 0) + k.get('rel', 0)) >= 1 and len(r['ops']) >= 6
    return (k.get('acquired', 0) + k.get('late_result', 0)) >= 1 and len(r['log']) >= 3


def headline(problems):
    """prefer the record that is the property text itself (two clients hold one lock at one instant)"""
    for p in problems:
        if 'holds it on the original replica' in p or 'both consider lock' in p or 'at the same instant' in p:
            return p
    return problems[0]


def report_problems(ctx, results):
    n = 0
    # cases whose records include a mutual-exclusion clash first
    results = sorted(results, key=lambda r: 0 if r.get('problems') and headline(r['problems']) != r['problems'][0] else 1)
    for r in results:
        if r.get('problems'):
            n += 1
            if n <= 3:
                ctx.violation('C16 monitor on the implementation: ' + headline(r['problems']),
                              {'kind': 'case', 'which': r['kind'], 'case_seed': r['seed'], 'problems': r['problems'][:5]},
                              found_input=True)
    ctx.monitor['monitor_records'] = ctx.monitor.get('monitor_records', 0) + n
    return n


def correspondence(ctx):
    ok, msg, changed = TRANSLATOR
    ctx.obligation('translator accepted _ReplLockManagerImpl', ok, msg)
    ctx.note(msg)
    if changed:
        ctx.note('coq/Lock/Gen.v was regenerated with different text (batteries.py changed)')
    na, nb = (1400, 600) if ctx.quick else (16000, 6000)
    base = ctx.seed * 1000003 % (2 ** 31)
    ctx.extra['rule'] = (
        '(a) random command logs on one lock table: 4-40 ops over 1-3 locks and 2-4 clients, autoUnlock in '
        '{0..16}, time stamps = common clock / older readings / an existing lease time + autoUnlock + {-1,0,1}; '
        'every return value and the dict items (in dict order) after every op compared; non-trivial = at least 2 '
        'acquires and a prolongate or release among >= 6 ops.  (b) 2-3 real ReplLockManager objects on a fake '
        'cluster: async/sync tryAcquire with commit delays around autoUnlock/2, lost commands, reordered commits, '
        'lagging replicas, prolongation ticks with three scripted clock reads, releases, probes of isAcquired on '
        'every client; every issued command, every result told to the caller, every replica return value and '
        'every isAcquired compared; non-trivial = at least one acquisition completed (granted or late) and >= 3 '
        'committed commands.  Distinct by seed.')
    all_results = []
    all_results += run_cases(ctx, 'a', [base + i for i in range(na)], 'a')
    all_results += run_cases(ctx, 'b', [base + 500000 + i for i in range(nb)], 'b')
    report_problems(ctx, all_results)
    ctx.monitor['traces'] = len(all_results)
    ctx.monitor['predicates'] = [
        'one table, one instant: at most one client for which isAcquired(lock, client, t) is True',
        'two replicas (one lagging), common clock, owner time stamps monotone, owner did not release in the '
        'suffix: not both clients see the lock as theirs (C16_mutual_exclusion)',
        'result of tryAcquire arrives later than autoUnlock/2: told False; if the replicated acquire succeeded, '
        'exactly one release is issued and once applied the client no longer holds the lock',
        'release by a non-holder leaves the dict unchanged',
        'snapshot replica (every table-level log): a fresh _ReplLockManagerImpl restored at a random step from '
        'pickle(_serialize()) has the same table as the original at the snapshot and after every later command, returns '
        'the same values, and at every probe no two different clients hold one lock, one on each replica',
        'acquire stamped more than autoUnlock after the lease time returns True',
    ]
    for kind in ('a', 'b'):
        r = next((x for x in all_results if x['kind'] == kind and 'crash' not in x and nontrivial(x)), None)
        if r is not None:
            ctx.samples.append({'case_seed': r['seed'], 'kind': kind, 'U': r['U'],
                                'ops': [str(o) for o in (r['ops'] if kind == 'a' else r['events'])][:25]})
    # the necessity witnesses of the three provisos must also break exclusion on the real class
    B = K.load_impl()
    wit = K.replay_proviso_witnesses(B)
    ctx.monitor['proviso_witnesses_on_impl'] = {k: list(v) for k, v in wit.items()}
    for name, v in wit.items():
        st = ctx.corr(COMP_A)
        st['cases'] += 1
        if tuple(v) != (True, True):
            st['divergences'] += 1
            st.setdefault('first_divergences', []).append({'witness': name, 'impl': list(v), 'model': [True, True]})
    # candidate findings (reported in the evidence, not violations: see the final report / DESIGN C16)
    try:
        ctx.monitor['candidate_lost_late_release'] = K.scenario_lost_release(B)
        ctx.monitor['candidate_sync_timeout_then_commit'] = K.scenario_sync_timeout(B)
        ctx.monitor['observation_owner_release_not_yet_applied'] = K.scenario_release_lag(B)
    except Exception as e:
        ctx.monitor['candidate_scenarios_error'] = repr(e)
    ctx.trusted += [
        'translator translate/lock2v.py (Python ast -> Gallina for the four methods of _ReplLockManagerImpl); it is '
        'fail-closed and diff-tested on every run against the real class (correspondence a)',
        'oracle: builtin dict (get / item assignment / del / insertion-order iteration) is modelled by the association '
        'list of Lock/Base.v; lock and client ids are integers (the code only uses == and dict keys on them); times are '
        'integer-valued, so the float subtractions and comparisons with autoUnlock, autoUnlock/2.0, autoUnlock/4.0 are exact',
        'SyncObjConsumer._serialize/_deserialize faithfulness for the lock table (a snapshot carries the whole table) is '
        'NOT proved: C16_snapshot_transparent only says that replaying a suffix on the table reached after a prefix equals '
        'replaying the whole log; that a restored replica really starts from that table is checked by the snapshot-replica '
        'monitor on the implementation (every table-level case and the failing-input search)',
        'modelled, not verified: SyncObj itself (commit order, delivery of results, loss of commands) is played by the '
        'harness (harness/locks.py); threading of the prolongation loop is replaced by calling its body one iteration at a time',
    ]
    ctx.assumptions += [
        'C16_mutual_exclusion provisos (each shown necessary by a *_proviso_necessary theorem): the clients share a clock '
        '(no command between the two replica positions is stamped later than the instant of comparison); the lagging '
        "holder's acquire/prolongate time stamps are non-decreasing along the log (per-client FIFO commit order); the "
        'lagging holder has not released the lock between the two replica positions',
    ]
    ctx.partial += [
        'through a replicated cluster the lock table runs on real SyncObj objects under the Raft simulation '
        '(harness/cluster_batteries.py: compaction, snapshot catch-up of a lagging node, restart from a dump file; monitor: '
        'replicas of the table equal at equal applied index, at most one holder per replica pair) - implementation under the '
        'monitor only, the Raft model treats replicated calls abstractly; the client wrapper (tryAcquire / release / '
        'prolongation threads) is played against harness/locks.py (arbitrary commit order, lag, loss), so the per-client '
        'FIFO proviso of C16_mutual_exclusion is an assumption about how a client submits (one SyncObj, one queue), not a '
        'theorem about syncobj.py',
        'candidate finding (reproduced on ReplLockManager with the fake cluster, see monitor.candidate_lost_late_release): '
        'the async late-acquire path issues its release fire-and-forget; if that command is lost the client that was told '
        'False keeps the lock and its prolongation thread refreshes it for ever',
    ]
    ctx._c16_results = all_results


def search(ctx):
    """after a broken obligation / divergence: more budget on the implementation under the monitors"""
    B = K.load_impl()
    base = (ctx.seed * 7919 + 17) % (2 ** 31)
    n = 30000 if ctx.quick else 300000
    hits = 0
    for i in range(n):
        for kind in ('a', 'b'):
            if kind == 'b' and i % 8:
                continue
            try:
                c = K.run_table_case(base + i, B) if kind == 'a' else K.run_client_case(base + i, B)
            except Exception:
                continue
            if c['problems']:
                ctx.violation('C16 monitor on the implementation: ' + headline(c['problems']),
                              {'kind': 'case', 'which': kind, 'case_seed': base + i, 'problems': c['problems'][:5]},
                              found_input=True)
                hits += 1
        if hits >= 2:
            break
    ctx.monitor['search_cases'] = n
    return hits > 0


def replay(ctx, data):
    B = K.load_impl()
    if data.get('kind') == 'case':
        c = K.run_table_case(data['case_seed'], B) if data['which'] == 'a' else K.run_client_case(data['case_seed'], B)
        print('problems:', c['problems'])
        if c['problems']:
            print('VIOLATION property=C16 replay=(replayed)')
            return 1
        return 0
    print('nothing to replay for', data.get('kind'))
    return 0


# ---- the lock table through a replicated cluster with compaction, snapshot catch-up and restarts ----
_corr_direct = correspondence
_replay_direct = replay


def correspondence(ctx):
    _corr_direct(ctx)
    from props import cluster_ext
    cluster_ext.run(ctx, want_lock=True)


def replay(ctx, data):
    if data.get('kind') == 'cluster_batteries':
        from props import cluster_ext
        return cluster_ext.replay(ctx, data)
    return _replay_direct(ctx, data)
