"""C12 - decided on the shared Raft run (props/raftcommon.py): theorems in coq/Props/C12.v over the L1 model
coq/Raft, correspondence of that model with the implementation, runtime monitor records of C12 / C11."""
from props import raftcommon as R

PROPS = ('C12', 'C11')
# in the scenarios built around raising commands a broken snapshot / a replica that differs is a C12 record as well
correspondence, search, replay = R.standard_module('C12', PROPS, {'scenario:raising_then_snapshot': ('C09', 'C01', 'C05'),
                                                                  'scenario:raising_replay_after_restart': ('C01', 'C06')})
