"""C02 - decided on the shared Raft run (props/raftcommon.py): theorems in coq/Props/C02.v over the L1 model
coq/Raft, correspondence of that model with the implementation, runtime monitor records of C02."""
from props import raftcommon as R

PROPS = ('C02',)
_corr, search, replay = R.standard_module('C02', PROPS)

# ---- "(or a sync call) reports SUCCESS with result r": a synchronous call returns the result of ITS OWN command --------
SYNC_PROBE = r'''
import sys, json, time, threading
sys.path.insert(0, %r)
import pysyncobj.syncobj as S
from harness import queue_threads as Q
from pysyncobj import SyncObjConf
Obj = Q.make_class(S)
out = []
for rounds in (1, 2):
    o = Obj(SyncObjConf(autoTick=False))
    t0 = time.time()
    while not o._isLeader() and time.time() - t0 < 10:
        o.doTick(0.05)
    res = {'rounds': rounds, 'calls': []}
    x = 10
    for r in range(rounds):
        try:                                  # nobody ticks: the call gives up, its command stays queued
            v = o.add(x, sync=True, timeout=0.15)
            res['calls'].append(['first', x, 'returned', v])
        except Exception as e:
            res['calls'].append(['first', x, 'raised', repr(e) + ' ' + repr(getattr(e, 'errorCode', None))])
        x += 1
    stop = []
    def ticker():
        while not stop:
            o.doTick(0.01)
    th = threading.Thread(target=ticker)
    th.start()
    try:                                      # same thread, next synchronous call, now the node ticks
        v = o.add(x, sync=True, timeout=5)
        res['calls'].append(['next', x, 'returned', v])
    except Exception as e:
        res['calls'].append(['next', x, 'raised', repr(e) + ' ' + repr(getattr(e, 'errorCode', None))])
    time.sleep(0.2)
    stop.append(1)
    th.join()
    res['applied'] = list(o.applied)
    res['own_results'] = dict((str(k), v) for k, v in o.results.items())
    out.append(res)
    o.destroy()
print(json.dumps(out))
'''


def sync_timeout_probe(ctx):
    import json, subprocess, sys
    from vlib import coq
    from vlib.ctx import impl_env
    p = subprocess.run([sys.executable, '-c', SYNC_PROBE % coq.VERIF], cwd=coq.VERIF, env=impl_env(), stdout=subprocess.PIPE,
                       stderr=subprocess.PIPE, text=True, timeout=200)
    if p.returncode != 0:
        ctx.obligation('sync-call-probe-ran', False, p.stderr[-800:])
        return
    res = json.loads(p.stdout.strip().split('\n')[-1])
    ctx.monitor['sync_timeout_probe'] = res
    for r in res:
        for kind, x, how, v in r['calls']:
            own = r['own_results'].get(str(x), [])
            if how == 'returned' and v not in own:
                ctx.violation('C02 monitor on the implementation: synchronous call add(%d) returned %r, its own command returned %r '
                              '(an earlier synchronous call of the same thread had timed out while its command was still pending)'
                              % (x, v, own), {'kind': 'sync_timeout_probe', 'result': r}, found_input=True)
                return
            if how == 'raised' and 'Timeout' not in str(v) and kind == 'first':
                ctx.violation('C02 monitor on the implementation: synchronous call add(%d) without ticks raised %r instead of Timeout'
                              % (x, v), {'kind': 'sync_timeout_probe', 'result': r}, found_input=True)
                return


def correspondence(ctx):
    sync_timeout_probe(ctx)
    _corr(ctx)
