"""C02 - decided on the shared Raft run (props/raftcommon.py): theorems in coq/Props/C02.v over the L1 model
coq/Raft, correspondence of that model with the implementation, runtime monitor records of C02."""
from props import raftcommon as R

PROPS = ('C02',)
correspondence, search, replay = R.standard_module('C02', PROPS)
