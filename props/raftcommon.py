"""Shared Raft run for C01-C05, C10, C12, C18, C20 (and the Raft part of C02, C06, C07, C09):
traces on the real SyncObj objects under the monitors (harness/raft_monitor.py) + correspondence with
the Coq model (coq/Raft).  The result is cached under .work/raftcache, keyed by the content of
/repo/pysyncobj, the harness, the model, the seed and the tier, so that the properties sharing the model
pay once per tree; any source edit invalidates the cache."""
import hashlib
import json
import multiprocessing as mp
import os
import sys
import time

from vlib import coq
from vlib.ctx import REPO, VERIF

COMPONENT = 'Raft/{Types,Node,Net,Obs}.v <-> pysyncobj/syncobj.py + serializer.py'
# files of /repo/pysyncobj whose execution under the traces is measured (harness/srccov.py) and functions that the Raft
# run cannot reach by construction (other checks own them)
SRC_FILES = ('syncobj.py', 'serializer.py', 'journal.py', 'fast_queue.py', 'atomic_replace.py')
SRC_SKIP = ()
GENS = ('random_trace', 'ro_trace', 'member_trace', 'journal_trace', 'killpoint_trace', 'scenario')


def plan(ctx):
    """list of (generator, seed, n_events)"""
    base = (ctx.seed * 7919) % 1000000
    if ctx.quick:
        n = {'random_trace': 100, 'ro_trace': 32, 'member_trace': 44, 'journal_trace': 36, 'killpoint_trace': 36,
             'lag_trace': 24, 'converge_trace': 14}
        ev = 260
    else:
        n = {'random_trace': 2200, 'ro_trace': 500, 'member_trace': 700, 'journal_trace': 600, 'killpoint_trace': 600,
             'lag_trace': 500, 'converge_trace': 300}
        ev = 500
    out = []
    from harness import raft_scenarios
    for name in raft_scenarios.NAMES:
        out.append(('scenario', name, 0))
    for gname in ('random_trace', 'ro_trace', 'member_trace', 'journal_trace', 'killpoint_trace', 'lag_trace', 'converge_trace'):
        for i in range(n[gname]):
            out.append((gname, base + i, ev if gname != 'converge_trace' else 200))
    return out


def digest_inputs(ctx):
    h = hashlib.sha256()
    files = []
    for d, suf in ((os.path.join(REPO, 'pysyncobj'), '.py'), (os.path.join(VERIF, 'harness'), '.py'),
                   (os.path.join(VERIF, 'coq', 'Raft'), '.v')):
        for f in sorted(os.listdir(d)):
            if f.endswith(suf) and (d.endswith('pysyncobj') or f in ('Types.v', 'Node.v', 'Net.v', 'Obs.v') or f.startswith(('sim', 'raft_'))):
                files.append(os.path.join(d, f))
    files.append(os.path.join(VERIF, 'props', 'raftcommon.py'))
    for f in files:
        h.update(f.encode())
        h.update(open(f, 'rb').read())
    h.update(('%s|%s' % (ctx.seed, ctx.tier)).encode())
    return h.hexdigest()[:20]


def run_one(item, workdir, keep_obs=False):
    from harness import raft_corr as RC, raft_scenarios
    from harness.raft_monitor import Monitor
    gen, seed, n_events = item
    mon = Monitor()
    if gen == 'scenario':
        rec = raft_scenarios.run(seed, workdir=workdir, listeners=[mon], keep_obs=keep_obs)
    else:
        rec = getattr(RC, gen)(seed, n_events, workdir=workdir, listeners=[mon], keep_obs=keep_obs)
    for p in getattr(rec, 'convergence', []):
        for prop in getattr(rec, 'convergence_props', ('C05',)):
            mon.rec(prop, p)
    return rec, mon


def _worker(args):
    items, workroot = args
    import resource
    resource.setrlimit(resource.RLIMIT_AS, (6 << 30, 6 << 30))
    from harness import raft_corr as RC
    from harness import srccov
    cov = srccov.Collector()
    out = []
    for item in items:
        name = '%s_%s' % (item[0][:2], item[1])
        wd = os.path.join(workroot, 'w_' + name)
        os.makedirs(wd, exist_ok=True)
        t0 = time.time()
        try:
            cov.begin()
            try:
                rec, mon = run_one(item, wd)
            except BaseException:
                cov.abort()
                raise
            cov.end('compared' if rec.model_ok else 'monitored')
            if rec.model_ok:
                d, c = RC.v_case(name, rec.cfg, rec.mevents, rec.digests)
            else:
                d, c = None, None          # kills inside a step: implementation under the monitors only
            out.append({'item': list(item), 'name': name, 'defs': d, 'call': c, 'kinds': rec.kinds,
                        'model': bool(rec.model_ok), 'attributed': [list(a) for a in mon.attributed[:30]],
                        'kill_points': [k.get('next_primitive') + ('/in_delete_to' if k.get('in_delete_to') else '') for k in mon.kill_infos],
                        'records': mon.records[:20], 'after_memory_loss': len(mon.after_memory_loss),
                        'outside_scope': [list(x) for x in mon.outside_scope[:5]],
                        'stats': mon.stats, 'events': len(rec.mevents), 'triggers': mon.trigger,
                        'cfg': dict((k, v) for k, v in rec.cfg.items()), 'wall': time.time() - t0})
        except Exception:
            import traceback
            out.append({'item': list(item), 'name': name, 'crash': traceback.format_exc()[-2000:]})
        import shutil
        shutil.rmtree(wd, ignore_errors=True)
    return out, cov.dump()


def raft_run(ctx, note=True):
    key = digest_inputs(ctx)
    cdir = os.path.join(VERIF, '.work', 'raftcache')
    os.makedirs(cdir, exist_ok=True)
    cpath = os.path.join(cdir, key + '.json')
    if os.path.exists(cpath):
        res = json.load(open(cpath))
        res['cached'] = True
        if note:
            ctx.note('raft run: using cached result %s (%d traces)' % (key, len(res['traces'])))
        return res
    t0 = time.time()
    items = plan(ctx)
    workroot = os.path.join(VERIF, '.work', 'raftrun_' + key)
    os.makedirs(workroot, exist_ok=True)
    nproc = int(os.environ.get('NPROC', '14'))
    parts = [(items[i::nproc], workroot) for i in range(nproc) if items[i::nproc]]
    with mp.get_context('fork').Pool(len(parts)) as pool:
        results = pool.map(_worker, parts)
    traces = [r for part, _ in results for r in part]
    from harness import srccov
    covmap = srccov.merge([c for _, c in results])
    t_impl = time.time() - t0
    good = [t for t in traces if 'crash' not in t and t.get('model')]
    files, groups = [], []
    per = 8
    for i in range(0, len(good), per):
        grp = good[i:i + per]
        path = os.path.join(workroot, 'cases_%d.v' % (i // per))
        with open(path, 'w') as f:
            from harness import raft_corr as RC
            f.write(RC.HEADER)
            for t in grp:
                f.write(t['defs'])
            f.write('Eval vm_compute in [%s].\n' % ';\n'.join(t['call'] for t in grp))
        files.append(path)
        groups.append(grp)
    out = coq.coqc_eval(files, workroot, jobs=nproc)
    for path, grp in zip(files, groups):
        rc, txt, dt = out[path]
        if rc != 0:
            for t in grp:
                t['divergence'] = -1
                t['coqc_error'] = txt[-600:]
            continue
        vals = coq.parse_coq_value(txt)
        for t, v in zip(grp, vals):
            t['divergence'] = v
    for t in traces:
        t.pop('defs', None)
        t.pop('call', None)
    import shutil
    shutil.rmtree(workroot, ignore_errors=True)
    # a trace whose model evaluation diverged or failed is not "compared": only when every trace agreed does the
    # 'compared' coverage mean what it says (otherwise account() reports the divergences anyway)
    res = {'key': key, 'traces': traces, 'wall_impl': t_impl, 'wall_total': time.time() - t0, 'cached': False,
           'source_coverage': srccov.report(covmap, SRC_FILES, skip_functions=SRC_SKIP) if covmap else None}
    with open(cpath, 'w') as f:
        json.dump(res, f)
    if note:
        ctx.note('raft run: %d traces, %.0fs impl + %.0fs model' % (len(traces), t_impl, time.time() - t0 - t_impl))
    return res


FRAGMENT = ('fragment of Props/TierC5.v (TierC4.v: the same but no snapshot refused for its code version, TierC3.v: also without '
            'dump files, TierC2.v: also without chunked entries, TierC.v: also without compaction): static membership, 1 < batch, voters '
            'never restart, nothing delivered to a node with a dump file before its first tick (the code polls only inside a tick); '
            'snapshots refused for their code version, commands of any '
            'size (entries sent in pieces), log compaction and snapshot install on voters and read-only nodes, read-only nodes, drops, '
            'losses, any clocks allowed')
PARTIAL = {
    'C01': ['state-machine safety across nodes and "every voter\'s object state is the replay of a prefix of one cluster-wide '
            'sequence" (Props/TierC6.v) are theorems only for the ' + FRAGMENT + '; read-only nodes are inside the fragment as '
            'actors but the one-common-sequence theorem speaks of voters; with membership change '
            'or restarts it rests on the handler-level theorems, the correspondence and the monitor'],
    'C02': ['"SUCCESS means committed and never undone": C02_success_is_committed_core2_partial - the entry whose application fired a '
            'SUCCESS callback sits at an index <= commit with the term it was subscribed with, and every voter that later commits that '
            'index holds the same entry - and C02_success_is_committed_core2_direct - for a command that was never forwarded that entry '
            'carries the submitted command - both for the fragment of Props/TierC2.v (static membership, no dump file, commands smaller than a '
            'batch, voters never restart; compaction and snapshot install included); C02_success_is_committed_core3_forwarded covers forwarded '
            'commands of voters on the fragment of Props/TierC3.v; Props/C02b.v repeats the three statements for the fragment of '
            'Props/TierC5.v (dump files, chunked entries, refused snapshots); for a read-only node that restarts under the same identity it is '
            'refuted (request ids restart at 1: C02_..._forwarded_readonly_refuted; the real transport gives a restarted observer a '
            'new identity); outside the fragment: correspondence + monitor'],
    'C03': ['election safety: all runs with static membership, no dump file, no restart of voters; leader completeness: ' + FRAGMENT],
    'C04': ['majority-backed commit and log matching across nodes: ' + FRAGMENT + '; applied index monotone: every message handler and '
            'every tick except the restart path (first tick after a restart loads the dump)'],
    'C05': ['liveness under randomised election timeouts is not proved; convergence is searched for (quiet period after fault histories), '
            'the named sub-properties are theorems; the election part is proved as a deterministic schedule (Props/C05b.v: '
            'C05_election_resolves for every cluster size, split votes do not wedge), not as a timed statement'],
    'C06': ['kills inside one storage primitive, power loss and fsync are not modelled; kills between primitives inside a step run on the '
            'implementation under the monitor only (the model steps are atomic)'],
    'C07': ['the restart clauses of the property are false of the code (term and vote are not persisted): refuted with witnesses, listed '
            'as KF-C07-1/2; without restarts one vote per term and term monotone are theorems'],
    'C09': ['fork mode and user-supplied serializer functions: implementation under the monitors only; "the snapshot a node holds '
            'agrees with what any voter committed at that position" (L1_snapshot_agrees_core2) is proved for the ' + FRAGMENT],
    'C10': ['joint safety under membership change (C10_safety_under_change_full) is not proved on the model of the code: gate, one '
            'pending change, member set = fold of the log, single-change majorities intersect are theorems about it; it is FALSE '
            'for a joiner whose start list is inconsistent with the log it replays (known findings KF-C10-1: re-used address, '
            'KF-C10-2: list read during a pending change; witnesses in harness/raft_scenarios.py, refutations in Props/C10m.v) '
            'and for a joiner that takes a snapshot before it is a member (KF-C10-3: the snapshot lists the joiner; found by the '
            'refinement of the snapshot fragment, Raft/RefineM2Finding.v, DESIGN 17.1); under the discipline D1-D4 of DESIGN 16.5 '
            'it is proved for the abstract Raft with membership coq/AbstractM (Props/C10m.v), to which the model of the code with '
            'dyn = true is tied by a refinement for fragments (Props/TierCM*.v: no dump files, voters never restart; with compaction '
            'and snapshot installation under the run hypothesis snap_ok, which is the negation of the trigger of KF-C10-3); dynamic '
            'membership together with journal files and member restarts is covered by one scripted scenario '
            '(member_entry_behind_stored_commit) and by no random generator'],
    'C12': [],
    'C18': ['non-interference of read-only nodes is refuted in one respect (a voter whose only connection is an observer starts '
            'elections: C18_noninterference_refuted) and proved for the leader phase; what the property states (no vote, no leadership, '
            'never counted) is proved for all reachable states'],
    'C20': ['"no commit while cut off": commit bound for every reachable leader state (C20_no_commit_when_cut_reachable) and no SUCCESS '
            'for a callback waiting on an index above the frozen majority (C20_no_success_when_cut); with K = the leader\'s log end '
            '(nothing submitted after the cut is acknowledged: C20_no_success_when_cut_full on the fragment of Props/TierC3.v, '
            'C20_no_success_when_cut_full_core5 in Props/C20b.v on the fragment of Props/TierC5.v), where '
            'commit <= log end and match_idx <= log end are proved (C20_leader_bounds); C20_bound_reachable_full has no state '
            'hypothesis left'],
}


def account(ctx, res, props, by_generator=None):
    """fill ctx.correspondence / monitor stats and report monitor records of the given properties;
    by_generator: {generator: extra properties whose records count for this check in traces of that generator}"""
    by_generator = by_generator or {}
    for x in PARTIAL.get(ctx.pid, []):
        if x not in ctx.partial:
            ctx.partial.append(x)
    st = ctx.corr(COMPONENT)
    kinds = {}
    stats = {}
    n_rec = 0
    for t in res['traces']:
        if 'crash' in t:
            st['divergences'] += 1
            st.setdefault('first_divergences', []).append({'item': t['item'], 'harness_crash': t['crash'][-800:]})
            continue
        if t.get('model'):
            st['cases'] += 1
            st['steps'] += t['events']
        else:
            ctx.monitor['monitor_only_traces'] = ctx.monitor.get('monitor_only_traces', 0) + 1
            for kp in t.get('kill_points', []):
                ctx.count(COMPONENT, 'kill_before:' + kp)
        eff_props = (set(props) | set(by_generator.get(t['item'][0], ()))
                     | set(by_generator.get('%s:%s' % (t['item'][0], t['item'][1]), ())))
        for a in t.get('attributed', []):
            fid, prop = a[0], a[1]
            if prop in eff_props:
                # a known finding explains this record when it is listed for this check's property or for the property the
                # record is about (checks also count records of neighbouring properties in some schedules)
                listed = [f for f in ctx.findings if f['id'] == fid and f.get('status') == 'known'
                          and (ctx.pid in f.get('properties', []) or prop in f.get('properties', []))]
                if listed:
                    ctx.known_finding(listed[0])
                    ctx.monitor['known_finding_records'] = ctx.monitor.get('known_finding_records', 0) + 1
                else:
                    n_rec += 1
                    if n_rec <= 3:
                        ctx.violation('%s monitor on the implementation: %s (matches the signature of %s, which is not a listed known finding of %s)'
                                      % (prop, a[2], fid, ctx.pid),
                                      {'kind': 'raft_trace', 'item': t['item'], 'step': a[3], 'record': a}, found_input=True)
        if t.get('model') and t.get('divergence') is not None:
            st['divergences'] += 1
            if len(st.setdefault('first_divergences', [])) < 5:
                st['first_divergences'].append({'item': t['item'], 'first_diverging_step': t['divergence'],
                                                'coqc_error': t.get('coqc_error')})
        if t.get('model') and t['stats'].get('applies', 0) > 3 and t['stats'].get('elections', 0) > 0:
            st['nontrivial'] += 1
        for k, v in t['kinds'].items():
            kinds[k] = kinds.get(k, 0) + v
        for k, v in t['stats'].items():
            stats[k] = stats.get(k, 0) + v
        for prop, msg, step in t['records']:
            if (prop in props or prop in by_generator.get(t['item'][0], ())
                    or prop in by_generator.get('%s:%s' % (t['item'][0], t['item'][1]), ())):
                n_rec += 1
                if n_rec <= 3:
                    ctx.violation('%s monitor on the implementation: %s' % (prop, msg),
                                  {'kind': 'raft_trace', 'item': t['item'], 'step': step, 'record': [prop, msg, step],
                                   'cfg': t.get('cfg')}, found_input=True)
    for k, v in kinds.items():
        ctx.count(COMPONENT, k, v)
    ctx.monitor.update({'traces': len(res['traces']), 'monitor_records_for_this_property': n_rec,
                        'monitor_stats': stats, 'raft_run_cached': res.get('cached'), 'raft_run_key': res['key'],
                        'traces_after_memory_loss_records': sum(t.get('after_memory_loss', 0) for t in res['traces'] if 'crash' not in t),
                        'records_outside_the_quantifier': [x for t in res['traces'] if 'crash' not in t for x in t.get('outside_scope', [])][:10]})
    ctx.extra['rule'] = ('traces = scripted scenarios (witnesses of the fixed and known findings, validated against the reverted fix or the '
                         'seeded change) + random schedules from seven generators on the real SyncObj objects under virtual time: '
                         'random_trace (static clusters of 2-5 voters), ro_trace (0-3 read-only nodes), member_trace (dynamic membership '
                         'under the operator discipline), journal_trace (file journal + dump, kills between steps, restarts), '
                         'killpoint_trace (kills between two storage primitives inside a step), lag_trace (slow links: queued traffic '
                         'consumed in runs, answers handled across leader ticks), converge_trace (faults then a quiet period; monitors only). '
                         'Every event of a model-checked trace is replayed on the Coq model and the digest of the stepped node state + '
                         'outputs is compared; non-trivial = at least one election and more than 3 applied entries; distinct by generator+seed')
    if res.get('source_coverage'):
        sc = res['source_coverage']
        ctx.extra['source_coverage'] = {
            'what': 'statements / branch exits of /repo/pysyncobj executed by the traces of this run (coverage.py, function '
                    'bodies only): "compared" = inside traces whose every step was diffed against the Coq model; "any" = also '
                    'the monitor-only traces (kills inside a step, convergence runs).  A statement no compared trace reaches is '
                    'outside the tie between model and source for this run',
            'files': sc}
    good = [t for t in res['traces'] if 'crash' not in t]
    if good:
        t = good[len(good) // 2]
        ctx.samples.append({'trace': t['item'], 'events': t['events'], 'cfg': t['cfg'], 'event_mix': t['kinds']})
    ctx.trusted += [
        'oracle inputs of the Raft model: clock readings, random timeout draws, iteration order of the member set, len(command) and pickled sizes, snapshot byte length',
        'environment model N1-N5 (coq/Raft/Net.v): per-connection FIFO, no duplication, no delivery after the drop was noticed, loss and delay allowed',
        'modelled, not verified: pickle/gzip/zlib, os.rename atomicity, fork copy-on-write (useFork is off in the harness), the real TCP transport (C13/C14)',
    ]
    return n_rec


def search(ctx, props, n=None):
    """more schedules on the implementation under the monitors only"""
    from harness import raft_corr as RC
    n = n or (400 if ctx.quick else 4000)
    base = (ctx.seed * 104729 + 11) % 1000000
    items = []
    for i in range(n):
        items.append((('random_trace', 'ro_trace', 'member_trace', 'journal_trace', 'killpoint_trace')[i % 5], base + i, 300))
    nproc = int(os.environ.get('NPROC', '14'))
    workroot = os.path.join(ctx.work, 'search')
    os.makedirs(workroot, exist_ok=True)
    parts = [(items[i::nproc], workroot) for i in range(nproc) if items[i::nproc]]
    with mp.get_context('fork').Pool(len(parts)) as pool:
        traces = [r for part, _ in pool.map(_worker, parts) for r in part]
    hits = 0
    for t in traces:
        if 'crash' in t:
            continue
        for prop, msg, step in t['records']:
            if prop in props:
                hits += 1
                if hits <= 2:
                    ctx.violation('%s monitor on the implementation: %s' % (prop, msg),
                                  {'kind': 'raft_trace', 'item': t['item'], 'step': step, 'record': [prop, msg, step]},
                                  found_input=True)
    ctx.monitor['search_traces'] = len(traces)
    return hits > 0


def replay(ctx, data, props):
    item = tuple(data['item'])
    rec, mon = run_one(item, ctx.work)
    recs = [r for r in mon.records if r[0] in props]
    print('records:', recs[:10])
    if recs:
        print('VIOLATION property=%s replay=(replayed)' % ctx.pid)
        return 1
    return 0


def standard_module(pid, props, by_generator=None):
    """builds correspondence/search/replay functions for a property that only uses the shared run"""
    def correspondence(ctx):
        res = raft_run(ctx)
        account(ctx, res, props, by_generator)

    def search_(ctx):
        return search(ctx, props)

    def replay_(ctx, data):
        return replay(ctx, data, props)
    return correspondence, search_, replay_
