"""C08 - file journal == list, and kill-safe.  Model: coq/Journal/Model.v; theorems: coq/Props/C08.v.

Correspondence: random histories (operations, reopen, kill after the n-th primitive write) on a real
FileJournal in a scratch directory vs `check_case` evaluated with vm_compute; compared after every
step: len, currentOffset, header offset word, file size, checksum of the whole file, checksum of the
entries, getRaftCommitIndex, metaSaved, content of .meta and .meta.tmp, the primitive writes executed.
Monitor (the property text on the implementation): entries == plain list after every operation and
after reopen; after a kill the reopened journal is a contiguous range of the previous entries that
contains everything the interrupted operation was meant to keep (append all-or-nothing), and the
commit index is a value that was set.  Kills strictly inside deleteEntriesTo are known finding D6.
"""
import json
import os
import shutil
import traceback

from vlib import coq
from harness import journal as H

COMPONENT = 'Journal/Model.v <-> pysyncobj/journal.py'
KF_D6 = {'id': 'KF-C08-1', 'status': 'known', 'properties': ['C08', 'C06'],
         'what': 'deleteEntriesTo is clear + re-append: a kill inside it loses entries it was meant to keep (D6)'}
PER_FILE = 50


def corpus_cases():
    p = os.path.join(coq.VERIF, 'corpus', 'c08_cases.json')
    if os.path.exists(p):
        return json.load(open(p))
    return []


def _run_one(J, name, steps, work):
    d = os.path.join(work, 'run_' + name)
    try:
        r = H.run_history(J, steps, d)
    finally:
        shutil.rmtree(d, ignore_errors=True)
    steps = r['steps']
    defs, call = H.v_case(name, steps, r['expected'])
    ops = []
    for st in steps:
        ops.append(st[0] if st[0] == 'reopen' else ('kill:' if st[0] == 'kill' else '') + st[1][0])
    return {'name': name, 'defs': defs, 'call': call, 'expected': r['expected'], 'problems': r['problems'], 'd6': r['d6'],
            'stats': r['stats'], 'ops': ops, 'steps': len(steps)}


def _worker(args):
    items, work, big = args
    J = H.load_impl()
    out = []
    for it in items:
        try:
            if 'seed' in it:
                steps = H.gen_case(it['seed'], big)
                name = 's%d' % it['seed']
            else:
                steps = it['steps']
                name = it['name']
            r = _run_one(J, name, steps, work)
            r['item'] = {'seed': it['seed'], 'big': big} if 'seed' in it else {'name': it['name'], 'steps': it['steps']}
            out.append(r)
        except BaseException:
            out.append({'item': it, 'crash': traceback.format_exc()})
    return out


def run_cases(ctx, items, label, big):
    import multiprocessing as mp
    nproc = 16
    chunks = [(items[i::nproc], ctx.work, big) for i in range(nproc) if items[i::nproc]]
    with mp.get_context('fork').Pool(len(chunks), initializer=H.limit_resources) as pool:
        from vlib import cov
        results = [r for part in cov.pmap(ctx, pool, _worker, chunks) for r in part]
    good = [r for r in results if 'crash' not in r]
    good.sort(key=lambda r: r['name'])
    J = H.load_impl()
    header = H.v_header(J)
    files, groups = [], []
    # spread the expensive cases (big files) over the files
    good.sort(key=lambda r: -r['stats']['max_file'])
    nfiles = max(1, (len(good) + PER_FILE - 1) // PER_FILE)
    buckets = [good[i::nfiles] for i in range(nfiles)]
    for i, grp in enumerate(buckets):
        if not grp:
            continue
        path = os.path.join(ctx.work, 'cases_%s_%d.v' % (label, i))
        with open(path, 'w') as f:
            f.write(header)
            for r in grp:
                f.write(r['defs'])
            f.write('Eval vm_compute in [%s].\n' % ';\n '.join(r['call'] for r in grp))
        files.append(path)
        groups.append(grp)
    res = coq.coqc_eval(files, ctx.work)
    st = ctx.corr(COMPONENT)
    for path, grp in zip(files, groups):
        rc, out, dt = res[path]
        if rc != 0:
            st['divergences'] += 1
            st.setdefault('first_divergences', []).append({'file': path, 'coqc_failed': out[-1500:]})
            continue
        vals = coq.parse_coq_value(out)
        for r, v in zip(grp, vals):
            st['cases'] += 1
            st['steps'] += r['steps']
            if v is not None:
                st['divergences'] += 1
                impl_obs = r['expected'][v[0]] if v[0] < len(r['expected']) else None
                r['divergence'] = {'step': v[0], 'model_obs': v[1], 'impl_obs': impl_obs}
                if len(st.setdefault('first_divergences', [])) < 5:
                    st['first_divergences'].append({'case': r['item'], 'step': v[0], 'op': r['ops'][v[0]] if v[0] < len(r['ops']) else None,
                                                    'model_obs': [str(x) for x in v[1]],
                                                    'impl_obs': [str(x) for x in (impl_obs or [])]})
            if r['stats']['max_len'] >= 2 and r['steps'] >= 3:
                st['nontrivial'] += 1
    for r in results:
        if 'crash' in r:
            st['divergences'] += 1
            st.setdefault('first_divergences', []).append({'case': r['item'], 'harness_crash': r['crash'][-1500:]})
            continue
        for op in r['ops']:
            ctx.count(COMPONENT, op)
        s = r['stats']
        ctx.count(COMPONENT, 'kills_fired', s['kills_fired'])
        ctx.count(COMPONENT, 'kills_after_completion', s['kills_late'])
        ctx.count(COMPONENT, 'file_growths', s['grow'])
        ctx.count(COMPONENT, 'delfrom_removing_10_or_more', s['delfrom_ge10'])
        ctx.count(COMPONENT, 'max_file_%dk' % (s['max_file'] // 1024))
        ctx.count(COMPONENT, 'max_len_%s' % ('0' if s['max_len'] == 0 else '1-9' if s['max_len'] < 10 else '10-19' if s['max_len'] < 20 else '20+'))
    return results


def d6_finding(ctx):
    for f in ctx.known_for():
        if f.get('id') == KF_D6['id']:
            return f
    return KF_D6


def report(ctx, results):
    n_new = n_d6 = 0
    for r in results:
        if 'crash' in r:
            continue
        for p in r['problems']:
            n_new += 1
            if n_new <= 3:
                ctx.violation('C08 monitor on the implementation: ' + p['what'],
                              {'kind': 'history', 'case': r['item'], 'problems': r['problems']}, found_input=True)
        n_d6 += len(r['d6'])
    if n_d6:
        ctx.known_finding(d6_finding(ctx))
    ctx.monitor['monitor_records_new'] = ctx.monitor.get('monitor_records_new', 0) + n_new
    ctx.monitor['monitor_records_known_D6'] = ctx.monitor.get('monitor_records_known_D6', 0) + n_d6
    return n_new


def correspondence(ctx):
    n = int(os.environ.get('VERIF_C08_CASES', '0')) or (800 if ctx.quick else 12000)
    big = 6000 if ctx.quick else 20000
    base = ctx.seed * 1000003 % (2 ** 31)
    items = [{'name': c['name'], 'steps': c['steps']} for c in corpus_cases()]
    items += [{'seed': base + i} for i in range(n)]
    ctx.extra['rule'] = ('cases = random histories of add (0 .. 8x file size bytes, sizes on the growth boundaries), clear, '
                         'deleteEntriesFrom, deleteEntriesTo, setRaftCommitIndex, onOneSecondTimer, reopen, and kills after the '
                         'n-th primitive write of an operation followed by reopen, on a real FileJournal under .work; '
                         'non-trivial = at least 3 steps and at least 2 entries at some point; distinct by seed; '
                         'plus the fixed histories of corpus/c08_cases.json')
    all_results = []
    step = 4000
    for i in range(0, len(items), step):
        all_results += run_cases(ctx, items[i:i + step], 'b%d' % (i // step), big)
    report(ctx, all_results)
    ctx.monitor['traces'] = len(all_results)
    good = [x for x in all_results if 'crash' not in x]
    if good:
        r = next((x for x in good if x['steps'] > 4 and 'seed' in x['item']), good[0])
        ctx.samples.append({'case': r['item'], 'ops': r['ops']})
    ctx.trusted += [
        'oracle: pickle (content of .meta is modelled by the stored commit index), mmap (a store that executed is visible '
        'to the next open; resize zero-fills), os.rename atomicity; power loss is out of scope',
        'kill = the object is abandoned between two primitive storage calls (ResizableFile.write, the .meta.tmp write, '
        'shutil.move), wrapped by harness/journal.py; a kill inside one primitive is not modelled',
        'struct.error for offsets/lengths >= 2^32 or idx/term outside u64 is outside the model (guard op_fits of every theorem)',
    ]
    ctx.partial += []


def d6_witness(J, work):
    """3 entries, deleteEntriesTo(1) killed after its first primitive (the clear): reopens empty."""
    steps = [('op', ('add', ('lit', [1]), 1, 1)), ('op', ('add', ('lit', [2]), 2, 1)), ('op', ('add', ('lit', [3]), 3, 1)),
             ('kill', ('delto', 1), 1)]
    d = os.path.join(work, 'd6')
    try:
        r = H.run_history(J, steps, d)
        return {'d6': r['d6'], 'problems': r['problems']}
    finally:
        shutil.rmtree(d, ignore_errors=True)


def d5_witness(J, work):
    d = os.path.join(work, 'd5')
    shutil.rmtree(d, ignore_errors=True)
    os.makedirs(d)
    path = os.path.join(d, 'journal.bin')
    res = {'raised': None, 'len_mem': None, 'len_reopened': None, 'entry_ok': False}
    try:
        j = J.FileJournal(path)
        try:
            j.add(b'x' * 3000, 1, 0)
        except Exception as e:
            res['raised'] = repr(e)
        res['len_mem'] = len(j)
        j._destroy()
        j = J.FileJournal(path)
        res['len_reopened'] = len(j)
        res['entry_ok'] = (len(j) == 1 and j[0] == (b'x' * 3000, 1, 0))
        j._destroy()
    except Exception as e:
        res['raised'] = (res['raised'] or '') + ' / ' + repr(e)
    shutil.rmtree(d, ignore_errors=True)
    return res


def torn_tmp_witness(J, work):
    """a kill between creating '<journal>.meta.tmp' and its content reaching the disk (file empty, or a prefix of the
    pickle), in the periodic store that follows an earlier completed one: the journal reopens with the commit index of
    the completed store - the leftover temporary file is never what is read back"""
    out = []
    for label, leftover in (('empty', b''), ('prefix', None), ('garbage', b'\x80\x02}q\x00X\x0f')):
        d = os.path.join(work, 'torn_' + label)
        shutil.rmtree(d, ignore_errors=True)
        os.makedirs(d)
        path = os.path.join(d, 'journal.bin')
        res = {'leftover': label, 'commit': None, 'entries': None, 'raised': None}
        try:
            j = J.FileJournal(path)
            for i in range(3):
                j.add(b'c%d' % i, i + 1, 1)
            j.setRaftCommitIndex(2)
            j.onOneSecondTimer()                    # a completed store: commit index 2 is in '.meta'
            j.setRaftCommitIndex(3)
            j.flush()
            if leftover is None:
                leftover = J.dumps({'raftCommitIndex': 3})[:-3]
            with open(path + '.meta.tmp', 'wb') as f:   # the next store was killed inside its temporary file
                f.write(leftover)
            j = J.FileJournal(path)
            res['commit'] = j.getRaftCommitIndex()
            res['entries'] = len(j)
            j._destroy()
        except Exception as e:
            res['raised'] = repr(e)
        shutil.rmtree(d, ignore_errors=True)
        out.append(res)
    return out


def _known_child(work):
    J = H.load_impl()
    return d5_witness(J, work), d6_witness(J, work), torn_tmp_witness(J, work)


def known(ctx):
    r5, r6, rt = H.run_limited(_known_child, ctx.work)
    # a torn temporary file of the commit-index store is never read back
    ctx.monitor['torn_tmp_witness'] = rt
    for r in rt:
        if r['raised'] or r['commit'] not in (2, 3) or r['entries'] != 3:
            ctx.violation('C08 monitor on the implementation: after a kill inside the temporary file of the commit-index store '
                          '(left %s) the journal reopens with commit index %r, %r entries, raised %r; stored was 2, set was 3'
                          % (r['leftover'], r['commit'], r['entries'], r['raised']), {'kind': 'torn_tmp', 'result': r},
                          found_input=True)
            break
    # D5 (fixed, FX-C08-1): a record larger than the file must be accepted and survive a reopen
    ctx.monitor['d5_witness'] = r5
    if r5['raised'] or not r5['entry_ok']:
        ctx.violation('add(b"x"*3000, 1, 0) on a fresh journal: raised %r, memory has %r entries, reopened file has %r '
                      '(fixed finding FX-C08-1 is back)' % (r5['raised'], r5['len_mem'], r5['len_reopened']),
                      {'kind': 'd5'}, found_input=True)
    # D6 (known): must still fail
    ctx.monitor['d6_witness'] = {'d6_records': r6['d6'], 'other_records': r6['problems']}
    if r6['d6']:
        ctx.known_finding(d6_finding(ctx))
    else:
        ctx.monitor['d6_witness']['note'] = ('the D6 witness no longer fails on the implementation; the model still contains D6, '
                                            'so the same history (corpus case kf_c08_1) diverges in the correspondence')
    for p in r6['problems']:
        ctx.violation('C08 monitor on the D6 witness: ' + p['what'], {'kind': 'd6', 'problems': r6['problems']}, found_input=True)


def _search_child(work, base, n):
    J = H.load_impl()
    hits = []
    for i in range(n):
        steps = H.gen_case(base + i, 3000)
        d = os.path.join(work, 'search')
        try:
            r = H.run_history(J, steps, d)
        except BaseException:
            hits.append(('C08: the harness could not run a generated history: ' + traceback.format_exc().strip().split('\n')[-1],
                         {'kind': 'history', 'case': {'seed': base + i, 'big': 3000}}))
            r = None
        finally:
            shutil.rmtree(d, ignore_errors=True)
        if r and r['problems']:
            hits.append(('C08 monitor on the implementation: ' + r['problems'][0]['what'],
                         {'kind': 'history', 'case': {'seed': base + i, 'big': 3000}, 'problems': r['problems']}))
        if len(hits) >= 2:
            break
    return hits


def search(ctx):
    """More random histories on the implementation under the monitor only."""
    base = (ctx.seed * 7919 + 17) % (2 ** 31)
    n = 1500 if ctx.quick else 20000
    hits = H.run_limited(_search_child, ctx.work, base, n)
    for what, rep in hits:
        ctx.violation(what, rep, found_input=True)
    ctx.monitor['search_cases'] = n
    return len(hits) > 0


def _replay_child(work, steps):
    J = H.load_impl()
    r = H.run_history(J, steps, os.path.join(work, 'replay'))
    return {'problems': r['problems'], 'd6': r['d6'], 'steps_run': len(r['steps'])}


def replay(ctx, data):
    kind = data.get('kind')
    if kind == 'history':
        case = data['case']
        big = case.get('big', data.get('big', 6000 if ctx.quick else 20000))
        steps = H.gen_case(case['seed'], big) if 'seed' in case else case['steps']
        r = H.run_limited(_replay_child, ctx.work, steps)
        print('steps:', [H.v_step(s)[:80] for s in steps])
        print('problems:', r['problems'])
        print('d6 records (known finding):', r['d6'])
        if r['problems']:
            print('VIOLATION property=C08 replay=(replayed)')
            return 1
        return 0
    if kind in ('d5', 'd6', 'torn_tmp'):
        known(ctx)
        return 1 if ctx.violations else 0
    print('nothing to replay for', kind)
    return 0
