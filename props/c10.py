"""C10 - decided on the shared Raft run (props/raftcommon.py): theorems in coq/Props/C10.v over the L1 model
coq/Raft, correspondence of that model with the implementation, runtime monitor records of C10."""
from props import raftcommon as R

PROPS = ('C10',)
# "adding or removing one node at a time under any schedule preserves C01-C04": in schedules with membership changes a
# safety record of C01-C04 is a C10 record as well
_DYN = ('C01', 'C02', 'C03', 'C04')
_corr, search, replay = R.standard_module('C10', PROPS, {
    'member_trace': _DYN, 'scenario:readded_address_partial_replay': _DYN, 'scenario:joiner_list_read_during_pending_change': _DYN, 'scenario:snapshot_install_changes_cluster_size': _DYN, 'scenario:reelected_leader_membership_gate': _DYN,
    'scenario:member_rollback': _DYN, 'scenario:snapshot_members': _DYN, 'scenario:snapshot_at_membership_entry': _DYN,
    'scenario:joiner_snapshot_lists_itself': _DYN, 'scenario:duplicate_add_then_truncation': _DYN,
    'scenario:d16': _DYN, 'scenario:d20': _DYN, 'scenario:observer_of_snapshot_installed_voter': _DYN})


def correspondence(ctx):
    _corr(ctx)
    ctx.trusted.append('Props/C10m.v speaks about coq/AbstractM (an abstract Raft with PySyncObj\'s membership rules, written by hand from '
                       'syncobj.py); it is tied to /repo through the refinement of the model of the code with dyn = true to it '
                       '(Props/TierCM.v, Props/TierCM3.v) for the fragments stated there (no dump files, voters never restart, '
                       'joiners start with the initial list, vote requests inside the member filter); outside those fragments only '
                       'its refutations are tied to the code, by replay of their runs on the real objects (scenarios '
                       'readded_address_partial_replay, joiner_list_read_during_pending_change, joiner_snapshot_lists_itself)')
