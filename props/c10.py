"""C10 - decided on the shared Raft run (props/raftcommon.py): theorems in coq/Props/C10.v over the L1 model
coq/Raft, correspondence of that model with the implementation, runtime monitor records of C10."""
from props import raftcommon as R

PROPS = ('C10',)
correspondence, search, replay = R.standard_module('C10', PROPS)
