"""C20 - decided on the shared Raft run (props/raftcommon.py): theorems in coq/Props/C20.v over the L1 model
coq/Raft, correspondence of that model with the implementation, runtime monitor records of C20."""
from props import raftcommon as R

PROPS = ('C20',)
correspondence, search, replay = R.standard_module('C20', PROPS)
