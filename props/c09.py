"""C09 - decided on the shared Raft run (props/raftcommon.py): theorems in coq/Props/C09.v over the L1 model
coq/Raft, correspondence of that model with the implementation, runtime monitor records of C09."""
from props import raftcommon as R

PROPS = ('C09',)
correspondence, search, replay = R.standard_module('C09', PROPS)
