"""C09 - decided on the shared Raft run (props/raftcommon.py): theorems in coq/Props/C09.v over the L1 model
coq/Raft, correspondence of that model with the implementation, runtime monitor records of C09."""
from props import raftcommon as R

PROPS = ('C09',)
# "a snapshot is the state of exactly position k": where a snapshot is installed, an object state that differs from
# executing the log prefix (a C01 record) is a C09 record as well
_SNAP = ('C01',)
correspondence, search, replay = R.standard_module('C09', PROPS, {
    'lag_trace': _SNAP, 'scenario:snapshot_sent_long_after_it_was_taken': _SNAP, 'scenario:snapshot_catchup': _SNAP,
    'scenario:compact_during_install': _SNAP, 'scenario:old_snapshot_again': _SNAP, 'scenario:stale_cursor': _SNAP,
    'scenario:raising_then_snapshot': _SNAP, 'scenario:version_survives_snapshot_and_dump': _SNAP})
