"""C11 - arguments of any size and shape arrive intact on every replica.

Model: coq/Chunking/Model.v; lemmas: coq/Chunking/Proofs*.v; theorems: coq/Props/C11.v.

Correspondence (harness/chunking.py): real SyncObj objects under harness/sim.py
  * pure: __getEntries / __sendAppendEntries / the transmission branch of __onMessageReceived called
    directly on crafted logs and (mis)labelled piece sequences  vs  check_get / check_send / check_recv;
  * end to end: 2- and 3-node clusters, memory and file journals, batched and unbatched mode; every call
    of __sendAppendEntries (per follower) and every reassembly on a follower  vs  check_run / check_recv,
    the shape of every pickled command  vs  check_pack.
Monitor (the property text): every replica executes every submitted call exactly once with equal
arguments; no exception escapes a tick, a message handler or the replicated call itself; a file journal
re-read from disk equals the log.
"""
import json
import os
import random
import shutil
import time

from vlib import coq
from harness import chunking as H

COMPONENT = 'Chunking/Model.v <-> pysyncobj/syncobj.py (__getEntries, __sendAppendEntries, transmission reassembly, replicated/__doApplyCommand packing)'
HEADER = ('From Coq Require Import ZArith List.\nFrom PSO Require Import Base.PyBytes Chunking.Model.\n'
          'Import ListNotations.\nOpen Scope Z_scope.\n')

GRID_B = [1, 7, 64, 1000, 4096, 65536]
THOROUGH_B = [2, 3, 10, 100, 255, 256, 257, 1024, 10000, 32768]
NPROC = 16


def base_cfg(B, nodes=2, journal=None, use_batch=True):
    return dict(voters=list(range(1, nodes + 1)), ro=[], period=10, tmin=40, tspan=128, fallback=300,
                batch=B, chunk=64, journal=journal, use_batch=use_batch)


MIN_NOARG = H.cmd_len_of((), {}, False)


def spec_for_len(want, salt):
    """a call whose command (type byte + pickled (funcID, args)) has exactly `want` bytes, or None"""
    if want == MIN_NOARG:
        return ['none']
    kinds = ['str', 'bytes', 'two']
    kinds = kinds[salt % 3:] + kinds[:salt % 3]
    for kind in kinds:
        n = H.pad_for_cmd_len(kind, want)
        if n is not None:
            return ['pad', kind, n, want]
    return None


def grid_wants(B):
    out = set()
    for k in range(1, 5):
        for d in range(-64, 65):
            w = k * B + d
            if w >= MIN_NOARG:
                out.add(w)
    return sorted(out)


def make_rounds(specs, rng, B):
    """mostly one call per round; sometimes several calls are queued before the leader ticks (multi-entry
    batches); every 12th round is a random-shape round"""
    rounds = []
    i = 0
    while i < len(specs):
        k = 1 if rng.random() < 0.8 else rng.randrange(2, 5)
        rounds.append(specs[i:i + k])
        i += k
        if len(rounds) % 12 == 11:
            scale = min(3 * B + 70, 100000)
            rounds.append([['shape', rng.randrange(2 ** 31), scale] for _ in range(rng.randrange(1, 4))])
    return rounds


CONFIGS = [(None, True), ('file', False), (None, False), ('file', True)]


def grid_jobs(ctx, Bs, node_counts, per_job, full_cross=True):
    """full_cross: every size under all four (journal, mode) combinations; otherwise every size under two of
    them, alternating, so that each size still meets both journals and both append modes"""
    jobs = []
    rng = random.Random(ctx.seed * 31 + 5)
    for B in Bs:
        wants = grid_wants(B)
        specs = []
        for i, w in enumerate(wants):
            s = spec_for_len(w, i)
            if s is not None:
                specs.append(s)
        for nodes in node_counts:
            for ci, (journal, use_batch) in enumerate(CONFIGS):
                mine = specs if full_cross else [s for i, s in enumerate(specs) if i % 2 == (ci // 2)]
                for c in range(0, len(mine), per_job):
                    jid = 'g%d_%d%s%s_%d' % (B, nodes, 'f' if journal else 'm', 'b' if use_batch else 'u', c // per_job)
                    jobs.append({'id': jid, 'kind': 'grid', 'cfg': base_cfg(B, nodes, journal, use_batch),
                                 'rounds': make_rounds(mine[c:c + per_job], rng, B)})
    return jobs


def random_jobs(ctx, n, base_seed, nodes_choices=(2,)):
    """~n random (size, B) pairs, each on its own cluster, plus random shapes of args / kwargs"""
    jobs = []
    rng = random.Random(base_seed)
    for i in range(n):
        B = int(round(2 ** (rng.random() * 16)))
        B = max(1, min(65536, B))
        if rng.random() < 0.5:
            want = rng.randrange(0, 5) * B + rng.randrange(-80, 81)
        else:
            want = rng.randrange(1, min(5 * B + 100, 300000))
        want = max(MIN_NOARG, want)
        s = spec_for_len(want, i) or ['none']
        scale = min(2 * B + 50, 60000)
        rounds = [[s], [['shape', rng.randrange(2 ** 31), scale]],
                  [['shape', rng.randrange(2 ** 31), scale] for _ in range(rng.randrange(1, 4))]]
        if rng.random() < 0.5:
            rounds.reverse()
        cfg = base_cfg(B, rng.choice(nodes_choices), rng.choice([None, 'file']), rng.random() < 0.5)
        jobs.append({'id': 'r%d' % i, 'kind': 'random', 'cfg': cfg, 'rounds': rounds, 'pair': [want, B]})
    return jobs


def pure_jobs(ctx, Bs, n):
    return [{'id': 'p%d_%d' % (B, i), 'kind': 'pure', 'cfg': base_cfg(B), 'seed': (ctx.seed * 7 + B * 13 + i) % (2 ** 31), 'n': n}
            for i, B in enumerate(Bs)]


def _worker(job):
    wd = job.get('workdir')
    t0 = time.time()
    if job['kind'] == 'pure':
        res = H.run_pure_job(job)
    else:
        res = H.run_e2e_job(job)
    res['wall'] = time.time() - t0
    res['kind'] = job['kind']
    if wd:
        shutil.rmtree(wd, ignore_errors=True)
    return res


def run_impl(ctx, jobs):
    """Forked workers.  Jobs that move hundreds of kilobytes per call are memory-bandwidth bound and scale
    badly on this machine, so they get a small pool of their own next to the pool of small jobs."""
    import multiprocessing as mp
    for j in jobs:
        j['workdir'] = os.path.join(ctx.work, 'w_' + j['id'])
    weight = lambda j: j['cfg']['batch'] * (sum(len(r) for r in j.get('rounds', [])) + 1)
    big = sorted([j for j in jobs if j['cfg']['batch'] >= 20000 and j['kind'] != 'pure'], key=lambda j: -weight(j))
    small = sorted([j for j in jobs if not (j['cfg']['batch'] >= 20000 and j['kind'] != 'pure')], key=lambda j: -weight(j))
    mpc = mp.get_context('fork')
    results = []
    nbig = min(4, len(big))
    pool_b = mpc.Pool(nbig) if nbig else None
    pool_s = mpc.Pool(max(1, NPROC - nbig)) if small else None
    try:
        ab = pool_b.map_async(_worker, big, chunksize=1) if pool_b else None
        as_ = pool_s.map_async(_worker, small, chunksize=1) if pool_s else None
        if as_:
            results += as_.get()
        if ab:
            results += ab.get()
    finally:
        for p in (pool_b, pool_s):
            if p:
                p.close()
                p.join()
    byid = dict((r['id'], r) for r in results)
    return [byid[j['id']] for j in jobs]


def run_model(ctx, results, label):
    """cases_*.v -> vm_compute -> divergences"""
    st = ctx.corr(COMPONENT)
    good = [r for r in results if 'crash' not in r and 'evals' in r]
    files, groups = [], []
    cur, cur_w = [], 0
    for r in good:
        w = len(r['defs']) + sum(len(e) for e in r['evals'])
        if cur and (cur_w + w > 110000 or len(cur) >= 40):
            groups.append(cur)
            cur, cur_w = [], 0
        cur.append(r)
        cur_w += w
    if cur:
        groups.append(cur)
    for gi, grp in enumerate(groups):
        path = os.path.join(ctx.work, 'cases_%s_%d.v' % (label, gi))
        with open(path, 'w') as f:
            f.write(HEADER)
            for r in grp:
                f.write(r['defs'])
                for e in r['evals']:
                    f.write('Eval vm_compute in %s.\n' % e)
        files.append(path)
    res = coq.coqc_eval(files, ctx.work)
    for path, grp in zip(files, groups):
        rc, out, dt = res[path]
        if rc != 0:
            st['divergences'] += 1
            st.setdefault('first_divergences', []).append({'file': path, 'coqc_failed': out[-1500:]})
            continue
        chunks = coq.split_evals(out)
        k = 0
        for r in grp:
            vals = []
            for _ in r['evals']:
                vals.append(coq.parse_coq_value(chunks[k]))
                k += 1
            account(ctx, st, r, vals)
    for r in results:
        if 'crash' in r:
            st['divergences'] += 1
            st.setdefault('first_divergences', []).append({'job': r['id'], 'cfg': r.get('cfg'), 'harness_crash': r['crash'][-1500:]})


def note_div(st, r, what):
    st['divergences'] += 1
    r.setdefault('divergence', []).append(what)
    if len(st.setdefault('first_divergences', [])) < 6:
        d = {'job': r['id'], 'cfg': r.get('cfg')}
        d.update(what)
        st['first_divergences'].append(d)


def account(ctx, st, r, vals):
    if r['kind'] == 'pure':
        v = vals[0]
        st['cases'] += len(v)
        st['nontrivial'] += len(v)
        for i, x in enumerate(v):
            if x is not None:
                note_div(st, r, {'pure_case': i, 'step': x})
    else:
        bad_send, recv, pack = vals
        st['cases'] += r['n_send'] + r['n_recv'] + r['n_pack']
        st['nontrivial'] += r['nontrivial'] + r['n_pack']
        for (ci, step) in bad_send:
            note_div(st, r, {'send_case': ci, 'message': step})
        for i, x in enumerate(recv):
            if x is not None:
                note_div(st, r, {'recv_group': i, 'piece': x})
        for i, x in enumerate(pack):
            if x is not True:
                note_div(st, r, {'pack_case': i})
    st['steps'] += r['steps']
    for k, n in r['dist'].items():
        ctx.count(COMPONENT, k, n)
    ctx.count(COMPONENT, 'jobs_' + r['kind'])
    if r['kind'] != 'pure':
        c = r['cfg']
        ctx.count(COMPONENT, 'calls_B=%d' % c['batch'] if r['kind'] == 'grid' else 'calls_random_B', r['n_calls'])
        ctx.count(COMPONENT, 'calls_%s_journal' % ('file' if c.get('journal') else 'memory'), r['n_calls'])
        ctx.count(COMPONENT, 'calls_%s' % ('batched' if c.get('use_batch', True) else 'unbatched'), r['n_calls'])
        ctx.count(COMPONENT, 'calls_%d_nodes' % len(c['voters']), r['n_calls'])


def report_problems(ctx, jobs, results, what_prefix='C11 monitor on the implementation: '):
    n = 0
    byid = dict((j['id'], j) for j in jobs)
    for r in results:
        if r.get('problems'):
            n += 1
            if n <= 3:
                job = dict(byid[r['id']])
                job.pop('workdir', None)
                ctx.violation(what_prefix + r['problems'][0] + ' [cfg %s]' % json.dumps(r['cfg'], sort_keys=True),
                              {'kind': 'e2e_job' if r['kind'] != 'pure' else 'pure_job', 'job': job,
                               'failing_round': r.get('failing_round'), 'problems': r['problems']},
                              found_input=True)
    ctx.monitor['monitor_records'] = ctx.monitor.get('monitor_records', 0) + n
    return n


def check_exact_sizes(ctx, results):
    """harness self-check: the pads really produced the wanted command lengths"""
    st = ctx.corr(COMPONENT)
    for r in results:
        if r.get('kind') in ('grid',) and 'dist' in r and r.get('failing_round') is None:
            wanted = sum(1 for rnd in r['_rounds'] for s in rnd if s[0] == 'pad')
            if r['dist']['calls_exact_target_size'] != wanted:
                note_div(st, r, {'harness': 'only %d of %d padded calls hit the wanted command length'
                                            % (r['dist']['calls_exact_target_size'], wanted)})


def correspondence(ctx):
    t0 = time.time()
    if ctx.quick:
        jobs = grid_jobs(ctx, GRID_B, (2,), 70, full_cross=False)
        jobs += random_jobs(ctx, 300, ctx.seed * 1009 + 1)
        jobs += pure_jobs(ctx, GRID_B + [2, 100, 257, 30000], 24)
    else:
        jobs = grid_jobs(ctx, GRID_B, (2, 3), 70)
        jobs += grid_jobs(ctx, THOROUGH_B, (2,), 70)
        jobs += random_jobs(ctx, 3000, ctx.seed * 1009 + 1, (2, 2, 3))
        jobs += pure_jobs(ctx, GRID_B + THOROUGH_B + [5, 77, 513, 30000, 50000], 60)
    ctx.extra['rule'] = (
        'cases = model evaluations compared with the implementation: one per call of __sendAppendEntries and follower '
        '(messages, labels, piece lengths, nextIndex), one per reassembled transmission on a follower (outcome and buffer '
        'length per piece), one per pickled command (shape), one per direct __getEntries call. '
        'Calls: command lengths k*B+d for k=1..4, d=-64..64 (the pad is derived so that len(command) is exact), '
        'B in %r%s, memory and file journals, batched and unbatched (quick: every size under two of the four journal/mode '
        'combinations, alternating; thorough: all four, and 3-node clusters), plus random (size, B) pairs and random shapes of '
        'args/kwargs (empty, kwargs only, nested, several arguments, timeout=/sync=False). '
        'non-trivial = a send that carries entries or pieces, a reassembly, a pack case, a pure case' %
        (GRID_B, '' if ctx.quick else ' + %r' % THOROUGH_B))
    ctx.note('%d jobs' % len(jobs))
    results = run_impl(ctx, jobs)
    for j, r in zip(jobs, results):
        r['_rounds'] = j.get('rounds', [])
    ctx.note('implementation runs done (%.0fs); evaluating the model' % (time.time() - t0))
    run_model(ctx, results, 'c')
    check_exact_sizes(ctx, results)
    report_problems(ctx, jobs, results)
    ctx.monitor['traces'] = len(results)
    ctx.monitor['calls_monitored'] = sum(r.get('n_calls', 0) for r in results)
    ctx.monitor['impl_wall_s'] = round(sum(r.get('wall', 0) for r in results), 1)
    for r in results:
        if r.get('sample') and r['kind'] == 'grid' and r['cfg']['batch'] == 1000:
            ctx.samples.append({'job': r['id'], 'cfg': r['cfg'], 'last_sends': r['sample']['sends'],
                                'last_reassembly': r['sample']['groups']})
            break
    ctx.trusted += [
        'oracle: len(command) and len(pickle.dumps(entry)) are measured on the real bytes and handed to the model; '
        'pickle is a codec with loads(dumps(x)) = x (Section hypothesis of C11_reassembly / C11_transfer_intact / C11_pack_unpack)',
        'modelled, not verified here: the journal consecutive-index invariant (hypothesis log_wf; Raft core), the '
        'prevLogIdx/prevLogTerm test of the follower, the snapshot branch of __sendAppendEntries (marker BSnapshot), '
        'a clock that advances inside the send loop, a follower that disconnects mid-loop',
        'harness/sim.py + harness/chunking.py: fake transport (FIFO, lossless), virtual clock frozen during a tick',
    ]

    # cluster level: chunked entries under losses, reconnects, lagging followers, leader changes - the shared Raft run
    # (scripted scenarios + random schedules, correspondence with the L1 model, "no exception escapes" records)
    from props import raftcommon as R
    # in the scenarios built around big entries, a replica that executed something else is a C11 record as well
    R.account(ctx, R.raft_run(ctx), ('C11',), {'scenario:big_entry_index_reused': ('C01', 'C04'),
                                               'scenario:big_entry_lost_predecessor': ('C01', 'C04'),
                                               'scenario:chunk_keepalive_is_not_an_ack': ('C01', 'C04')})


# ---- known findings (both fixed): their witnesses must pass now ---------------------------------

def known(ctx):
    jobs = []
    # D4: B = 1000, one bytes argument of 1912..1944 bytes (and the whole band up to the command length 2000)
    specs = [['pad', 'bytes', n, None] for n in range(1880, 1950)]
    for use_batch in (True, False):
        jobs.append({'id': 'd4_%s' % ('b' if use_batch else 'u'), 'kind': 'known', 'cfg': base_cfg(1000, 2, None, use_batch),
                     'rounds': [[s] for s in specs]})
    # D5: a 3000-byte command into a fresh file journal (initial size 1024, one doubling was not enough)
    for nodes in (2, 3):
        jobs.append({'id': 'd5_%d' % nodes, 'kind': 'known', 'cfg': base_cfg(65536, nodes, 'file', True),
                     'rounds': [[spec_for_len(3000, 1)], [spec_for_len(100000, 2)], [['none']]]})
    results = run_impl(ctx, jobs)
    for j, r in zip(jobs, results):
        r['_rounds'] = j['rounds']
    run_model(ctx, results, 'k')
    ids = {'d4': 'FX-C11-1', 'd5': 'FX-C08-1'}
    for j, r in zip(jobs, results):
        fid = ids[j['id'][:2]]
        ok = not r.get('problems') and 'crash' not in r
        ctx.monitor['witness_' + j['id']] = 'pass' if ok else (r.get('problems') or r.get('crash'))
        if r.get('problems'):
            job = dict(j)
            job.pop('workdir', None)
            ctx.violation('fixed finding %s is back: %s' % (fid, r['problems'][0]),
                          {'kind': 'e2e_job', 'job': job, 'failing_round': r.get('failing_round'), 'problems': r['problems']},
                          found_input=True)


def search(ctx):
    """failing-input search after a broken obligation / divergence: more random jobs under the monitor"""
    n = 600 if ctx.quick else 6000
    jobs = random_jobs(ctx, n, ctx.seed * 7919 + 17, (2, 3))
    # sizes next to multiples of B are where the labelling / batching decisions change
    rng = random.Random(ctx.seed + 99)
    for i in range(40):
        B = rng.choice([1000, 4096, 100, 333, 65536, 7])
        specs = [s for s in (spec_for_len(k * B + d, d) for k in range(1, 5) for d in range(-64, 65, 1 if B <= 4096 else 8)) if s]
        rng.shuffle(specs)
        jobs.append({'id': 's%d' % i, 'kind': 'grid', 'cfg': base_cfg(B, 2, rng.choice([None, 'file']), rng.random() < 0.5),
                     'rounds': [[s] for s in specs[:60]]})
    results = run_impl(ctx, jobs)
    hits = report_problems(ctx, jobs, results)
    ctx.monitor['search_jobs'] = len(jobs)
    return hits > 0


def replay(ctx, data):
    job = data.get('job')
    if not job:
        print('nothing to replay')
        return 0
    job = dict(job)
    job['workdir'] = os.path.join(ctx.work, 'replay')
    res = _worker(job)
    print('problems:', res.get('problems'), 'crash:', res.get('crash'))
    if res.get('problems'):
        print('VIOLATION property=C11 replay=(replayed)')
        return 1
    return 0
