"""C14 - the transport keeps one live connection per peer and reports it truthfully (PARTIAL by design).

Model: coq/Transport/Model.v (registry of one TCPTransport over abstract connection events, virtual time);
theorems: coq/Props/C14.v.

Correspondence: the real pysyncobj.transport.TCPTransport with TcpConnection / TcpServer / monotonicTime / DNS
replaced by fakes (harness/transport.py), driven by random fault sequences (refused connects, resets, black
holes until the timeout, half-open connections replaced by a new incoming one, both sides dialling, add / drop
node, utility messages, malformed first messages) vs `check_case` evaluated with vm_compute: every callback,
dial, send, disconnect and the whole registry after every event.  Monitor (on the implementation only): every
delivered message is attributed to the node the connection's handshake named or that was dialled on it; nothing is
delivered from an address that never was / no longer is a member; a superseded connection is silent; send() agrees
with the connected / disconnected notifications.
"""
import json
import os
import sys

from vlib import coq
from harness import transport as H

COMPONENT = 'Transport/Model.v <-> pysyncobj/transport.py'
HEADER = ('From Coq Require Import ZArith NArith List.\nFrom PSO Require Import Transport.Model.\n'
          'Import ListNotations.\nOpen Scope Z_scope.\n')
PER_FILE = 60

PARTIAL = [
    'C14 is claimed PARTIAL: the registry logic of TCPTransport is modelled and proved; the kernel is not. '
    '"each pair of members re-establishes exactly one working connection within a bounded time once the network allows it" '
    'is proved only as: exactly one side dials (C14_one_dialer), the dialling side re-dials at the first tick at or after '
    'lastAttempt + connectionRetryTime and immediately on a noticed disconnect iff the throttle allows '
    '(C14_redial_bound, C14_redial_immediate), and at most one connection object can deliver as from a node '
    '(C14_registry_single).  That a dial succeeds, how long CONNECTING lasts, and that the peer registers the connection '
    'are outside the model (real sockets, the peer\'s process).',
    '"connect/disconnect notifications match the ability to exchange messages" is proved only at the level of the registry '
    '(C14_send_truthful: send() is True exactly when the registered object is CONNECTED and stays so).  A silent black-holed '
    'or half-open connection is noticed only when TcpConnection notices it (read timeout checked on poll events / sends; '
    'the disconnect is an *event* of the model), so the notification can lag reality without bound for a peer we never '
    'talk to.',
    'C14_unknown_rejected_partial: proved for first messages that are hashable non-list values (a str that is no member '
    'address, or any other hashable value).  The full statement is false of the code (C14_unknown_rejected_refuted): a dict / '
    'set / bytearray, a list whose head is not a registered utility command, or [] raises TypeError / IndexError out of '
    '_onIncomingMessageReceived instead of disconnecting; the connection stays in _unknownConnections and never delivers.',
    'C14_no_delivery_after_drop / C14_delivery_only_from_registered_member / C14_registry_single assume the application '
    'never calls addNode for a node it already has (SyncObj.__doChangeCluster guards this).  Without the guard the '
    'statement is false of the code (C14_no_delivery_after_drop_unguarded_refuted, C14_registry_single_unguarded_refuted): '
    'addNode overwrites the registered object without disconnecting it.',
]

TRUSTED = [
    'oracle: Python\'s total order on str (addresses are handed to the model as their rank in sorted(pool))',
    'modelled, not verified: TcpConnection and TcpServer are replaced by fakes (harness/transport.py) that implement the '
    'state discipline the transport relies on (constructor with/without socket, connect() result, disconnect() calling '
    'onDisconnected only when not already disconnected, onConnected then CONNECTED on the first poll event of a '
    'CONNECTING object); kernel sockets, real timeouts, half-open detection and bounded-time re-establishment over a real '
    'network cannot be exhibited by the model',
    'not modelled: encryption handshake, server bind/unbind and its retry, destroy(), DNS (a failed resolution is treated '
    'as a refused connect), faults inside the two handshake sends, user callbacks that re-enter the transport',
    'environment inputs of every model step, supplied by the harness from what the implementation saw: clock reading, '
    'set of addresses whose connect() fails, send fault, utility callback raising',
]


def _case_worker(seeds):
    TR, ND, CF = H.load_impl()
    out = []
    for s in seeds:
        try:
            if isinstance(s, str):
                c = H.run_named_script(s, TR, ND, CF)
            else:
                c = H.gen_and_run(s, TR, ND, CF)
        except Exception:
            import traceback
            out.append({'seed': s, 'crash': traceback.format_exc()})
            try:
                H.uninstall(TR, ND)
            except Exception:
                pass
            continue
        name = ('s%d' % s) if not isinstance(s, str) else ('k_' + s)
        defs, call = H.v_case(name, c)
        out.append({'seed': s, 'defs': defs, 'call': call, 'steps': len(c['events']),
                    'problems': c['problems'], 'known_quirk': c['known_quirk'], 'raised': c['raised'],
                    'stats': c['stats'], 'tags': c['tags'], 'n_deliv': c['n_deliv'], 'n_dials': c['n_dials'],
                    'n_notif': c['n_notif'], 'n_conns': c['n_conns'], 'unguarded': c['unguarded'],
                    'spoofing': c['spoofing'], 'self': c['self'], 'retry': c['retry'], 'pool': c['pool'],
                    'events_head': [list(map(_jsonable, e)) for e in c['events'][:60]]})
    return out


def _jsonable(x):
    if isinstance(x, tuple):
        return [_jsonable(y) for y in x]
    if isinstance(x, list):
        return [_jsonable(y) for y in x]
    return x


def run_cases(ctx, seeds, label):
    import multiprocessing as mp
    nproc = 16
    chunks = [seeds[i::nproc] for i in range(nproc) if seeds[i::nproc]]
    with mp.get_context('fork').Pool(len(chunks)) as pool:
        from vlib import cov
        results = [r for part in cov.pmap(ctx, pool, _case_worker, chunks) for r in part]
    order = {s: i for i, s in enumerate(seeds)}
    results.sort(key=lambda r: order[r['seed']])
    good = [r for r in results if 'crash' not in r]
    files, groups = [], []
    for i in range(0, len(good), PER_FILE):
        grp = good[i:i + PER_FILE]
        path = os.path.join(ctx.work, 'cases_%s_%d.v' % (label, i // PER_FILE))
        with open(path, 'w') as f:
            f.write(HEADER)
            for r in grp:
                f.write(r['defs'])
            f.write('Eval vm_compute in [%s].\n' % ';\n '.join(r['call'] for r in grp))
        files.append(path)
        groups.append(grp)
    res = coq.coqc_eval(files, ctx.work)
    st = ctx.corr(COMPONENT)
    for path, grp in zip(files, groups):
        rc, out, dt = res[path]
        if rc != 0:
            st['divergences'] += 1
            st.setdefault('first_divergences', []).append({'file': path, 'coqc_failed': out[-1500:]})
            continue
        vals = coq.parse_coq_value(out)
        for r, v in zip(grp, vals):
            st['cases'] += 1
            st['steps'] += r['steps']
            if v is not None:
                st['divergences'] += 1
                r['divergence'] = v
                if len(st.setdefault('first_divergences', [])) < 5:
                    st['first_divergences'].append({'seed': r['seed'], 'step': v,
                                                    'tag': r['tags'][v] if v < len(r['tags']) else None,
                                                    'event': r['events_head'][v] if v < len(r['events_head']) else None})
            if r['n_deliv'] > 0 and r['n_notif'] > 0 and r['n_dials'] + r['n_conns'] > 1:
                st['nontrivial'] += 1
    for r in results:
        if 'crash' in r:
            st['divergences'] += 1
            st.setdefault('first_divergences', []).append({'seed': r['seed'], 'harness_crash': r['crash'][-1500:]})
            continue
        for t in r['tags']:
            ctx.count(COMPONENT, 'event:' + t)
        ctx.count(COMPONENT, 'cases_readonly_self' if r['self'] is None else 'cases_voter_self')
        ctx.count(COMPONENT, 'cases_retry_%d_ticks' % r['retry'])
        if r['unguarded']:
            ctx.count(COMPONENT, 'cases_unguarded_application')
        if r['spoofing']:
            ctx.count(COMPONENT, 'cases_peer_dials_although_we_dial')
        ctx.count(COMPONENT, 'exceptions_escaping_handlers', len(r['raised']))
        ctx.count(COMPONENT, 'messages_delivered', r['n_deliv'])
        ctx.count(COMPONENT, 'dial_attempts', r['n_dials'])
        ctx.count(COMPONENT, 'notifications', r['n_notif'])
    return results


def report_problems(ctx, results):
    n = 0
    quirk = 0
    for r in results:
        if 'crash' in r:
            continue
        quirk += len(r['known_quirk'])
        if isinstance(r['seed'], str):
            continue            # scripted witnesses: judged in known()
        if r['problems']:
            n += 1
            if n <= 3:
                kind, text = r['problems'][0]
                ctx.violation('C14 monitor on the implementation (%s): %s' % (kind, text),
                              {'kind': 'case', 'case_seed': r['seed'], 'problems': r['problems'][:10],
                               'pool': r['pool'], 'self': r['self'], 'retry': r['retry'], 'events': r['events_head']},
                              found_input=True)
    ctx.monitor['monitor_records'] = ctx.monitor.get('monitor_records', 0) + n
    ctx.monitor['deliveries_after_drop_explained_by_double_addNode'] = \
        ctx.monitor.get('deliveries_after_drop_explained_by_double_addNode', 0) + quirk
    return n


def silent_peer_problems():
    """A dead connection must be noticed: an established connection whose peer has gone silent (socket open, no event
    from the poller, every write accepted) is reported as disconnected once a send happens after the read timeout -
    the send path is the only place where a connection without socket events can notice it.  Real TcpConnection on the
    fake socket layer of the C13 harness; this is the part of C14 ("a connection that stopped working is replaced") that
    lives below the transport."""
    import importlib
    import pysyncobj.tcp_connection as T
    from harness import framing as F
    problems = []
    cases = 0
    for tmo in (5, 10, 100):
        for quiet_polls in (0, 2):
            clock = F.Clock()
            oracle = F.install(T, clock)
            try:
                R = F.Conn(T, clock, oracle, 6, tmo)
                CS = T.CONNECTION_STATE
                for k in range(quiet_polls):          # write-ready polls while the buffer drains: no data arrives
                    clock.now += 1
                    R.poll(False, True, False, False, [('acc', 1000)], [])
                sent = 0
                t0 = clock.now
                while clock.now - t0 <= 3 * tmo + 3 and R.c.state == CS.CONNECTED:
                    clock.now += max(1, tmo // 3)
                    R.send({'type': 'append_entries', 'k': sent}, [('acc', 1000)] * 4)
                    sent += 1
                cases += 1
                if R.c.state == CS.CONNECTED:
                    problems.append('a connection whose peer is silent for %d time units (timeout %d) is still CONNECTED after %d '
                                    'accepted sends; no disconnect was reported' % (int(clock.now - t0), tmo, sent))
                elif not any(e[0] == 'disc' for e in R.log):
                    problems.append('silent connection (timeout %d) left the CONNECTED state without onDisconnected' % tmo)
                if R.raised:
                    problems.append('exception escaped the connection: %r' % (R.raised[:1],))
            finally:
                F.uninstall(T)
    return problems, cases


def refused_connect_problems():
    """A dial that fails must not be reported as a connection: a CONNECTING TcpConnection whose non-blocking connect was
    refused learns it either as an ERROR event (poll/epoll pollers) or only as readable/writable with a pending SO_ERROR
    (select poller).  In both cases onConnected must not fire, the object ends DISCONNECTED and onDisconnected fires
    once.  Real TcpConnection on the fake socket layer of the C13 harness ("connect/disconnect notifications match the
    ability to exchange messages", below the transport)."""
    import pysyncobj.tcp_connection as T
    from harness import framing as F
    problems = []
    cases = 0
    CS = T.CONNECTION_STATE
    for how in ('error_event', 'soerr_write', 'soerr_read', 'soerr_read_write'):
        for redial in (False, True):
            clock = F.Clock()
            oracle = F.install(T, clock)
            try:
                R = F.Conn(T, clock, oracle, 6, 10 ** 6, reconnect=False)
                R.disconnect()
                R.connect()                           # a fresh dial: CONNECTING
                if redial:
                    R.disconnect()
                    R.connect()
                if R.c.state != CS.CONNECTING:
                    problems.append('harness: connect() did not leave the object CONNECTING')
                    continue
                n_conn = len([e for e in R.log if e[0] == 'connected'])
                n_disc = len([e for e in R.log if e[0] == 'disc'])
                clock.now += 1
                if how == 'error_event':
                    R.poll(False, False, True, True, [], [])
                else:
                    R.poll('read' in how, 'write' in how, False, True, [], [])
                cases += 1
                conn2 = len([e for e in R.log if e[0] == 'connected'])
                disc2 = len([e for e in R.log if e[0] == 'disc'])
                if conn2 != n_conn:
                    problems.append('refused connect (%s): onConnected was called for a connection that never existed' % how)
                if R.c.state != CS.DISCONNECTED:
                    problems.append('refused connect (%s): the object is %r, not DISCONNECTED' % (how, R.c.state))
                elif disc2 != n_disc + 1:
                    problems.append('refused connect (%s): onDisconnected fired %d times' % (how, disc2 - n_disc))
                if R.raised:
                    problems.append('exception escaped the connection: %r' % (R.raised[:1],))
            finally:
                F.uninstall(T)
    return problems, cases


def _lifecycle_worker(seeds):
    from props import c13
    from harness import framing as F
    T = F.load_impl()
    out = []
    for sd in seeds:
        try:
            c = c13.run_reconnect_case(sd, T)
            out.append((sd, c['problems'][:2]))
        except Exception:
            import traceback
            out.append((sd, ['harness crash: ' + traceback.format_exc()[-300:]]))
            try:
                F.uninstall(T)
            except Exception:
                pass
    return out


def connection_lifecycle_problems(ctx):
    """What the transport is told about a connection must be true of the connection object it drives: on the REAL
    TcpConnection, re-used across reconnects the way TCPTransport re-uses it (an onDisconnected callback that dials
    again at once), nothing is delivered after the disconnect notification of a connection, nothing received on one
    connection is delivered on the next, a new connection starts with an empty stream.  These are the reconnect cases of
    the C13 harness under its monitor (implementation only here; C13 also compares them with its model)."""
    import multiprocessing as mp
    from props import c13
    n = 600 if ctx.quick else 6000
    base = (ctx.seed * 7919 + 5) % (2 ** 31)
    seeds = [s for s in range(base, base + 6 * n) if c13.is_reconnect_seed(s)][:n]
    nproc = 12
    chunks = [seeds[i::nproc] for i in range(nproc) if seeds[i::nproc]]
    with mp.get_context('fork').Pool(len(chunks)) as pool:
        res = [r for part in pool.map(_lifecycle_worker, chunks) for r in part]
    bad = [(sd, p) for sd, p in res if p]
    ctx.monitor['connection_lifecycle_cases'] = {'cases': len(res), 'with_problems': len(bad)}
    for sd, p in bad[:2]:
        ctx.violation('C14 monitor on the implementation (connection re-used across reconnects): ' + p[0],
                      {'kind': 'lifecycle', 'case_seed': sd, 'problems': p}, found_input=True)


def callback_disconnect_problems():
    """A message handler may lose the connection it was called for (its reply hits a reset): on a dialling connection
    the transport redials at once from the onDisconnected callback, on the SAME TcpConnection object.  What is left of
    the read burst of the dead connection must not be delivered as coming from the peer after the disconnect
    notification, and must not leak into the stream of the new connection.  Real TcpConnection on the fake socket layer."""
    import struct
    import zlib
    import pickle
    import pysyncobj.tcp_connection as T
    from harness import framing as F
    problems, cases = [], 0
    CS = T.CONNECTION_STATE

    def frame(m):
        z = zlib.compress(pickle.dumps(m, 2), 3)
        return struct.pack('i', len(z)) + z
    for n_before in (0, 1):
        for tail in (0, 1, 3, 9):
            clock = F.Clock()
            oracle = F.install(T, clock)
            try:
                R = F.Conn(T, clock, oracle, 6, 10 ** 6, reconnect=True)
                seen = []
                orig = R._on_msg

                def on_msg(m, R=R, seen=seen, orig=orig):
                    orig(m)
                    seen.append(m)
                    if len(seen) == n_before + 1:
                        R.c.disconnect()          # the handler's own reply failed: connection lost inside the callback
                R.c.setOnMessageReceivedCallback(on_msg)
                burst = b''.join(frame(['burst', i]) for i in range(n_before + 3))
                part = frame(['burst', 'partial'])[:tail]
                clock.now += 1
                R.poll(True, False, False, False, [], [('chunk', burst + part, False)])
                cases += 1
                after_disc = False
                late = []
                for e in R.log:
                    if e[0] == 'disc':
                        after_disc = True
                    elif e[0] == 'connected':
                        after_disc = False
                    elif e[0] == 'msg' and after_disc:
                        late.append(e)
                if late:
                    problems.append('%d message(s) of the dead connection were delivered after its onDisconnected (connection lost '
                                    'inside a message handler, %d frames in one read)' % (len(late), n_before + 3))
                if len(R.c._TcpConnection__readBuffer) != 0:
                    problems.append('the re-dialled connection starts with %d stale bytes of the dead connection in its read buffer'
                                    % len(R.c._TcpConnection__readBuffer))
                # the new connection: established, two fresh messages
                clock.now += 1
                R.poll(False, True, False, False, [], [])
                n0 = len(seen)
                R.poll(True, False, False, False, [], [('chunk', frame(['after', 1]) + frame(['after', 2]), False)])
                fresh = seen[n0:]
                if R.c.state == CS.CONNECTED and fresh != [['after', 1], ['after', 2]]:
                    problems.append('after the reconnect the messages %r were sent, %r were delivered' % ([['after', 1], ['after', 2]], fresh))
                if R.raised:
                    problems.append('exception escaped the connection: %r' % (R.raised[:1],))
            finally:
                F.uninstall(T)
    return problems, cases


def correspondence(ctx):
    cp, n_cp = callback_disconnect_problems()
    ctx.monitor['callback_disconnect_cases'] = n_cp
    for p_ in cp[:2]:
        ctx.violation('C14 monitor on the implementation: ' + p_, {'kind': 'callback_disconnect', 'problem': p_}, found_input=True)
    connection_lifecycle_problems(ctx)
    rp, n_rp = refused_connect_problems()
    ctx.monitor['refused_connect_cases'] = n_rp
    for p_ in rp[:2]:
        ctx.violation('C14 monitor on the implementation: ' + p_, {'kind': 'refused_connect', 'problem': p_}, found_input=True)
    sp, n_sp = silent_peer_problems()
    ctx.monitor['silent_peer_cases'] = n_sp
    for p_ in sp[:2]:
        ctx.violation('C14 monitor on the implementation: ' + p_, {'kind': 'silent_peer', 'problem': p_}, found_input=True)
    n = 1000 if ctx.quick else 8000
    base = ctx.seed * 1000003 % (2 ** 31)
    seeds = sorted(H.SCRIPTS) + corpus_seeds() + [base + i for i in range(n)]
    ctx.extra['rule'] = ('cases = random event sequences (5-60 events after the initial addNodes) over one real TCPTransport: ticks '
                         'with refused connects, outgoing connects, async refusals, black holes ended by the timeout event, resets, '
                         'incoming connections with every kind of first message, half-open connections replaced by a new incoming '
                         'one, peers dialling although we dial them, add/drop node, sends with and without a fault, utility messages '
                         'and replies; scripted fault scenarios are mixed in; addresses from 4 pools chosen to separate string order '
                         'from numeric order; non-trivial = at least one message delivered, one notification and two connection '
                         'objects/dials; distinct by seed; plus %d scripted witnesses' % len(H.SCRIPTS))
    all_results = []
    step = 4000
    for i in range(0, len(seeds), step):
        all_results += run_cases(ctx, seeds[i:i + step], 'b%d' % (i // step))
    report_problems(ctx, all_results)
    ctx.monitor['traces'] = len(all_results)
    for r in all_results:
        if 'crash' not in r and not isinstance(r['seed'], str) and r['n_deliv'] > 1:
            ctx.samples.append({'case_seed': r['seed'], 'self': r['self'], 'pool': r['pool'], 'retry_ticks': r['retry'],
                                'tags': r['tags'][:40]})
            break
    ctx.trusted += TRUSTED
    ctx.partial += PARTIAL
    ctx._c14_results = all_results


def corpus_seeds():
    p = os.path.join(coq.VERIF, 'corpus', 'c14_seeds.json')
    if os.path.exists(p):
        return list(json.load(open(p)))
    return []


def _outs(outs):
    return list(outs)


def known(ctx):
    """FX-C14-1 (fixed): a connection superseded by a newer incoming connection of the same node must be closed and
    silent, also after dropNode.  Plus the witnesses of the two *_refuted theorems, replayed on the implementation
    (observations about the code, not violations of the property text)."""
    TR, ND, CF = H.load_impl()
    c = H.run_named_script('superseded_then_drop', TR, ND, CF)
    obs = c['outs']
    # events: add b | incoming, hs(b) on c0 | incoming, hs(b) on c1 | msg c0 | drop b | msg c0 | msg c1
    deliveries = [(i, x) for i, o in enumerate(obs) for x in _outs(o) if x[0] == 5]
    closed_old = any(x[0] == 8 and x[1] == 0 for x in _outs(obs[4]))
    ok = (not deliveries) and closed_old and not c['problems']
    ctx.monitor['fx_c14_1_witness'] = {'deliveries': deliveries, 'old_connection_closed_when_superseded': closed_old,
                                       'monitor': c['problems']}
    if not ok:
        ctx.violation('a connection superseded by a new incoming connection of the same node still delivers messages as from '
                      'that node (fixed finding FX-C14-1 is back): deliveries %r, old connection closed: %r'
                      % (deliveries, closed_old),
                      {'kind': 'script', 'name': 'superseded_then_drop'}, found_input=True)
    # observations
    c2 = H.run_named_script('malformed_first_message', TR, ND, CF)
    ctx.monitor['observation_malformed_first_message'] = {
        'what': 'first message ["zzz"] / {...} / [] on an incoming connection raises out of _onIncomingMessageReceived; the '
                'connection is not disconnected, stays unknown and delivers nothing (C14_unknown_rejected_refuted)',
        'raised': c2['raised'], 'delivered_before_valid_handshake': [x for o in c2['outs'][:4] for x in _outs(o) if x[0] == 5]}
    c3 = H.run_named_script('double_add_then_drop', TR, ND, CF)
    ctx.monitor['observation_double_add'] = {
        'what': 'addNode of a node that is already present overwrites the registered object without disconnecting it; after '
                'dropNode the orphan still delivers as from the node (C14_no_delivery_after_drop_unguarded_refuted); SyncObj '
                'never adds a node it already has',
        'delivered_after_drop': [x for x in _outs(c3['outs'][-1]) if x[0] == 5]}
    c4 = H.run_named_script('both_sides_dial', TR, ND, CF)
    ctx.monitor['observation_both_sides_dial'] = {
        'what': 'a peer we dial also dials us (impossible for a correct peer, C14_one_dialer): our outgoing object is '
                'superseded and closed; the later re-dial runs on the *incoming* object, which has no onConnected callback, so '
                'it connects without sending our address and without onNodeConnected, yet send() returns True',
        'last_events': [_outs(o) for o in c4['outs'][-3:]]}


def search(ctx):
    """Failing-input search after a broken obligation / divergence: more random cases under the monitor only."""
    TR, ND, CF = H.load_impl()
    base = (ctx.seed * 7919 + 17) % (2 ** 31)
    n = 4000 if ctx.quick else 40000
    hits = 0
    for i in range(n):
        try:
            c = H.gen_and_run(base + i, TR, ND, CF)
        except Exception:
            continue
        if c['problems']:
            kind, text = c['problems'][0]
            ctx.violation('C14 monitor on the implementation (%s): %s' % (kind, text),
                          {'kind': 'case', 'case_seed': base + i, 'problems': c['problems'][:10]}, found_input=True)
            hits += 1
            if hits >= 2:
                break
    ctx.monitor['search_cases'] = n
    return hits > 0


def replay(ctx, data):
    TR, ND, CF = H.load_impl()
    kind = data.get('kind')
    if kind == 'case':
        c = H.gen_and_run(data['case_seed'], TR, ND, CF)
        for t, e in zip(c['tags'], c['events']):
            print(t, e)
        print('problems:', c['problems'])
        if c['problems']:
            print('VIOLATION property=C14 replay=(replayed)')
            return 1
        return 0
    if kind == 'script':
        known(ctx)
        return 1 if ctx.violations else 0
    print('nothing to replay for', kind)
    return 0
