"""C13 - TCP framing.  Model: coq/Framing/Model.v; theorems: coq/Props/C13.v.

Correspondence: real TcpConnection (fake socket/poller/clock) vs `check_case` evaluated with
vm_compute; monitors: prefix/once/in-order delivery, disconnect on bad frame, no escaping exception,
and per connection lifetime: nothing received before a disconnect is delivered after onDisconnected
(in particular not on the connection a reconnecting callback opened), a new connection delivers
exactly what is sent on it.
"""
import json
import os
import random
import sys
import zlib

from vlib import coq
from harness import framing as F

COMPONENT = 'Framing/Model.v <-> pysyncobj/tcp_connection.py'
HEADER = 'From Coq Require Import ZArith NArith List.\nFrom PSO Require Import Base.PyBytes Framing.Model.\nImport ListNotations.\n'


def gen_msg(rng):
    k = rng.random()
    if k < 0.1:
        return rng.choice([None, 0, '', b'', [], {}])
    if k < 0.4:
        return {'type': 'append_entries', 'term': rng.randrange(5), 'commit_index': rng.randrange(50),
                'entries': [(bytes([rng.randrange(256) for _ in range(rng.randrange(8))]), rng.randrange(50), rng.randrange(5))
                            for _ in range(rng.randrange(3))]}
    if k < 0.8:
        n = rng.choice([0, 1, 3, 10, 50, 59, 60, 61, 64, 100, 128, 200])
        return bytes(rng.randrange(256) for _ in range(n))
    return 'x' * rng.randrange(300)


def gen_sscript(rng, faulty):
    s = []
    for _ in range(rng.randrange(5)):
        r = rng.random()
        if r < 0.7:
            s.append(('acc', rng.choice([1, 2, 3, 5, 8, 13, 64, 1000])))
        elif r < 0.8:
            s.append(('zero',))
        elif r < 0.95 or not faulty:
            s.append(('eagain',))
        elif r < 0.98:
            s.append(('err',))
        else:
            s.append(('neg',))
    return s


def bad_frame(rng):
    import struct
    kind = rng.choice(['neg', 'neg_small', 'garbage', 'flip_len', 'badpickle', 'badpickle'])
    if kind == 'badpickle':
        # a well-formed zlib stream whose content is not a well-formed pickle: the pure-Python unpickler reports these
        # as EOFError, KeyError, IndexError, struct.error, AttributeError, ModuleNotFoundError, UnpicklingError, ValueError...
        import struct
        good = F._pickle.dumps({'k': [1, 2, 3], 's': 'x' * rng.randrange(0, 20), 't': (1.5, None)}, 2)
        while True:
            data = rng.choice([
                b'', good[:rng.randrange(1, len(good))], good[:-1], good[1:],
                bytes(rng.choice(b'0123456789.()]}IKMNQRSTUVXabdehijlopqrstu\x80\x02') for _ in range(rng.randrange(1, 12))),
                b'cno_such_module_xyz\nFoo\n.', b'cos\nno_such_attr_xyz\n.', b'(.', b'0.', b'\x80\x02]q\x00h\x05.', b'I1\n',
                b'\x80\x02K\x01K\x02\x86', b'\x80\x05\x95\xff\xff\xff\xff\xff\xff\xff\x7f.', b'h\x00.', b'j\xff\xff\xff\x7f.',
                b'\x80\x02}q\x00(K\x01', b'R.', b'\x81.', b't.', b'e.', b'u.', b's.',
            ])
            try:
                F._pickle.loads(data)
            except Exception:
                z = zlib.compress(data, 3)
                return kind, struct.pack('i', len(z)) + z
    if kind == 'neg':
        k = rng.randrange(0, 40)
        return kind, struct.pack('i', -(4 + k)) + bytes(rng.randrange(256) for _ in range(rng.randrange(0, 60)))
    if kind == 'neg_small':
        return kind, struct.pack('i', -rng.randrange(1, 5)) + bytes(rng.randrange(256) for _ in range(rng.randrange(0, 10)))
    if kind == 'flip_len':
        # the hand-made attack of DESIGN Appendix A (D12): negative length whose slice is a valid payload
        payload = zlib.compress(F._pickle.dumps('hello', 2), 3)
        g = struct.pack('i', len(payload)) + payload
        return kind, struct.pack('i', -(4 + len(g))) + payload + g
    while True:
        n = rng.randrange(0, 40)
        data = bytes(rng.randrange(256) for _ in range(n))
        try:
            F._pickle.loads(zlib.decompress(data))
        except Exception:
            import struct as st
            return kind, st.pack('i', n) + data


def run_case(seed, T):
    """Runs one S->R pipe scenario on the implementation.  Returns dict with S, R (Conn),
    oracle, meta and monitor verdicts."""
    rng = random.Random(seed)
    clock = F.Clock()
    oracle = F.install(T, clock)
    faulty = rng.random() < 0.25
    tmo = rng.choice([5, 10, 100]) if faulty else 10 ** 6
    S = F.Conn(T, clock, oracle, 5, tmo)
    R = F.Conn(T, clock, oracle, 6, tmo)
    pipe = bytearray()
    frames = []          # ('msg', id) | ('bad', kind)
    corrupt = rng.random() < 0.3
    n_ops = rng.randrange(1, 30)
    fed = 0              # bytes of the pipe already handed to R
    ops = []
    total_in = 0
    for i in range(n_ops):
        clock.now += rng.choice([0, 0, 0, 1, 2]) if not (faulty and rng.random() < 0.05) else tmo + 1
        r = rng.random()
        if r < 0.35:
            msg = gen_msg(rng)
            before = len(S.accepted)
            was_conn = S.c.state == T.CONNECTION_STATE.CONNECTED
            S.send(msg, gen_sscript(rng, faulty))
            if was_conn:
                frames.append(('msg', oracle.id_of(msg)))
            pipe += S.accepted[before:]
            ops.append('send')
        elif r < 0.55:
            before = len(S.accepted)
            S.poll(rng.random() < 0.2, True, faulty and rng.random() < 0.03, faulty and rng.random() < 0.03,
                   gen_sscript(rng, faulty), [])
            pipe += S.accepted[before:]
            ops.append('swrite')
        elif r < 0.9:
            avail = len(pipe) - fed
            k = rng.choice([avail, avail, rng.randint(0, avail), min(avail, rng.randrange(1, 9))])
            rs = []
            pos = fed
            while pos < fed + k:
                n = min(fed + k - pos, rng.choice([1, 2, 3, 4, 5, 7, 16, 64]))
                rs.append(('chunk', bytes(pipe[pos:pos + n]), faulty and rng.random() < 0.01))
                pos += n
            if faulty and rng.random() < 0.05:
                rs.append(rng.choice([('chunk', b'', False), ('err',)]))
            elif rng.random() < 0.5:
                rs.append(('eagain',))
            # bytes really consumed by the impl = chunks recv() returned before it stopped
            R.poll(True, rng.random() < 0.2, faulty and rng.random() < 0.03, faulty and rng.random() < 0.03,
                   gen_sscript(rng, faulty), rs)
            fed += k
            ops.append('rread')
        elif corrupt and len(S.c._TcpConnection__writeBuffer) == 0 and S.c.state == T.CONNECTION_STATE.CONNECTED:
            kind, b = bad_frame(rng)
            frames.append(('bad', kind))
            pipe += b
            corrupt = False
            ops.append('corrupt:' + kind)
        else:
            if faulty and rng.random() < 0.2:
                (S if rng.random() < 0.5 else R).disconnect()
                ops.append('disconnect')
    # drain
    for _ in range(3):
        before = len(S.accepted)
        S.poll(False, True, False, False, [('acc', 100000)] * 3, [])
        pipe += S.accepted[before:]
    rest = bytes(pipe[fed:])
    rs = [('chunk', rest[i:i + 64], False) for i in range(0, len(rest), 64)]
    R.poll(True, False, False, False, [], rs)
    R.poll(True, False, False, False, [], [])
    # ---- monitors (the property itself, on the implementation) ----
    problems = []
    if S.raised or R.raised:
        problems.append('exception escaped the connection handler: %r' % (S.raised + R.raised))
    if S.no_write_interest or R.no_write_interest:
        problems.append('unsent bytes wait in the write buffer of a CONNECTED connection while the poller is not asked for '
                        'writability (first at event #%d): they go out only if the application happens to send again'
                        % ((S.no_write_interest or R.no_write_interest)[0],))
    good_ids = []
    for f in frames:
        if f[0] != 'msg':
            break
        good_ids.append(f[1])
    d = R.all_delivered
    if d != good_ids[:len(d)]:
        problems.append('delivered %r is not a prefix of sent %r (duplicate, reorder or corruption)' % (d, good_ids))
    has_bad = any(f[0] == 'bad' for f in frames)
    clean = not faulty and S.c.state == T.CONNECTION_STATE.CONNECTED and not S.raised
    if clean and not has_bad and R.c.state == T.CONNECTION_STATE.CONNECTED:
        if d != good_ids:
            problems.append('after draining delivered %r != sent %r' % (d, good_ids))
    if clean and has_bad:
        if R.c.state != T.CONNECTION_STATE.DISCONNECTED:
            problems.append('bad frame %r did not lead to a disconnect' % ([f for f in frames if f[0] == 'bad'],))
        elif d != good_ids:
            problems.append('bad frame: delivered %r != frames before it %r' % (d, good_ids))
    meta = {'seed': seed, 'ops': ops, 'faulty': faulty, 'frames': [list(f) for f in frames],
            'n_frames': len(frames), 'pipe_len': len(pipe)}
    table = dict(oracle.table)
    F.uninstall(T)
    return {'S': S, 'R': R, 'table': table, 'meta': meta, 'problems': problems}


def is_reconnect_seed(seed):
    """Which scenario a seed runs (kept a pure function of the seed so that corpus seeds stay what they were)."""
    return seed % 5 in (0, 1)


def _frame_of(msg):
    import struct
    payload = zlib.compress(F._pickle.dumps(msg, 2), 3)
    return struct.pack('i', len(payload)) + payload


def run_reconnect_case(seed, T):
    """One connection R through several connection lifetimes ("generations").

    Every generation has its own byte stream (a new pipe) of valid frames.  A lifetime ends with a read
    burst that carries complete frames and/or a partial frame (often just 1-3 bytes of the next header)
    and then EOF / ECONNRESET / SO_ERROR, or with a timeout, an ERROR event, a failing send or an explicit
    disconnect().  With reconnect=True the onDisconnected callback calls connect() at once (TCPTransport's
    behaviour); otherwise the harness calls connect() later.  Also exercised: send() and polls while
    CONNECTING, SO_ERROR / ERROR while CONNECTING.
    """
    rng = random.Random(seed ^ 0x5bd1e995)
    clock = F.Clock()
    oracle = F.install(T, clock)
    tmo = rng.choice([5, 10, 100, 10 ** 6, 10 ** 6])
    flag = rng.random() < 0.8
    # every connect() gets the descriptor number disconnect() has just closed (what an OS does) or a fresh one; a pure
    # function of the seed that draws nothing from rng, so the events of a seed are what they were
    reuse_fd = bool((seed >> 2) & 1)
    R = F.Conn(T, clock, oracle, 6, tmo, reconnect=flag, reuse_fd=reuse_fd)
    CS = T.CONNECTION_STATE
    streams = {}         # generation -> {'ids', 'data', 'fed', 'bounds'}
    ops = []

    def stream():
        g = R.gen
        if g not in streams:
            k = rng.choice([1, 2, 3, 3, 4, 6])
            ids, data, bounds = [], bytearray(), []
            for i in range(k):
                n = rng.choice([0, 1, 5, 20, 60, 61, 130])
                msg = {'g': g, 'i': i, 'pad': bytes(rng.randrange(256) for _ in range(n))}
                ids.append(oracle.id_of(msg))
                data += _frame_of(msg)
                bounds.append(len(data))
            streams[g] = {'ids': ids, 'data': bytes(data), 'fed': 0, 'bounds': bounds}
        return streams[g]

    def take(st_, how):
        """how many bytes of the stream to hand over now"""
        avail = len(st_['data']) - st_['fed']
        if avail == 0:
            return 0
        nxt = [b for b in st_['bounds'] if b > st_['fed']]
        if how == 'all':
            return avail
        if how == 'hdr' and nxt:
            # up to a frame boundary plus 1..3 bytes of the next length field
            b = rng.choice(nxt)
            return min(avail, b - st_['fed'] + rng.choice([0, 1, 2, 3]))
        if how == 'mid' and nxt:
            # into the body of a frame
            b = rng.choice(nxt)
            prev = max([0] + [x for x in st_['bounds'] if x < b])
            lo = max(prev + 4, st_['fed'] + 1)
            if lo <= b:
                return min(avail, rng.randint(lo, b) - st_['fed'])
            return rng.randint(1, avail)
        return rng.randint(0, avail)

    def chunks_of(st_, k):
        rs, pos = [], st_['fed']
        end = pos + k
        while pos < end:
            n = min(end - pos, rng.choice([1, 2, 3, 4, 5, 7, 16, 64, 64]))
            rs.append(('chunk', st_['data'][pos:pos + n], False))
            pos += n
        st_['fed'] = end
        return rs

    n_ops = rng.randrange(6, 28)
    for _ in range(n_ops):
        if tmo < 10 ** 6 and rng.random() < 0.04:
            clock.now += tmo + 1
        else:
            clock.now += rng.choice([0, 0, 0, 1, 2])
        state = R.c.state
        r = rng.random()
        if state == CS.DISCONNECTED:
            if r < 0.6:
                R.connect()
                ops.append('connect')
            elif r < 0.8:
                R.poll(True, True, False, False, gen_sscript(rng, True), [('chunk', b'\x01\x02', False)])
                ops.append('poll_disconnected')
            else:
                R.send(gen_msg(rng), gen_sscript(rng, True))
                ops.append('send_disconnected')
        elif state == CS.CONNECTING:
            if r < 0.55:
                R.poll(rng.random() < 0.6, rng.random() < 0.7, False, False, gen_sscript(rng, False), [])
                ops.append('establish')
            elif r < 0.75:
                R.send(gen_msg(rng), gen_sscript(rng, rng.random() < 0.3))
                ops.append('send_connecting')
            elif r < 0.85:
                R.poll(False, False, False, False, [], [])
                ops.append('idle_connecting')
            elif r < 0.95:
                R.poll(rng.random() < 0.7, rng.random() < 0.7, rng.random() < 0.5, rng.random() < 0.7, [], [])
                ops.append('error_connecting')
            else:
                R.disconnect()
                ops.append('disconnect')
        else:
            st_ = stream()
            if r < 0.42:
                k = take(st_, rng.choice(['any', 'hdr', 'mid', 'all']))
                rs = chunks_of(st_, k)
                if rng.random() < 0.5:
                    rs.append(('eagain',))
                R.poll(True, rng.random() < 0.3, False, False, gen_sscript(rng, False), rs)
                ops.append('feed')
            elif r < 0.72:
                # the burst that ends the lifetime: data, then EOF / error / SO_ERROR, in ONE read burst
                k = take(st_, rng.choice(['hdr', 'hdr', 'mid', 'any', 'all']))
                rs = chunks_of(st_, k)
                end = rng.choice(['eof', 'eof', 'err', 'soerr', 'bad', 'bad'])
                if end == 'bad':
                    # whole frames and then a malformed one in the SAME read burst: the connection is dropped from
                    # inside the parse loop, with frames of this burst already consumed
                    nxt = [b for b in st_['bounds'] if b >= st_['fed']]
                    if nxt:
                        b = rng.choice(nxt)
                        rs = [('chunk', st_['data'][st_['fed'] - k:b] + bad_frame(rng)[1], False)] if rng.random() < 0.7 else \
                            rs + chunks_of(st_, b - st_['fed']) + [('chunk', bad_frame(rng)[1], False)]
                        st_['fed'] = max(st_['fed'], b)
                    else:
                        rs.append(('chunk', bad_frame(rng)[1], False))
                elif end == 'eof':
                    rs.append(('chunk', b'', False))
                elif end == 'err':
                    rs.append(('err',))
                else:
                    rs.append(('chunk', b'\x07', True))
                R.poll(True, rng.random() < 0.3, False, False, gen_sscript(rng, False), rs)
                ops.append('burst_' + end)
            elif r < 0.84:
                R.send(gen_msg(rng), gen_sscript(rng, rng.random() < 0.4))
                ops.append('send')
            elif r < 0.92:
                R.poll(rng.random() < 0.3, True, False, False, gen_sscript(rng, rng.random() < 0.4), [])
                ops.append('wpoll')
            elif r < 0.96:
                R.poll(rng.random() < 0.7, rng.random() < 0.7, rng.random() < 0.5, rng.random() < 0.7, [], [])
                ops.append('error_poll')
            else:
                R.disconnect()
                ops.append('disconnect')
    # ---- settle: establish the current / a new connection and hand over its whole stream, no faults ----
    settled = False
    settle_gen = None
    for _ in range(4):
        if R.c.state == CS.DISCONNECTED:
            R.connect()
        if R.c.state == CS.CONNECTING:
            R.poll(True, True, False, False, [], [])
        if R.c.state == CS.CONNECTED:
            st_ = stream()
            settle_gen = R.gen
            rs = chunks_of(st_, len(st_['data']) - st_['fed'])
            R.poll(True, False, False, False, [], rs)
            R.poll(True, False, False, False, [], [])
            settled = True
            break
    ops.append('settle')
    # ---- monitors (the property itself, on the implementation) ----
    problems = []
    if R.raised:
        problems.append('exception escaped the connection handler: %r' % (R.raised,))
    problems += R.writer_problems()
    if R.no_write_interest:
        problems.append('unsent bytes wait in the write buffer of a CONNECTED connection while the poller is not asked for '
                        'writability (first at event #%d): they go out only if the application happens to send again'
                        % (R.no_write_interest[0],))
    by_gen = {}
    closed = set()
    for e in R.log:
        if e[0] == 'disc':
            closed.add(e[1])
        elif e[0] == 'msg':
            g, mid = e[1], e[2]
            by_gen.setdefault(g, []).append(mid)
            owner = [h for h in streams if mid in streams[h]['ids']]
            if owner and owner[0] != g:
                problems.append('message %d received on connection #%d was delivered on connection #%d, after '
                                'onDisconnected of #%d' % (mid, owner[0], g, owner[0]))
            if g in closed:
                problems.append('message %d delivered on connection #%d after its onDisconnected' % (mid, g))
    for g, d in sorted(by_gen.items()):
        ids = streams[g]['ids'] if g in streams else []
        if d != ids[:len(d)]:
            problems.append('connection #%d delivered %r, not a prefix of what was sent on it %r' % (g, d, ids))
    if settled:
        last = settle_gen
        ids = streams[last]['ids']
        if R.gen != last:
            problems.append('connection #%d carried only valid frames but was disconnected (now at #%d, state %r)'
                            % (last, R.gen, R.c.state))
        elif R.c.state != CS.CONNECTED:
            problems.append('connection #%d carried only valid frames but ended in state %r' % (last, R.c.state))
        elif by_gen.get(last, []) != ids:
            problems.append('connection #%d: sent %r, delivered %r' % (last, ids, by_gen.get(last, [])))
        elif len(R.c._TcpConnection__readBuffer) != 0:
            problems.append('connection #%d: %d stray bytes left in the read buffer'
                            % (last, len(R.c._TcpConnection__readBuffer)))
    else:
        problems.append('harness: could not settle the connection (state %r)' % (R.c.state,))
    meta = {'seed': seed, 'kind': 'reconnect', 'ops': ops, 'faulty': True, 'reconnect_flag': flag, 'reuse_fd': reuse_fd,
            'generations': R.gen, 'timeout': tmo,
            'frames': [[g, len(streams[g]['ids']), streams[g]['fed']] for g in sorted(streams)],
            'n_frames': sum(len(x['ids']) for x in streams.values()), 'log': [list(e) for e in R.log][:80]}
    table = dict(oracle.table)
    F.uninstall(T)
    return {'R': R, 'table': table, 'meta': meta, 'problems': problems}


WF_BASE = 2 ** 40      # seeds from here on run the write-failure / subscription scenario (never a corpus or random seed)


def run_wfail_case(seed, T):
    """The poller subscription under failing writes: one connection, reconnecting callback (mostly), the new socket of
    every connect() gets the descriptor number just closed (half of the cases) or a fresh one.  Sends that leave bytes
    buffered, WRITE events whose socket.send fails (-> disconnect -> re-entrant connect) with or without READ, send()
    while CONNECTING, establishment by a READ or a WRITE event, WRITE events with nothing to write.  At the end the *fair
    environment* of C13_writer_progress: WRITE events are delivered only while the poller has WRITE for the descriptor,
    each takes >= 1 byte; the buffer must drain."""
    rng = random.Random(seed ^ 0x2545f491)
    clock = F.Clock()
    oracle = F.install(T, clock)
    from pysyncobj.poller import POLL_EVENT_TYPE as P
    flag = rng.random() < 0.85
    reuse_fd = rng.random() < 0.5
    R = F.Conn(T, clock, oracle, 6, 10 ** 6, reconnect=flag, reuse_fd=reuse_fd)
    CS = T.CONNECTION_STATE
    ops = []
    sends = 0

    def wants_write():
        fd = R.c.fileno()
        sub = R.poller.subs.get(fd) if fd is not None else None
        return sub is not None and bool(sub[1] & P.WRITE)

    for _ in range(rng.randrange(4, 16)):
        clock.now += rng.choice([0, 0, 1])
        state, r = R.c.state, rng.random()
        if state == CS.DISCONNECTED:
            R.connect()
            ops.append('connect')
        elif state == CS.CONNECTING:
            if r < 0.4:
                R.send(gen_msg(rng), rng.choice([[], [('eagain',)], [('acc', 3)], [('acc', 2), ('err',)]]))
                sends += 1
                ops.append('send_connecting')
            else:
                rd = rng.random() < 0.5
                R.poll(rd, not rd or rng.random() < 0.5, False, False, gen_sscript(rng, False), [])
                ops.append('establish')
        elif r < 0.4:
            R.send(gen_msg(rng), rng.choice([[('acc', 1), ('eagain',)], [('acc', 5), ('zero',)], [('eagain',)], [('acc', 7)]]))
            sends += 1
            ops.append('send')
        elif r < 0.75:
            # a WRITE event whose socket.send fails after taking a few bytes (or at once)
            script = [('acc', rng.choice([1, 4]))] * rng.randrange(0, 2) + [rng.choice([('err',), ('neg',)])]
            R.poll(rng.random() < 0.4, True, False, False, script, [('eagain',)] if rng.random() < 0.5 else [])
            ops.append('wpoll_fail')
        elif r < 0.9:
            R.poll(rng.random() < 0.3, True, False, False, gen_sscript(rng, False), [])
            ops.append('wpoll')
        else:
            R.poll(True, False, False, False, [], [('eagain',)])
            ops.append('idle_read')
    # ---- the fair environment ----
    if R.c.state == CS.DISCONNECTED:
        R.connect()
    if R.c.state == CS.CONNECTING and wants_write():
        R.poll(False, True, False, False, [], [])
    left0 = len(R.c._TcpConnection__writeBuffer)
    n_fair = 0
    while R.c.state == CS.CONNECTED and wants_write() and n_fair <= left0 + 1:
        R.poll(False, True, False, False, [('acc', rng.choice([1, 2, 9, 64])), ('eagain',)], [])
        n_fair += 1
    ops.append('fair_drain')
    problems = []
    if R.raised:
        problems.append('exception escaped the connection handler: %r' % (R.raised,))
    problems += R.writer_problems()
    if R.no_write_interest:
        problems.append('unsent bytes wait in the write buffer of a CONNECTED connection while the poller is not asked for '
                        'writability (first at event #%d): they go out only if the application happens to send again'
                        % (R.no_write_interest[0],))
    if R.c.state == CS.CONNECTING:
        problems.append('a CONNECTING connection is not subscribed for writability: the completion of connect() is never reported')
    elif R.c.state == CS.CONNECTED and len(R.c._TcpConnection__writeBuffer) > 0:
        problems.append('%d bytes are still in the write buffer after %d fair WRITE events (WRITE subscribed: %r)'
                        % (len(R.c._TcpConnection__writeBuffer), n_fair, wants_write()))
    meta = {'seed': seed, 'kind': 'wfail', 'ops': ops, 'faulty': True, 'reconnect_flag': flag, 'reuse_fd': reuse_fd,
            'generations': R.gen, 'frames': [[R.gen, sends, n_fair]], 'n_frames': sends}
    table = dict(oracle.table)
    F.uninstall(T)
    return {'R': R, 'table': table, 'meta': meta, 'problems': problems}


def run_any(seed, T):
    if seed >= WF_BASE:
        return run_wfail_case(seed, T)
    return run_reconnect_case(seed, T) if is_reconnect_seed(seed) else run_case(seed, T)

def _case_worker(args):
    seeds = args
    T = F.load_impl()
    out = []
    for s in seeds:
        try:
            c = run_any(s, T)
        except Exception as e:
            import traceback
            out.append({'seed': s, 'crash': traceback.format_exc()})
            try:
                F.uninstall(T)
            except Exception:
                pass
            continue
        if 'S' in c:
            defs_s, call_s = F.v_case('s%d' % s, c['S'], {})
            defs_r, call_r = F.v_case('r%d' % s, c['R'], c['table'])
            out.append({'seed': s, 'meta': c['meta'], 'problems': c['problems'],
                        'defs': defs_s + defs_r, 'calls': [call_s, call_r], 'which': ['S', 'R'],
                        'steps': len(c['S'].events) + len(c['R'].events),
                        'delivered': len(c['R'].all_delivered)})
        else:
            defs_r, call_r = F.v_case('q%d' % s, c['R'], c['table'])
            out.append({'seed': s, 'meta': c['meta'], 'problems': c['problems'],
                        'defs': defs_r, 'calls': [call_r], 'which': ['R'],
                        'steps': len(c['R'].events), 'delivered': len(c['R'].all_delivered)})
    return out


def run_cases(ctx, seeds, label):
    """impl runs (parallel) -> cases_*.v -> vm_compute -> divergences.  Returns list of result dicts."""
    import multiprocessing as mp
    nproc = 16
    chunks = [seeds[i::nproc] for i in range(nproc) if seeds[i::nproc]]
    with mp.get_context('fork').Pool(len(chunks)) as pool:
        from vlib import cov
        results = [r for part in cov.pmap(ctx, pool, _case_worker, chunks) for r in part]
    results.sort(key=lambda r: r['seed'])
    good = [r for r in results if 'crash' not in r]
    per_file = 60
    files = []
    groups = []
    for i in range(0, len(good), per_file):
        grp = good[i:i + per_file]
        path = os.path.join(ctx.work, 'cases_%s_%d.v' % (label, i // per_file))
        with open(path, 'w') as f:
            f.write(HEADER)
            for r in grp:
                f.write(r['defs'])
            f.write('Eval vm_compute in [%s].\n' % ';\n '.join(c for r in grp for c in r['calls']))
        files.append(path)
        groups.append(grp)
    res = coq.coqc_eval(files, ctx.work)
    st = ctx.corr(COMPONENT)
    for path, grp in zip(files, groups):
        rc, out, dt = res[path]
        if rc != 0:
            st['divergences'] += 1
            st.setdefault('first_divergences', []).append({'file': path, 'coqc_failed': out[-1500:]})
            continue
        vals = coq.parse_coq_value(out)
        k = 0
        for r in grp:
            for which in r['which']:
                v = vals[k]
                k += 1
                st['cases'] += 1
                if v is not None:
                    st['divergences'] += 1
                    r.setdefault('divergence', []).append({'conn': which, 'step': v})
                    if len(st.setdefault('first_divergences', [])) < 5:
                        st['first_divergences'].append({'seed': r['seed'], 'conn': which, 'step': v, 'ops': r['meta']['ops']})
            st['steps'] += r['steps']
            if r['delivered'] > 0 and r['meta']['n_frames'] > 1:
                st['nontrivial'] += 1
    for r in results:
        if 'crash' in r:
            st['divergences'] += 1
            st.setdefault('first_divergences', []).append({'seed': r['seed'], 'harness_crash': r['crash'][-1500:]})
            continue
        for op in r['meta']['ops']:
            ctx.count(COMPONENT, op.split(':')[0] if not op.startswith('corrupt') else op)
        if r['meta'].get('kind') == 'wfail':
            ctx.count(COMPONENT, 'write_failure_cases')
            if r['meta'].get('reuse_fd'):
                ctx.count(COMPONENT, 'write_failure_cases_fd_reused')
            if r['meta']['generations'] > 1:
                ctx.count(COMPONENT, 'write_failure_cases_redialled')
            continue
        if r['meta'].get('kind') == 'reconnect':
            ctx.count(COMPONENT, 'reconnect_cases')
            if r['meta'].get('reuse_fd'):
                ctx.count(COMPONENT, 'reconnect_cases_fd_reused')
            ctx.count(COMPONENT, 'generations_%s' % min(r['meta']['generations'], 6))
            continue
        ctx.count(COMPONENT, 'faulty_cases' if r['meta']['faulty'] else 'clean_cases')
        ctx.count(COMPONENT, 'frames_%s' % min(r['meta']['n_frames'], 10))
    return results


def report_problems(ctx, results):
    n = 0
    for r in results:
        if r.get('problems'):
            n += 1
            if n <= 3:
                ctx.violation('C13 monitor on the implementation: ' + r['problems'][0],
                              {'kind': 'pipe_case', 'case_seed': r['seed'], 'problems': r['problems'], 'meta': r['meta']},
                              found_input=True)
    ctx.monitor['monitor_records'] = ctx.monitor.get('monitor_records', 0) + n
    return n


def correspondence(ctx):
    n = 600 if ctx.quick else 12000
    base = ctx.seed * 1000003 % (2 ** 31)
    corpus = corpus_seeds()
    seeds = corpus + [base + i for i in range(n) if base + i not in corpus]
    seeds += [WF_BASE + base + i for i in range(n // 4)]
    ctx.extra['rule'] = ('cases = random S->R pipe scenarios (sends with scripted partial sends/EAGAIN/zero/errors, fragmented reads, '
                         'timeouts, injected bad frames: negative length, undecodable payload, the D12 replay frame) and, for seeds = 0,1 mod 5, '
                         'reconnect scenarios (one connection through several lifetimes, each with its own stream: read bursts of whole frames + '
                         'a partial frame / 1-3 header bytes ending in EOF, ECONNRESET or SO_ERROR, timeouts, failing sends, ERROR events, '
                         're-entrant reconnect from onDisconnected or a later connect(), send() and polls while CONNECTING) and, for '
                         'seeds >= 2^40 (a quarter as many), write-failure scenarios (partial sends, WRITE events whose socket.send fails, '
                         're-entrant reconnect with the descriptor number re-used or fresh, then a fair environment that delivers WRITE '
                         'events only while WRITE is subscribed); every observation includes the poller subscription of the descriptor; '
                         'non-trivial = at least 2 frames in the pipe and at least one message delivered; distinct by seed')
    all_results = []
    step = 3000
    for i in range(0, len(seeds), step):
        results = run_cases(ctx, seeds[i:i + step], 'b%d' % (i // step))
        all_results += results
    report_problems(ctx, all_results)
    ctx.monitor['traces'] = len(all_results)
    if all_results:
        r = next((x for x in all_results if 'crash' not in x and x['meta']['n_frames'] > 1), all_results[0])
        ctx.samples.append({'case_seed': r['seed'], 'ops': r.get('meta', {}).get('ops'), 'frames': r.get('meta', {}).get('frames')})
    ctx.trusted += [
        'oracle: zlib.compress/pickle.dumps output bytes and the accept/reject verdict of pickle.loads(zlib.decompress(.)) are inputs of the model',
        'modelled, not verified: socket, poller (fakes in harness/framing.py: a fresh socket after connect() has nothing to recv, SO_ERROR 0), '
        'connect() returning False and encryption are outside the model',
    ]
    ctx._c13_results = all_results
    poller_correspondence(ctx)


POLLER_COMPONENT = 'Poller/Model.v <-> pysyncobj/poller.py'
POLLER_HEADER = ('From Coq Require Import NArith List.\nFrom PSO Require Import Poller.Model.\nImport ListNotations.\n'
                 'Open Scope N_scope.\n')


def _poller_worker(seeds):
    from harness import pollerh as H
    P = H.load_impl()
    out = []
    for s in seeds:
        case = H.gen_case(s)
        try:
            obs = H.run_impl(P, case)
        except Exception:
            import traceback
            out.append({'seed': s, 'crash': traceback.format_exc()})
            continue
        out.append({'seed': s, 'kind': case['kind'], 'call': H.v_case(case, obs), 'impl': H.canon_impl(obs),
                    'problems': H.problems_of(case, obs), 'rounds': sum(1 for e in case['events'] if e[0] == 'poll'),
                    'dispatches': sum(len(d) for d, _ in obs['outs']),
                    'nested_ops': sum(len(case['scripts'].get(d[0], [])) for ds, _ in obs['outs'] for d in ds)})
    return out


def poller_correspondence(ctx):
    """the real SelectPoller / PollPoller against a fake select module, callbacks that subscribe / unsubscribe during a
    round; observation = dispatches per event, exception flag, final tables"""
    import multiprocessing as mp
    from harness import pollerh as H
    from vlib import cov
    n = 800 if ctx.quick else 20000
    base = (ctx.seed * 31337 + 5) % (2 ** 31)
    seeds = list(range(0, 60)) + [base + i for i in range(n)]
    nproc = 8
    chunks = [seeds[i::nproc] for i in range(nproc)]
    with mp.get_context('fork').Pool(nproc) as pool:
        results = [r for part in cov.pmap(ctx, pool, _poller_worker, chunks) for r in part]
    results.sort(key=lambda r: r['seed'])
    st = ctx.corr(POLLER_COMPONENT)
    good = [r for r in results if 'crash' not in r]
    files, groups = [], []
    per_file = 400
    for i in range(0, len(good), per_file):
        grp = good[i:i + per_file]
        path = os.path.join(ctx.work, 'poller_cases_%d.v' % (i // per_file))
        with open(path, 'w') as f:
            f.write(POLLER_HEADER)
            f.write('Eval vm_compute in [%s].\n' % ';\n '.join(r['call'] for r in grp))
        files.append(path)
        groups.append(grp)
    res = coq.coqc_eval(files, ctx.work)
    nprob = 0
    for path, grp in zip(files, groups):
        rc, out, dt = res[path]
        if rc != 0:
            st['divergences'] += 1
            st.setdefault('first_divergences', []).append({'file': path, 'coqc_failed': out[-1500:]})
            continue
        vals = coq.parse_coq_value(out)
        for r, v in zip(grp, vals):
            st['cases'] += 1
            st['steps'] += r['rounds']
            if r['dispatches'] >= 2 and r['nested_ops'] >= 1:
                st['nontrivial'] += 1
            ctx.count(POLLER_COMPONENT, r['kind'] + '_cases')
            ctx.count(POLLER_COMPONENT, 'dispatches_%s' % min(r['dispatches'] // 5 * 5, 20))
            model = H.canon_model(r['kind'], v)
            if model != r['impl']:
                st['divergences'] += 1
                if len(st.setdefault('first_divergences', [])) < 5:
                    st['first_divergences'].append({'seed': r['seed'], 'kind': r['kind'], 'impl': repr(r['impl'])[:600],
                                                    'model': repr(model)[:600]})
    for r in results:
        if 'crash' in r:
            st['divergences'] += 1
            st.setdefault('first_divergences', []).append({'seed': r['seed'], 'harness_crash': r['crash'][-1200:]})
        elif r['problems']:
            nprob += 1
            if nprob <= 2:
                ctx.violation('C13 monitor on the implementation: ' + r['problems'][0],
                              {'kind': 'poller_case', 'case_seed': r['seed'], 'problems': r['problems']}, found_input=True)
    ctx.monitor['poller_cases'] = len(results)
    ctx.monitor['poller_monitor_records'] = nprob
    ctx.trusted.append('poller.py: the kernel calls select.select / select.poll are replaced by a fake module (harness/pollerh.py: four '
                       'readiness bits per descriptor; the fake poll object keeps registrations in insertion order and always reports '
                       'POLLERR/POLLHUP); the iteration order of the set of ready descriptors in SelectPoller.poll is an oracle input')


def corpus_seeds():
    p = os.path.join(coq.VERIF, 'corpus', 'c13_seeds.json')
    if os.path.exists(p):
        return list(json.load(open(p)))
    return []


def known(ctx):
    # D12 (fixed): the negative-length replay frame must now disconnect; it is part of bad_frame('flip_len')
    T = F.load_impl()
    import struct
    clock = F.Clock()
    oracle = F.install(T, clock)
    R = F.Conn(T, clock, oracle, 6, 100)
    payload = zlib.compress(F._pickle.dumps('hello', 2), 3)
    g = struct.pack('i', len(payload)) + payload
    buf = struct.pack('i', -(4 + len(g))) + payload + g
    R.poll(True, False, False, False, [], [('chunk', buf, False)])
    F.uninstall(T)
    ok = (R.all_delivered == [] and R.c.state == T.CONNECTION_STATE.DISCONNECTED and not R.raised)
    ctx.monitor['d12_witness'] = {'delivered': R.all_delivered, 'state': R.c.state, 'raised': R.raised}
    if not ok:
        ctx.violation('negative frame length accepted: delivered %r, state %r (fixed finding FX-C13-1 is back)'
                      % (R.all_delivered, R.c.state),
                      {'kind': 'd12', 'buffer': list(buf)}, found_input=True)

    # FX-C13-3: a send() that leaves bytes in the write buffer (the socket took only a part) asks the poller for
    # writability; before the fix the rest waited for the next send() (a last big message never arrived)
    clock = F.Clock()
    oracle = F.install(T, clock)
    try:
        W = F.Conn(T, clock, oracle, 7, 10 ** 6)
        W.poll(False, True, False, False, [], [])           # writable, nothing to write: interest drops to READ|ERROR
        W.send({'k': 'x' * 500}, [('acc', 5), ('eagain',)])  # the socket takes 5 bytes
        left = len(W.c._TcpConnection__writeBuffer)
        okw = left > 0 and not W.no_write_interest and not W.raised
        W.poll(False, True, False, False, [('acc', 100000)] * 3, [])
        okw = okw and len(W.c._TcpConnection__writeBuffer) == 0
    finally:
        F.uninstall(T)
    ctx.monitor['write_interest_witness'] = {'left_after_send': left, 'events_without_write_interest': W.no_write_interest,
                                             'raised': W.raised}
    if not okw:
        ctx.violation('bytes left in the write buffer by send() are not announced to the poller (fixed finding FX-C13-3 is back)',
                      {'kind': 'write_interest', 'left': left, 'events': W.no_write_interest}, found_input=True)

    # FX-C14-2 (commit 8fba630): a WRITE event whose socket.send fails, reconnecting callback, the new socket gets the
    # descriptor number just closed: the handler must not re-subscribe that number with READ|ERROR
    clock = F.Clock()
    oracle = F.install(T, clock)
    try:
        from pysyncobj.poller import POLL_EVENT_TYPE as P
        V = F.Conn(T, clock, oracle, 8, 10 ** 6, reconnect=True, reuse_fd=True)
        V.send({'k': 'x' * 300}, [('acc', 5), ('eagain',)])
        V.poll(False, True, False, False, [('err',)], [])
        sub = V.poller.subs.get(V.c.fileno())
        okv = V.c.state == T.CONNECTION_STATE.CONNECTING and sub is not None and sub[1] == (P.READ | P.WRITE | P.ERROR) \
            and len(V.poller.subs) == 1 and not V.raised
    finally:
        F.uninstall(T)
    ctx.monitor['redial_subscription_witness'] = {'state': V.c.state, 'subscriptions': {str(k): v[1] for k, v in V.poller.subs.items()},
                                                  'raised': V.raised}
    if not okv:
        ctx.violation('after a failed write and a re-entrant connect() the new socket is not subscribed with READ|WRITE|ERROR '
                      '(fixed finding FX-C14-2 is back)', {'kind': 'redial_subscription'}, found_input=True)

    # FX-C13-4: nothing escapes poll() when a handler takes another ready descriptor of the same round out of the poller
    pp = poller_round_problems()
    ctx.monitor['poller_round_witness'] = {'problems': pp, 'pollers': ['poll', 'select'], 'descriptors_per_round': [2, 3]}
    if pp:
        ctx.violation('C13 monitor on the implementation: ' + pp[0], {'kind': 'poller_round', 'problems': pp}, found_input=True)


def poller_round_problems():
    """FX-C13-4.  Two descriptors are ready in one poll round and the handler that runs first takes the other one out
    of the poller (what TcpConnection.disconnect() does from a callback: a corrupt frame on A whose onDisconnected drops
    B, or a send to a peer that has reset).  Nothing may escape poll(), for either poller type and either order, and
    the removed descriptor is not dispatched afterwards.  Real pollers on real socket pairs."""
    import socket
    from pysyncobj.poller import createPoller, POLL_EVENT_TYPE
    problems = []
    for kind in ('poll', 'select'):
        for n in (2, 3):
            p = createPoller(kind)
            pairs = [socket.socketpair() for _ in range(n)]
            fds = [a.fileno() for a, _ in pairs]
            seen, gone = [], set()

            def handler(descr, event):
                if descr in gone:
                    return                      # TcpConnection ignores events of a descriptor that is not its own any more
                seen.append(descr)
                for other in fds:
                    if other != descr and other not in gone:
                        p.unsubscribe(other)
                        gone.add(other)
            try:
                for fd in fds:
                    p.subscribe(fd, handler, POLL_EVENT_TYPE.READ | POLL_EVENT_TYPE.ERROR)
                for _, b in pairs:
                    b.send(b'x')
                for rnd in (1, 2):
                    try:
                        p.poll(0.0)
                    except Exception as e:
                        problems.append('%s poller, %d descriptors ready in one round, the first handler unsubscribes the '
                                        'others: %r escaped poll() (round %d)' % (kind, n, e, rnd))
                        break
                if len(set(seen)) != 1 and not problems:
                    problems.append('%s poller: handlers ran for descriptors %r, expected exactly one descriptor' % (kind, seen))
            finally:
                for a, b in pairs:
                    a.close()
                    b.close()
    return problems


def search(ctx):
    """Failing-input search after a broken obligation / divergence: more random pipe cases under the monitor only."""
    T = F.load_impl()
    base = (ctx.seed * 7919 + 17) % (2 ** 31)
    n = 3000 if ctx.quick else 30000
    hits = 0
    for i in range(n):
        try:
            c = run_any(base + i, T)
        except Exception:
            continue
        if c['problems']:
            ctx.violation('C13 monitor on the implementation: ' + c['problems'][0],
                          {'kind': 'pipe_case', 'case_seed': base + i, 'problems': c['problems'], 'meta': c['meta']},
                          found_input=True)
            hits += 1
            if hits >= 2:
                break
    ctx.monitor['search_cases'] = n
    return hits > 0


def replay(ctx, data):
    T = F.load_impl()
    if data.get('kind') == 'poller_case':
        from harness import pollerh as H
        case = H.gen_case(data['case_seed'])
        obs = H.run_impl(H.load_impl(), case)
        print('problems:', H.problems_of(case, obs))
        if H.problems_of(case, obs):
            print('VIOLATION property=C13 replay=(replayed)')
            return 1
        return 0
    if data.get('kind') == 'pipe_case':
        c = run_any(data['case_seed'], T)
        print('problems:', c['problems'])
        if c['problems']:
            print('VIOLATION property=C13 replay=(replayed)')
            return 1
        return 0
    if data.get('kind') in ('d12', 'poller_round', 'write_interest', 'redial_subscription'):
        known(ctx)
        return 1 if ctx.violations else 0
    print('nothing to replay for', data.get('kind'))
    return 0
