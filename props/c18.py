"""C18 - decided on the shared Raft run (props/raftcommon.py): theorems in coq/Props/C18.v over the L1 model
coq/Raft, correspondence of that model with the implementation, runtime monitor records of C18; plus the observer
handshake of the real TCPTransport (the Raft simulation replaces the transport, so this part runs on the transport
harness of C14): every read-only connection is a node of its own."""
import json
import subprocess

from props import raftcommon as R
from vlib import coq
from vlib.ctx import impl_env

PROPS = ('C18',)
# in schedules with read-only nodes a safety record (majority, one leader, common sequence, fallback) is also a C18 record:
# the read-only nodes influenced the cluster
# scenarios with observers: a read-only id in a voter's member set (a C10 record), a commit without a majority of voters
# (C04), a leader without the committed entries (C03) are C18 records there
_OBS = ('C01', 'C03', 'C04', 'C10', 'C20')
_corr, search, replay = R.standard_module('C18', PROPS, {'ro_trace': ('C01', 'C03', 'C04', 'C20'),
                                                          'scenario:observers_join_after_snapshot_install': _OBS,
                                                          'scenario:observer_of_snapshot_installed_voter': _OBS})


def observer_handshake(ctx):
    n = 600 if ctx.quick else 6000
    code = ('import json, sys; sys.path.insert(0, %r)\n'
            'from harness import transport as H\n'
            'TR, ND, CF = H.load_impl()\n'
            'out, ro = [], 0\n'
            'for s in range(%d, %d):\n'
            '    c = H.gen_and_run(s, TR, ND, CF)\n'
            '    ro += c["tags"].count("handshake_readonly")\n'
            '    for k, t in c["problems"]:\n'
            '        if k == "readonly-id" or "read-only" in t:\n'
            '            out.append([s, k, t])\n'
            'print(json.dumps({"problems": out[:5], "handshakes": ro}))\n'
            % (coq.VERIF, 70000 + ctx.seed * 7, 70000 + ctx.seed * 7 + n))
    try:
        p = subprocess.run(['/venv/bin/python', '-c', code], stdout=subprocess.PIPE, stderr=subprocess.PIPE, text=True,
                           env=impl_env(), timeout=1800)
        res = json.loads(p.stdout.strip().split('\n')[-1])
    except Exception as e:
        ctx.obligation('observer-handshake-cases-ran', False, repr(e))
        return
    ctx.monitor['observer_handshakes_on_the_real_transport'] = res['handshakes']
    for s, k, t in res['problems'][:2]:
        ctx.violation('C18 monitor on the implementation (transport, %s): %s' % (k, t),
                      {'kind': 'transport_case', 'seed': s, 'problem': [k, t]}, found_input=True)


def correspondence(ctx):
    observer_handshake(ctx)
    _corr(ctx)
