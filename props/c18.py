"""C18 - decided on the shared Raft run (props/raftcommon.py): theorems in coq/Props/C18.v over the L1 model
coq/Raft, correspondence of that model with the implementation, runtime monitor records of C18."""
from props import raftcommon as R

PROPS = ('C18',)
# in schedules with read-only nodes a safety record (majority, one leader, common sequence, fallback) is also a C18 record:
# the read-only nodes influenced the cluster
correspondence, search, replay = R.standard_module('C18', PROPS, {'ro_trace': ('C01', 'C03', 'C04', 'C20')})
