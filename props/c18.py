"""C18 - decided on the shared Raft run (props/raftcommon.py): theorems in coq/Props/C18.v over the L1 model
coq/Raft, correspondence of that model with the implementation, runtime monitor records of C18."""
from props import raftcommon as R

PROPS = ('C18',)
correspondence, search, replay = R.standard_module('C18', PROPS)
