"""C15 / C16 'through a replicated cluster' part: harness/cluster_batteries.py under its monitor
(implementation only; the Raft model covers the replication, the battery models cover the containers)."""
import multiprocessing as mp
import os


def _one(args):
    seed, work = args
    import resource
    resource.setrlimit(resource.RLIMIT_AS, (4 << 30, 4 << 30))
    from harness import cluster_batteries as CB
    try:
        if seed == -1:
            p, st = CB.run_scripted(os.path.join(work, 'scripted'))
        else:
            p, st = CB.run_case(seed, os.path.join(work, 'w%d' % seed))
        return seed, p, st
    except Exception:
        import traceback
        return seed, ['harness crash: ' + traceback.format_exc()[-600:]], {}


def run(ctx, want_lock, n=None):
    """want_lock: True -> report lock problems (C16); False -> report the other batteries (C15)"""
    n = n or (40 if ctx.quick else 600)
    base = (ctx.seed * 31337) % 100000
    work = os.path.join(ctx.work, 'cluster')
    os.makedirs(work, exist_ok=True)
    with mp.get_context('fork').Pool(min(12, n)) as pool:
        res = pool.map(_one, [(base + i, work) for i in range(n)] + [(-1, work)])
    tot = {}
    hits = 0
    for seed, problems, st in res:
        for k, v in st.items():
            tot[k] = tot.get(k, 0) + v
        for p in problems:
            if p.startswith('KF-C07-1'):
                kf = [f for f in ctx.findings if f['id'] == 'KF-C07-1' and f.get('status') == 'known']
                if kf:
                    ctx.known_finding(kf[0])
                    attributed = ctx.monitor.setdefault('cluster_cases_ended_by_known_finding', [])
                    attributed.append(seed)
                    continue
            is_lock = ('lock' in p.split(':')[1][:12] if 'replicas differ' in p else p.startswith('lock '))
            if 'harness crash' in p or 'exception escaped' in p or is_lock == want_lock:
                hits += 1
                if hits <= 2:
                    ctx.violation('%s through a replicated cluster: %s' % (ctx.pid, p),
                                  {'kind': 'cluster_batteries', 'case_seed': seed, 'problem': p}, found_input=True)
    ctx.monitor['cluster_cases'] = {'cases': n, 'stats': tot, 'problems_for_this_property': hits}
    import shutil
    shutil.rmtree(work, ignore_errors=True)
    return hits


def replay(ctx, data):
    seed, problems, st = _one((data['case_seed'], ctx.work))
    print('problems:', problems[:3])
    return 1 if problems else 0
