"""C05 - decided on the shared Raft run (props/raftcommon.py): theorems in coq/Props/C05.v over the L1 model
coq/Raft, correspondence of that model with the implementation, runtime monitor records of C05."""
from props import raftcommon as R

PROPS = ('C05',)
correspondence, search, replay = R.standard_module('C05', PROPS)
