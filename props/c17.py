"""C17 - code versions.  Model: coq/Versions/Model.v; theorems: coq/Props/C17.v.

Correspondence
  (a) static: generated old/new class pairs (versioned replicated methods on the object and on
      2-3 consumers) -> _methodToID/_idToMethod, __selfCodeVersion, the name table after a VERSION
      entry for every version, the id a call carries, setCodeVersion verdicts  vs  `check_static`;
  (b) traces: 1-3 real SyncObj nodes running different code in harness.sim (calls, switch,
      compaction, kill/restart, snapshot install)  vs  `check_trace` (every __applyLogEntries,
      every call, every setCodeVersion, every dump / load).
Monitor (the property text on the implementation): harness.versions.monitor + static_monitor.
"""
import json
import os
import random
import shutil
import time
import traceback

from vlib import coq
from harness import versions as V

COMPONENT = 'Versions/Model.v <-> pysyncobj/syncobj.py (code versions)'
HEADER = ('From Coq Require Import NArith List.\nFrom PSO Require Import Versions.Model.\n'
          'Import ListNotations.\nOpen Scope N_scope.\n')

STRICT_KINDS = ['mixed_switch', 'lacking_stop', 'dump_restart', 'snapshot_catchup', 'journal_restart', 'lacking_snapshot']
TRIGGER_KINDS = ['custom_serializer']

F_CUSTOM = 'KF-C17-2'


# ------------------------------------------------------------------------------------------------
# (a) static cases
# ------------------------------------------------------------------------------------------------

def static_monitor(spec, obs_old, obs_new, queries):
    """the property text on the static observables of one old/new pair"""
    P = []
    sh = {False: V.shape_of(spec, False), True: V.shape_of(spec, True)}
    if obs_new['ids'][:len(obs_old['ids'])] != obs_old['ids']:
        P.append('ids of the old code %r are not a prefix of the ids of the new code %r' % (obs_old['ids'], obs_new['ids']))
    for new, obs in ((False, obs_old), (True, obs_new)):
        own = V.shape_max(sh[new])
        if obs['selfv'] != own:
            P.append('__selfCodeVersion %d, highest declared version %d' % (obs['selfv'], own))
        for v, ans in obs['tables']:
            if (ans is None) != (v > own):
                P.append('VERSION %d entry on code version %d: %s' % (v, own, 'refused' if ans is None else 'applied'))
            if ans is None:
                continue
            for (o, nm), (fn, fid) in zip(queries, ans):
                ev = V.expected_version(sh[new], o, nm, v)
                want = None if ev is None else '%s_v%d' % (nm, ev)
                if fn != want:
                    P.append('enabled %d: %s of owner %d resolves to %r, newest not above is %r' % (v, nm, o, fn, want))
                if (fid is None) != (want is None) or (fid is not None and obs['ids'][fid] != (o, want)):
                    P.append('enabled %d: call %s of owner %d carries id %r = %r, expected %r'
                             % (v, nm, o, fid, None if fid is None else obs['ids'][fid], want))
        for en, v, code in obs['valid']:
            want = 1 if v > own else (2 if v < en else 0)
            if code != want:
                P.append('setCodeVersion(%d) at enabled %d, code version %d: verdict %d, expected %d' % (v, en, own, code, want))
    return P


def static_case(seed):
    rng = random.Random(seed)
    spec = V.gen_spec(rng)
    N = V.Names('s%d_' % seed)
    queries = V.shape_keys(V.shape_of(spec, True)) + [(0, 'nope'), (1, 'nope')]
    obs = {}
    calls = []
    steps = 0
    for new in (False, True):
        code = V.build_code(spec, new, [None])
        sh = code['shape']
        m = V.shape_max(sh)
        versions = sorted(set(range(0, m + 2)))
        if len(versions) > 8:
            versions = sorted(set(rng.sample(versions, 6) + [0, m, m + 1]))
        pairs = [(e, v) for e in versions if e <= m for v in range(0, m + 2)]
        if len(pairs) > 12:
            pairs = rng.sample(pairs, 12)
        o = V.observe_static(code, queries, versions, pairs)
        obs[new] = o
        calls.append(V.v_static_call(N, sh, queries, o))
        steps += len(o['ids']) + sum(len(a or [1]) for _, a in o['tables']) + len(o['valid'])
    problems = static_monitor(spec, obs[False], obs[True], queries)
    nshape = V.shape_of(spec, True)
    return {'seed': seed, 'kind': 'static', 'spec': spec, 'defs': N.defs(), 'calls': calls, 'steps': steps,
            'problems': problems,
            'meta': {'n_methods_old': len(obs[False]['ids']), 'n_methods_new': len(obs[True]['ids']),
                     'consumers': len(spec['consumers']), 'variant': spec['variant'],
                     'shared_consumer_class': len(set(spec['consumers'])) < len(spec['consumers']),
                     'max_ver': V.shape_max(nshape)},
            'ids_old': obs[False]['ids'], 'ids_new': obs[True]['ids']}


# ------------------------------------------------------------------------------------------------
# (b) scenarios
# ------------------------------------------------------------------------------------------------

def _calls(c, rng, nodes, k, keys):
    for _ in range(k):
        o, nm = rng.choice(keys)
        c.call(rng.choice(nodes), o, nm)


def _live(c):
    return [n for n in c.nids if n in c.sim.nodes]


def _lacking(c, v):
    return [n for n in _live(c) if V.shape_max(c.shape(n)) < v]


def run_scenario(kind, seed, workdir):
    rng = random.Random(seed)
    spec = V.gen_spec(rng, small=rng.random() < 0.7)
    keys = V.shape_keys(V.shape_of(spec, True)) + [(0, 'nope')]
    oldmax = V.shape_max(V.shape_of(spec, False))
    newmax = V.shape_max(V.shape_of(spec, True))
    n_nodes = rng.choice([2, 3, 3])
    nids = list(range(1, n_nodes + 1))
    order = list(nids)
    rng.shuffle(order)                      # who times out first and becomes leader
    cfg = {}
    custom = False
    if kind in ('dump_restart', 'custom_serializer'):
        cfg['dump'] = 'file'
    if kind == 'journal_restart':
        cfg['journal'] = 'file'
        if rng.random() < 0.5:
            cfg['dump'] = 'file'
    if kind == 'custom_serializer':
        custom = True
    # which nodes run old code
    if kind == 'lacking_stop':
        codes = dict((n, 1) for n in nids)
        for n in rng.sample(nids, rng.randint(1, n_nodes - 1)):
            codes[n] = 0
    elif kind in ('mixed_switch', 'dump_restart', 'journal_restart'):
        codes = dict((n, rng.choice([0, 1, 1])) for n in nids)
        if not any(codes.values()):
            codes[rng.choice(nids)] = 1
    elif kind == 'lacking_snapshot':
        codes = dict((n, 1) for n in nids)
    else:
        codes = dict((n, 1) for n in nids)
    if workdir:
        os.makedirs(workdir, exist_ok=True)
    c = V.Cluster(spec, codes, cfg=cfg, workdir=workdir, rnd_order=order, custom=custom)
    c.kind = kind
    c.seed = seed
    try:
        _drive(c, kind, rng, keys, oldmax, newmax, codes)
        for n in _live(c):
            c.table_probe(n)
        V.monitor(c)
    finally:
        c.finish()
    return c


def _upgrade(c, nodes):
    """rolling upgrade: one node at a time (the nodes keep nothing on disk here, so a majority must stay up)"""
    for n in nodes:
        c.kill(n)
        c.restart(n, code=1)
        c.settle()


def _drive(c, kind, rng, keys, oldmax, newmax, codes):
    nids = c.nids
    c.settle()
    _calls(c, rng, _live(c), rng.randint(2, 5), keys)
    c.settle()
    new_nodes = [n for n in nids if codes[n] == 1]

    if kind == 'mixed_switch':
        # an intermediate switch every node supports, rejected requests, the real switch
        if oldmax > 0 and rng.random() < 0.6:
            c.setver(rng.choice(nids), rng.randint(1, oldmax))
            c.settle()
            _calls(c, rng, _live(c), rng.randint(1, 3), keys)
            c.settle()
        for _ in range(rng.randint(1, 3)):
            c.setver(rng.choice(nids), rng.randint(0, newmax + 1))
            c.settle()
            _calls(c, rng, _live(c), rng.randint(1, 3), keys)
            c.settle()
        v = rng.randint(oldmax + 1, newmax)
        c.setver(rng.choice(new_nodes), v)
        c.settle()
        _calls(c, rng, _live(c), rng.randint(3, 6), keys)
        c.settle()
        _upgrade(c, _lacking(c, v))
        _calls(c, rng, _live(c), rng.randint(2, 4), keys)
        c.settle()
        return

    if kind == 'lacking_stop':
        v = rng.randint(oldmax + 1, newmax)
        c.setver(rng.choice(new_nodes), v)
        c.settle()
        lack = _lacking(c, v)
        for _ in range(rng.randint(1, 3)):
            _calls(c, rng, _live(c), rng.randint(2, 4), keys)
            c.settle()
            for _i in range(rng.randint(0, 4)):
                c.round()
        frozen = dict((n, (c.obj(n)._SyncObj__raftLastApplied, list(c.obj(n).ghist))) for n in lack)
        for _i in range(5):
            c.round()
        for n in lack:
            now = (c.obj(n)._SyncObj__raftLastApplied, list(c.obj(n).ghist))
            if now != frozen[n]:
                c.problems.append('node %d lacks version %d but its state moved: %r -> %r' % (n, v, frozen[n], now))
        # a request issued on the node that lacks the version
        for n in lack:
            c.setver(n, v)
            c.setver(n, rng.randint(0, newmax + 1))
        c.settle()
        if rng.random() < 0.7:
            _upgrade(c, lack)
            _calls(c, rng, _live(c), rng.randint(2, 4), keys)
            c.settle()
        return

    if kind in ('dump_restart', 'journal_restart', 'custom_serializer'):
        v = rng.randint(1, newmax) if kind != 'custom_serializer' else rng.randint(1, newmax)
        c.setver(rng.choice(new_nodes), v)
        c.settle()
        _calls(c, rng, _live(c), rng.randint(2, 5), keys)
        c.settle()
        able = [n for n in _live(c) if n not in _lacking(c, v)]
        k = rng.choice(able)
        if 'dump' in c.sim.cfg and c.sim.cfg['dump']:
            c.compact(k)
            if rng.random() < 0.5:
                for n in able:
                    c.compact(n)
            c.settle()
            if rng.random() < 0.5:
                _calls(c, rng, _live(c), rng.randint(1, 3), keys)
                c.settle()
        c.kill(k)
        if rng.random() < 0.5 and len(_live(c)) >= 2:
            _calls(c, rng, _live(c), rng.randint(1, 3), keys)
            c.settle()
        c.restart(k, code=1 if rng.random() < 0.5 else None)
        c.settle()
        c.table_probe(k)
        _calls(c, rng, [k], rng.randint(2, 4), keys)
        _calls(c, rng, _live(c), rng.randint(1, 3), keys)
        c.settle()
        if newmax > v and rng.random() < 0.5 and not _lacking(c, newmax):
            c.setver(k, newmax)
            c.settle()
            _calls(c, rng, _live(c), rng.randint(1, 3), keys)
            c.settle()
        return

    if kind in ('snapshot_catchup', 'lacking_snapshot'):
        lag = rng.choice(nids)
        if len(nids) < 3:
            # two nodes: no majority without the lagging one; use the memory of a third
            pass
        others = [n for n in nids if n != lag]
        if len(nids) == 2:
            # with two voters nothing commits while one is away: switch first, then lose the node's memory
            v = rng.randint(oldmax + 1, newmax) if kind == 'lacking_snapshot' else rng.randint(1, newmax)
            c.setver(rng.choice(nids), v)
            c.settle()
            _calls(c, rng, _live(c), rng.randint(2, 5), keys)
            c.settle()
            for n in nids:
                c.compact(n)
            c.settle()
            c.kill(lag)
            c.restart(lag, code=0 if kind == 'lacking_snapshot' else None)
        else:
            isolate = rng.random() < 0.5 and kind == 'snapshot_catchup'
            if isolate:
                # the node that will be cut off calls every method once under the old version (anything a call path may
                # remember per method - ids, name tables - is then in place before the switch reaches it by snapshot)
                for o, nm in keys:
                    c.call(lag, o, nm)
                c.settle()
                c.isolate(lag)
            else:
                c.kill(lag)
            c.settle()
            v = rng.randint(oldmax + 1, newmax) if kind == 'lacking_snapshot' else rng.randint(1, newmax)
            c.setver(rng.choice(others), v)
            c.settle()
            _calls(c, rng, others, rng.randint(2, 5), keys)
            c.settle()
            for n in others:
                c.compact(n)
            c.settle()
            if rng.random() < 0.5:
                _calls(c, rng, others, rng.randint(1, 3), keys)
                c.settle()
            if isolate:
                c.rejoin(lag)
            else:
                c.restart(lag, code=0 if kind == 'lacking_snapshot' else None)
        if kind == 'lacking_snapshot' and len(nids) == 2:
            for _i in range(40):                 # a new leader's no-op cannot commit while the other voter refuses
                c.round()
        else:
            c.settle()
        c.table_probe(lag)
        if kind == 'lacking_snapshot':
            # the node refuses the snapshot: it keeps its (empty) state and version 0, whatever goes on
            before = (c.obj(lag)._SyncObj__raftLastApplied, c.obj(lag).getCodeVersion(), list(c.obj(lag).ghist))
            if len(nids) >= 3:                   # with two voters nothing commits while one refuses
                _calls(c, rng, [n for n in _live(c) if n != lag], rng.randint(2, 4), keys)
                c.settle()
            for _i in range(6):
                c.round()
            now = (c.obj(lag)._SyncObj__raftLastApplied, c.obj(lag).getCodeVersion(), list(c.obj(lag).ghist))
            if now != before or lag in c.installed:
                c.problems.append('node %d lacks version %d but installed the snapshot / moved: %r -> %r' % (lag, v, before, now))
            if len(nids) == 2 or rng.random() < 0.6:
                c.kill(lag)
                c.restart(lag, code=1)
                c.settle()
                c.table_probe(lag)
        if kind == 'snapshot_catchup':
            for o, nm in keys:                   # every method, called on the node that got the switch by snapshot
                c.call(lag, o, nm)
        _calls(c, rng, [lag], rng.randint(2, 4), keys)
        _calls(c, rng, _live(c), rng.randint(1, 3), keys)
        c.settle()
        return
    raise ValueError(kind)


def scenario_case(args):
    kind, seed, workroot = args
    wd = os.path.join(workroot, 'scn_%s_%d' % (kind, seed))
    t0 = time.time()
    c = run_scenario(kind, seed, wd)
    shutil.rmtree(wd, ignore_errors=True)
    tag = '%s_%d' % (kind[:2], seed)
    N = V.Names('t%s_' % tag)
    defs, call = V.v_trace_case(N, tag, c)
    problems = list(c.problems)
    for nid, what, rep in c.tick_exc[:3]:
        problems.append('exception escaped a %s handler of node %d: %s' % (what, nid, rep))
    nexc = sum(1 for r in c.log.records if r[2] and 'replicated method raised' in r[1])
    if nexc:
        problems.append('%d exceptions were logged while applying entries' % nexc)
    installs = dict((n, vs) for n, vs in c.installed.items())
    return {'seed': seed, 'kind': kind, 'spec': c.spec, 'defs': N.defs() + defs, 'calls': [call],
            'steps': len(c.events), 'problems': problems, 'anomalies': list(c.anomalies),
            'stats': dict(c.stats), 'tick_exc': len(c.tick_exc), 'errors_logged': len(c.log.records),
            'meta': {'nodes': len(c.nids), 'old_nodes': sum(1 for n in c.initial_codes.values() if n == 0),
                     'log_len': len(c.glog), 'wall': round(time.time() - t0, 2),
                     'stopped_ticks': sum(1 for a in c.apply_log if a[4][0] == 1),
                     'skipped_entries': len(c.skipped), 'stopped_unknown_id': len(c.stopped_unknown_id),
                     'dump_load_failures_logged': sum(1 for r in c.log.records if 'failed to load full dump' in r[1])},
            'final': dict((str(n), [c.obj(n)._SyncObj__raftLastApplied, c.obj(n).getCodeVersion(), len(c.obj(n).ghist),
                                    V.shape_max(c.shape(n))]) for n in _live(c)),
            'installs': installs, 'events_tail': [repr(e)[:300] for e in c.events[-12:]]}


def _worker(jobs):
    out = []
    for job in jobs:
        try:
            if job[0] == 'static':
                out.append(static_case(job[1]))
            else:
                out.append(scenario_case(job))
        except Exception:
            out.append({'seed': job[1], 'kind': job[0], 'crash': traceback.format_exc()})
            try:
                V.SIM.Sim.uninstall()
            except Exception:
                pass
    return out


def run_jobs(jobs, nproc=16):
    import multiprocessing as mp
    chunks = [jobs[i::nproc] for i in range(nproc) if jobs[i::nproc]]
    if not chunks:
        return []
    with mp.get_context('fork').Pool(len(chunks)) as pool:
        res = [r for part in pool.map(_worker, chunks) for r in part]
    order = dict((((j[0], j[1])), i) for i, j in enumerate(jobs))
    res.sort(key=lambda r: order[(r['kind'], r['seed'])])
    return res


def evaluate(ctx, results, label, per_file):
    """cases_*.v -> vm_compute -> divergences"""
    st = ctx.corr(COMPONENT)
    good = [r for r in results if 'crash' not in r]
    files, groups = [], []
    for i in range(0, len(good), per_file):
        grp = good[i:i + per_file]
        path = os.path.join(ctx.work, 'cases_%s_%d.v' % (label, i // per_file))
        with open(path, 'w') as f:
            f.write(HEADER)
            for r in grp:
                f.write(r['defs'])
            f.write('Eval vm_compute in [%s].\n' % ';\n '.join(
                ('(match %s with None => [] | Some i => [i] end)' % c) if r['kind'] != 'static' else c
                for r in grp for c in r['calls']))
        files.append(path)
        groups.append(grp)
    res = coq.coqc_eval(files, ctx.work)
    for path, grp in zip(files, groups):
        rc, out, dt = res[path]
        if rc != 0:
            st['divergences'] += 1
            st.setdefault('first_divergences', []).append({'file': path, 'coqc_failed': out[-1500:]})
            continue
        vals = coq.parse_coq_value(out)
        k = 0
        for r in grp:
            for _ in r['calls']:
                v = vals[k]
                k += 1
                st['cases'] += 1
                if v:
                    st['divergences'] += 1
                    r.setdefault('divergence', []).append(v)
                    if len(st.setdefault('first_divergences', [])) < 5:
                        st['first_divergences'].append({'seed': r['seed'], 'kind': r['kind'], 'failed_checks_or_step': v,
                                                        'spec': r['spec'], 'events_tail': r.get('events_tail')})
            st['steps'] += r['steps']
    for r in results:
        if 'crash' in r:
            st['divergences'] += 1
            st.setdefault('first_divergences', []).append({'seed': r['seed'], 'kind': r['kind'], 'harness_crash': r['crash'][-1500:]})
            continue
        for a in r.get('anomalies', []):
            st['divergences'] += 1
            if len(st.setdefault('first_divergences', [])) < 8:
                st['first_divergences'].append({'seed': r['seed'], 'kind': r['kind'], 'anomaly': a})
        ctx.count(COMPONENT, 'kind:' + r['kind'])
        m = r['meta']
        if r['kind'] == 'static':
            ctx.count(COMPONENT, 'static:variant_' + m['variant'])
            ctx.count(COMPONENT, 'static:consumers_%d' % m['consumers'])
            ctx.count(COMPONENT, 'static:methods_new_%s' % ('<=8' if m['n_methods_new'] <= 8 else '<=16' if m['n_methods_new'] <= 16 else '>16'))
            if m['shared_consumer_class']:
                ctx.count(COMPONENT, 'static:two_consumers_of_one_class')
            if m['max_ver'] >= 10:
                ctx.count(COMPONENT, 'static:two_digit_versions')
            if m['n_methods_new'] > m['n_methods_old'] >= 2:
                st['nontrivial'] += 1
        else:
            for k2, n in r['stats'].items():
                ctx.count(COMPONENT, 'ops:' + k2, n)
            ctx.count(COMPONENT, 'ticks_stopped_at_version_entry', m['stopped_ticks'])
            ctx.count(COMPONENT, 'ticks_stopped_at_unknown_method_id', m['stopped_unknown_id'])
            ctx.count(COMPONENT, 'nodes_%d' % m['nodes'])
            if m['old_nodes']:
                ctx.count(COMPONENT, 'scenarios_with_old_code_nodes')
            if r['stats'].get('setver_queued') and r['stats'].get('calls', 0) >= 4:
                st['nontrivial'] += 1
    return results


def is_f_custom(r, p):
    """attribution predicate of KF-C17-2: conf.serializer mode, a node loaded a dump (restart or
    snapshot install) and is at another version than the log prefix it has applied says"""
    loaded = r['stats'].get('dump_restarts', 0) + r['stats'].get('snapshot_installs', 0) > 0
    return r['kind'] == 'custom_serializer' and loaded and 'where the enabled version is' in p


def report(ctx, results):
    """monitor hits -> violations (strict stream) / known-finding attribution (trigger stream)"""
    n = 0
    known = dict((f['id'], f) for f in ctx.known_for())
    for r in results:
        if 'crash' in r:
            continue
        for p in r.get('problems', []):
            if r['kind'] in TRIGGER_KINDS:
                fid = F_CUSTOM
                ok = is_f_custom(r, p)
                ctx.monitor['trigger_stream_records'] = ctx.monitor.get('trigger_stream_records', 0) + 1
                if ok:
                    ctx.monitor.setdefault('attributed', {}).setdefault(fid, 0)
                    ctx.monitor['attributed'][fid] += 1
                    if fid in known:
                        ctx.known_finding(known[fid])
                    continue
            n += 1
            if n <= 3:
                ctx.violation('C17 monitor on the implementation: ' + p,
                              {'kind': r['kind'], 'case_seed': r['seed'], 'problems': r['problems'][:5], 'spec': r['spec']},
                              found_input=True)
    ctx.monitor['monitor_records'] = ctx.monitor.get('monitor_records', 0) + n
    return n


def negative_control(ctx):
    """the checking functions must notice corrupted observations"""
    r = static_case(424242)
    N = V.Names('neg_')
    spec = r['spec']
    code = V.build_code(spec, True, [None])
    sh = code['shape']
    queries = V.shape_keys(sh)
    m = V.shape_max(sh)
    obs = V.observe_static(code, queries, [0, m, m + 1], [(0, 0), (0, m + 1), (m, 0)])
    import copy
    bad = []
    o1 = copy.deepcopy(obs)
    o1['ids'][0], o1['ids'][1] = o1['ids'][1], o1['ids'][0]
    bad.append(o1)
    o2 = copy.deepcopy(obs)
    o2['selfv'] += 1
    bad.append(o2)
    o3 = copy.deepcopy(obs)
    fn, fid = o3['tables'][1][1][0]
    o3['tables'][1][1][0] = (fn, (fid or 0) + 1)
    bad.append(o3)
    o4 = copy.deepcopy(obs)
    o4['valid'][1] = (o4['valid'][1][0], o4['valid'][1][1], 0)
    bad.append(o4)
    o5 = copy.deepcopy(obs)
    o5['tables'][2] = (o5['tables'][2][0], o5['tables'][1][1])        # WrongVer reported as applied
    bad.append(o5)
    calls = [V.v_static_call(N, sh, queries, obs)] + [V.v_static_call(N, sh, queries, b) for b in bad]
    # a trace with one execution attributed to another version, and one with a wrong applied index
    c = run_scenario('mixed_switch', 77, None)
    tag = 'neg'
    d0, call0 = V.v_trace_case(N, tag + '0', c)
    ev = list(c.events)
    i = next(i for i, e in enumerate(ev) if e[0] == 'tick' and e[6])
    e = ev[i]
    x = e[6][0]
    ev[i] = e[:6] + ([(x[0], x[1], x[2] + 1, x[3])] + list(e[6][1:]),)
    c.events = ev
    d1, call1 = V.v_trace_case(N, tag + '1', c)
    ev = list(c.events)
    j = next(i for i, e in enumerate(ev) if e[0] == 'call' and e[4] is not None)
    ev[i] = e
    ev[j] = ev[j][:4] + (ev[j][4] + 1,)
    c.events = ev
    d2, call2 = V.v_trace_case(N, tag + '2', c)
    path = os.path.join(ctx.work, 'negative_control.v')
    tr = lambda s: '(match %s with None => [] | Some i => [i] end)' % s
    with open(path, 'w') as f:
        f.write(HEADER + N.defs() + d0 + d1 + d2)
        f.write('Eval vm_compute in [%s].\n' % ';\n '.join(calls + [tr(call0), tr(call1), tr(call2)]))
    rc, out, dt = coq.coqc_eval([path], ctx.work)[path]
    ok = False
    detail = out[-800:]
    if rc == 0:
        vals = coq.parse_coq_value(out)
        ok = (vals[0] == [] and all(v for v in vals[1:6]) and vals[6] == [] and vals[7] and vals[8])
        detail = repr(vals)
    ctx.obligation('negative-control:model-check-detects-corrupted-observations', ok, detail)


def correspondence(ctx):
    base = ctx.seed * 1000003 % (2 ** 31)
    n_static = 300 if ctx.quick else 4000
    per_kind = 14 if ctx.quick else 300
    jobs = [('static', base + i) for i in range(n_static)]
    for ki, kind in enumerate(STRICT_KINDS + TRIGGER_KINDS):
        k = per_kind if kind in STRICT_KINDS else max(4, per_kind // 4)
        jobs += [(kind, base + 100000 * (ki + 1) + i, ctx.work) for i in range(k)]
    ctx.extra['rule'] = (
        'static cases = random old/new class pairs built by exec of generated source (1-4 versioned replicated methods per class, '
        'object + 2-3 consumers, two consumers of one class in about half, versions 0..13 incl. two-digit ones, names chosen so that '
        'the _v<ver> suffix decides the order, duplicates, new code = appended / interleaved / subclass); every version 0..max+1 is '
        'applied through a VERSION entry and every (owner, name) is queried and called; non-trivial = new code adds methods to an old '
        'code with >= 2 methods.  Scenarios = 2-3 real SyncObj nodes in harness.sim, some running the old and some the new code: calls, '
        'setCodeVersion (valid, too high, too low, issued on old-code nodes), kill/restart with upgraded code, compaction, restart from a '
        'dump file / journal file, snapshot install on a lagging node; strict stream = ' + ', '.join(STRICT_KINDS) +
        ' (every monitor record is a violation); trigger stream = ' + ', '.join(TRIGGER_KINDS) +
        ' (records are attributed to KF-C17-2 only if its trigger occurred); non-trivial scenario = a version switch was '
        'queued and at least 4 calls were made')
    t0 = time.time()
    results = run_jobs(jobs)
    ctx.note('implementation runs done (%d static pairs, %d scenarios) in %.1fs' % (
        n_static, len(jobs) - n_static, time.time() - t0))
    statics = [r for r in results if r['kind'] == 'static']
    traces = [r for r in results if r['kind'] != 'static']
    evaluate(ctx, statics, 'static', 30)
    ctx.note('static cases evaluated by the model')
    evaluate(ctx, traces, 'trace', 10)
    ctx.note('traces evaluated by the model')
    negative_control(ctx)
    ctx.note('negative control done')
    report(ctx, results)
    ctx.monitor['traces'] = len(traces)
    ctx.monitor['static_pairs'] = len(statics)
    ctx.monitor['strict_stream_scenarios'] = sum(1 for r in traces if r['kind'] in STRICT_KINDS)
    ctx.monitor['trigger_stream_scenarios'] = sum(1 for r in traces if r['kind'] in TRIGGER_KINDS)
    ctx.monitor['exceptions_escaping_handlers_strict'] = sum(r.get('tick_exc', 0) for r in traces if r['kind'] in STRICT_KINDS)
    ctx.monitor['wrong_version_errors_logged'] = sum(r.get('errors_logged', 0) for r in traces)
    for r in results:
        if 'crash' not in r and r['kind'] == 'static' and r['meta']['n_methods_new'] > r['meta']['n_methods_old']:
            ctx.samples.append({'case_seed': r['seed'], 'spec': r['spec'], 'ids_old': r['ids_old'], 'ids_new': r['ids_new']})
            break
    for r in traces[:2]:
        if 'crash' not in r:
            ctx.samples.append({'case_seed': r['seed'], 'kind': r['kind'], 'final': r['final'], 'stats': r['stats']})
    ctx.trusted += [
        'data handed to the model by the harness: the class shapes read off the generated source, the committed log (entry order is '
        'decided by Raft, not modelled here) and the commit index seen by each __applyLogEntries',
        'naming discipline assumed by the model: no replicated method is called <x>_v<digits>; versions are non-negative',
        'modelled, not verified: dir()/getattr discovery of the <name>_v<ver> attributes (the shape is the declaration list), '
        'pickle of commands and dumps, callbacks of commands waiting for commit (popped before a wrong-version entry raises: C02)',
    ]
    ctx._c17_results = results


# ------------------------------------------------------------------------------------------------
# known findings / regression witnesses
# ------------------------------------------------------------------------------------------------

D_SPEC = {'classes': {'0': {'old': [['op', 0]], 'added': [['op', 1]]}, '1': {'old': [['a', 0]], 'added': [['a', 1]]}},
          'consumers': [1, 1], 'variant': 'append', 'order_seed': 1}


def witness_d2():
    """a (new code): op(x1), setCodeVersion(1), op(x2), op(x3); b runs the old code.
    Before the fix b's history was x1,x2,x3,x3."""
    c = V.Cluster(D_SPEC, {1: 1, 2: 0}, rnd_order=[1, 2])
    try:
        c.settle()
        c.call(1, 0, 'op')
        c.settle()
        c.setver(1, 1)
        c.settle()
        c.call(1, 0, 'op')
        c.call(1, 0, 'op')
        c.settle()
        for _ in range(6):
            c.round()
        V.monitor(c)
        hb = [tuple(e) for e in c.obj(2).ghist]
        ha = [tuple(e) for e in c.obj(1).ghist]
        ok = (hb == [(0, 'op', 0, 1)] and ha == [(0, 'op', 0, 1), (0, 'op', 1, 2), (0, 'op', 1, 3)]
              and c.obj(2)._SyncObj__raftLastApplied == 3 and not c.problems and not c.tick_exc)
        return ok, {'history_a': ha, 'history_b': hb, 'lastApplied_b': c.obj(2)._SyncObj__raftLastApplied,
                    'problems': c.problems, 'exceptions': c.tick_exc[:3]}
    finally:
        c.finish()


def witness_d3(workdir):
    """single node, dump file: setCodeVersion(1), call, compaction, restart: getCodeVersion() == 1
    and the next call runs v1.  Before the fix the name table was reset to version 0."""
    os.makedirs(workdir, exist_ok=True)
    c = V.Cluster(D_SPEC, {1: 1}, cfg={'dump': 'file'}, workdir=workdir)
    try:
        c.settle()
        c.setver(1, 1)
        c.settle()
        c.call(1, 0, 'op')
        c.settle()
        c.compact(1)
        c.settle()
        c.kill(1)
        c.restart(1)
        c.settle()
        ver = c.obj(1).getCodeVersion()
        c.call(1, 0, 'op')
        c.call(1, 2, 'a')
        c.settle()
        V.monitor(c)
        h = [tuple(e) for e in c.obj(1).ghist]
        ok = (ver == 1 and h == [(0, 'op', 1, 1), (0, 'op', 1, 2), (2, 'a', 1, 3)] and not c.problems
              and c.stats.get('dump_restarts') == 1)
        return ok, {'getCodeVersion_after_restart': ver, 'history': h, 'problems': c.problems, 'stats': c.stats}
    finally:
        c.finish()
        shutil.rmtree(workdir, ignore_errors=True)


def witness_lacking_snapshot():
    """FX-C17-3 (fixed): 3 nodes; node 2 (old code, version 0 only) is down while the others switch to
    version 1, call and compact; node 2 restarts with the old code and is offered the snapshot.
    Before the fix it installed it, reported version 1, skipped the entries of methods it does not
    have and its state diverged.  Now it must refuse: version 0, nothing applied, nothing executed;
    once upgraded it installs the snapshot and ends like the others."""
    c = V.Cluster(D_SPEC, {1: 1, 2: 0, 3: 1}, rnd_order=[1, 3, 2])
    try:
        c.settle()
        c.call(1, 0, 'op')
        c.settle()
        c.kill(2)
        c.settle()
        c.setver(1, 1)
        c.settle()
        c.call(1, 0, 'op')
        c.call(3, 1, 'a')
        c.settle()
        c.compact(1)
        c.compact(3)
        c.settle()
        c.restart(2, code=0)
        c.settle()
        o = c.obj(2)
        c.call(1, 0, 'op')               # id of op_v1: unknown to node 2
        c.settle()
        for _ in range(5):
            c.round()
        info = {'own_code_version': V.shape_max(c.shape(2)), 'reported_enabled_version': o.getCodeVersion(),
                'lastApplied_node2': o._SyncObj__raftLastApplied, 'history_node2': [list(e) for e in o.ghist],
                'installed': 2 in c.installed, 'dumps_refused': c.stats.get('dumps_refused', 0),
                'entries_skipped_by_node2': [list(x[1:]) for x in c.skipped if x[0] == 2],
                'exceptions': c.tick_exc[:2]}
        ok = (info['reported_enabled_version'] == 0 and info['lastApplied_node2'] == 1 and not info['history_node2']
              and not info['installed'] and info['dumps_refused'] >= 1 and not c.skipped and not c.tick_exc)
        c.kill(2)
        c.restart(2, code=1)
        c.settle()
        V.monitor(c)
        o = c.obj(2)
        info['after_upgrade'] = {'version': o.getCodeVersion(), 'history_node2': [list(e) for e in o.ghist],
                                 'history_node1': [list(e) for e in c.obj(1).ghist]}
        info['monitor'] = c.problems[:4]
        ok = ok and o.getCodeVersion() == 1 and list(o.ghist) == list(c.obj(1).ghist) and len(o.ghist) == 4 and not c.problems
        return ok, info
    finally:
        c.finish()


def witness_custom_serializer(workdir):
    """KF-C17-2: single node, conf.serializer/deserializer: setCodeVersion(1), call, compaction, restart."""
    os.makedirs(workdir, exist_ok=True)
    c = V.Cluster(D_SPEC, {1: 1}, cfg={'dump': 'file'}, workdir=workdir, custom=True)
    try:
        c.settle()
        c.setver(1, 1)
        c.settle()
        c.call(1, 0, 'op')
        c.settle()
        c.compact(1)
        c.settle()
        c.kill(1)
        c.restart(1)
        c.settle()
        ver = c.obj(1).getCodeVersion()
        la = c.obj(1)._SyncObj__raftLastApplied
        c.call(1, 0, 'op')
        c.settle()
        h = [tuple(e) for e in c.obj(1).ghist]
        return {'getCodeVersion_after_restart': ver, 'lastApplied_after_restart': la, 'history': h,
                'version_entries_left_in_log': sum(1 for e in c.obj(1)._SyncObj__raftLog[:] if V.decode_command(e[0])[0] == 'ver')}
    finally:
        c.finish()
        shutil.rmtree(workdir, ignore_errors=True)


def witness_admin_path(workdir):
    """the admin / utility-message entry point of a version switch (`_setCodeVersion`, what syncobj_admin -set_version
    reaches) refuses what the public call refuses: a version above the node's code, and a version BELOW the enabled one
    - nothing is queued, the enabled version stays, calls keep running the enabled implementation"""
    os.makedirs(workdir, exist_ok=True)
    c = V.Cluster(D_SPEC, {1: 1}, cfg={}, workdir=workdir)
    try:
        c.settle()
        c.setver(1, 1)
        c.settle()
        obj = c.obj(1)
        q = obj._SyncObj__commandsQueue._FastQueue__queue
        answers = []
        outcomes = {}
        for v in (0, 7):
            before = len(q)
            try:
                obj._setCodeVersion([v], lambda res, err, v=v: answers.append((v, err)))
                outcomes[v] = 'accepted' if len(q) > before else 'refused-by-callback'
            except Exception as e:
                outcomes[v] = 'refused: ' + str(e)[:40]
        c.settle()
        ver = obj.getCodeVersion()
        c.call(1, 0, 'op')
        c.settle()
        V.monitor(c)
        h = [tuple(e) for e in obj.ghist]
        ok = (ver == 1 and outcomes[0] != 'accepted' and outcomes[7] != 'accepted' and h[-1:] == [(0, 'op', 1, 1)]
              and not c.problems)
        return ok, {'getCodeVersion_after': ver, 'outcomes': outcomes, 'answers': answers, 'history': h, 'problems': c.problems}
    finally:
        c.finish()
        shutil.rmtree(workdir, ignore_errors=True)


def known(ctx):
    ok, info = witness_admin_path(os.path.join(ctx.work, 'adm'))
    ctx.monitor['admin_path_witness'] = info
    if not ok:
        ctx.violation('C17 monitor on the implementation: a version switch requested through the admin entry point is not refused '
                      'like the public call (lower than the enabled version, or above the code): %r' % (info,),
                      {'kind': 'admin_path'}, found_input=True)
    ok, info = witness_d2()
    ctx.monitor['d2_witness'] = info
    if not ok:
        ctx.violation('node lacking the enabled version does not stop at the version entry (fixed finding FX-C17-1 is back): %r' % (info,),
                      {'kind': 'd2'}, found_input=True)
    ok, info = witness_d3(os.path.join(ctx.work, 'd3'))
    ctx.monitor['d3_witness'] = info
    if not ok:
        ctx.violation('code version / name table not restored after loading a dump (fixed finding FX-C17-2 is back): %r' % (info,),
                      {'kind': 'd3'}, found_input=True)
    ok, info = witness_lacking_snapshot()
    ctx.monitor['fx_c17_3_witness'] = info
    if not ok:
        ctx.violation('node lacking the enabled version installs a snapshot that has it enabled / does not stop at a method id it '
                      'lacks (fixed finding FX-C17-3 is back): %r' % (info,), {'kind': 'fx3'}, found_input=True)
    known_f = dict((f['id'], f) for f in ctx.known_for())
    w2 = witness_custom_serializer(os.path.join(ctx.work, 'kf2'))
    ctx.monitor['kf_c17_2_witness'] = w2
    still2 = (w2['getCodeVersion_after_restart'] == 0 and w2['history'][-1:] == [(0, 'op', 0, 2)])
    what = ('with conf.serializer/deserializer the enabled code version is not part of the dump: after compaction and '
            'restart getCodeVersion() is 0 and calls run the version-0 implementation')
    if still2:
        if F_CUSTOM in known_f:
            ctx.known_finding(known_f[F_CUSTOM])
        else:
            ctx.monitor.setdefault('candidate_findings_not_yet_listed', []).append({'id': F_CUSTOM, 'what': what})
            ctx.note('candidate finding %s (not listed in known_findings.json, reported in the evidence only): %s' % (F_CUSTOM, what))
    else:
        # the code no longer has the defect the model still contains
        ctx.obligation('known-finding-still-reproduces:' + F_CUSTOM, False,
                       'witness of %s passes now; the model (take_dump true) still has the behaviour' % F_CUSTOM)


# ------------------------------------------------------------------------------------------------
# search / replay
# ------------------------------------------------------------------------------------------------

def search(ctx):
    base = (ctx.seed * 7919 + 17) % (2 ** 31)
    per_kind = 40 if ctx.quick else 300
    jobs = [('static', base + i) for i in range(200 if ctx.quick else 2000)]
    for ki, kind in enumerate(STRICT_KINDS):
        jobs += [(kind, base + 100000 * (ki + 1) + i, ctx.work) for i in range(per_kind)]
    results = run_jobs(jobs)
    ctx.monitor['search_cases'] = len(jobs)
    return report(ctx, results) > 0


def replay(ctx, data):
    kind = data.get('kind')
    if kind == 'static':
        r = static_case(data['case_seed'])
        print('problems:', r['problems'])
        bad = bool(r['problems'])
    elif kind in STRICT_KINDS + TRIGGER_KINDS:
        r = scenario_case((kind, data['case_seed'], ctx.work))
        print('problems:', r['problems'])
        print('final:', r['final'])
        bad = bool(r['problems'])
    elif kind == 'd2':
        ok, info = witness_d2()
        print(info)
        bad = not ok
    elif kind == 'd3':
        ok, info = witness_d3(os.path.join(ctx.work, 'd3'))
        print(info)
        bad = not ok
    elif kind == 'fx3':
        ok, info = witness_lacking_snapshot()
        print(info)
        bad = not ok
    else:
        print('nothing to replay for', kind)
        return 0
    if bad:
        print('VIOLATION property=C17 replay=(replayed)')
        return 1
    return 0
