"""C04 - decided on the shared Raft run (props/raftcommon.py): theorems in coq/Props/C04.v over the L1 model
coq/Raft, correspondence of that model with the implementation, runtime monitor records of C04."""
from props import raftcommon as R

PROPS = ('C04',)
correspondence, search, replay = R.standard_module('C04', PROPS)
