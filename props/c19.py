"""C19 - thread-safe calls (PARTIAL by design).  Model: coq/Queue/Model.v; theorems: coq/Props/C19.v.

Correspondence: deterministic replay of schedules of atomic actions (lock-protected bodies of
FastQueue.put_nowait/get_nowait, callback firing, Event.set/wait) against the REAL FastQueue /
SyncObj._applyCommand / AsyncResult / `replicated` wrapper on a real one-node SyncObj
(harness/queue_threads.py) vs `Queue.Model.check_case` evaluated with vm_compute.
Monitor (on the implementation): every call applied exactly once or reported failed, each callback
fired once, each sync call got the result of its own command / the failure reason / 'Timeout'.
Search aid only: a real multi-thread stress run against the auto-tick thread.
"""
import json
import os
import subprocess
import sys
import time

from vlib import coq
from vlib.ctx import impl_env
from harness import queue_threads as Q

COMPONENT = 'Queue/Model.v <-> pysyncobj/fast_queue.py + syncobj.py(_applyCommand, AsyncResult, replicated)'
HEADER = ('From Coq Require Import NArith List.\nFrom PSO Require Import Queue.Model.\n'
          'Import ListNotations.\nLocal Open Scope N_scope.\n')


def _case_worker(seeds):
    S = Q.load_impl()
    out = []
    for s in seeds:
        try:
            r = Q.CaseRun(S, s).run()
        except Exception:
            import traceback
            out.append({'seed': s, 'crash': traceback.format_exc()})
            continue
        defs, call = Q.v_case('c%d' % s, r)
        kinds = [k for prog in r.progs for _, k, _ in prog]
        out.append({'seed': s, 'meta': r.meta, 'problems': r.problems, 'defs': defs, 'call': call,
                    'groups': len(r.groups), 'steps': sum(len(a) for a, _ in r.groups),
                    'threaded': sum(1 for t in r.threaded if t),
                    'n_sync': kinds.count(Q.KSYNC), 'n_async': kinds.count(Q.KASYNC), 'n_none': kinds.count(Q.KNONE),
                    'timeouts': sum(1 for o in r.raw_outcomes if o[2] == 'timeout'),
                    'full_raises': sum(1 for o in r.raw_outcomes if o[2] == 'raise')})
    return out


def run_cases(ctx, seeds, label):
    import multiprocessing as mp
    nproc = 16
    chunks = [seeds[i::nproc] for i in range(nproc) if seeds[i::nproc]]
    with mp.get_context('fork').Pool(len(chunks)) as pool:
        from vlib import cov
        results = [r for part in cov.pmap(ctx, pool, _case_worker, chunks) for r in part]
    results.sort(key=lambda r: r['seed'])
    good = [r for r in results if 'crash' not in r]
    per_file = 60
    files, groups = [], []
    for i in range(0, len(good), per_file):
        grp = good[i:i + per_file]
        path = os.path.join(ctx.work, 'cases_%s_%d.v' % (label, i // per_file))
        with open(path, 'w') as f:
            f.write(HEADER)
            for r in grp:
                f.write(r['defs'])
            f.write('Eval vm_compute in [%s].\n' % ';\n '.join(r['call'] for r in grp))
        files.append(path)
        groups.append(grp)
    res = coq.coqc_eval(files, ctx.work)
    st = ctx.corr(COMPONENT)
    for path, grp in zip(files, groups):
        rc, out, dt = res[path]
        if rc != 0:
            st['divergences'] += 1
            st.setdefault('first_divergences', []).append({'file': path, 'coqc_failed': out[-1500:]})
            continue
        vals = coq.parse_coq_value(out)
        for r, v in zip(grp, vals):
            st['cases'] += 1
            st['steps'] += r['steps']
            if v is not None:
                st['divergences'] += 1
                r['divergence'] = v
                if len(st.setdefault('first_divergences', [])) < 5:
                    st['first_divergences'].append({'seed': r['seed'], 'group': v,
                                                    'label': r['meta']['labels'][v] if v < len(r['meta']['labels']) else None,
                                                    'meta': {k: r['meta'][k] for k in ('nthreads', 'max_size', 'batch', 'progs')}})
            # non-trivial: at least two threads really put something, and the tick thread ran between puts
            labels = r['meta']['labels']
            putters = set(l.split()[1] for l in labels if l.startswith('put '))
            if len(putters) >= 2 and r['meta']['accepted'] >= 2:
                st['nontrivial'] += 1
    for r in results:
        if 'crash' in r:
            st['divergences'] += 1
            st.setdefault('first_divergences', []).append({'seed': r['seed'], 'harness_crash': r['crash'][-1500:]})
            continue
        m = r['meta']
        ctx.count(COMPONENT, 'threads_%d' % m['nthreads'])
        ctx.count(COMPONENT, 'maxSize_%d' % m['max_size'])
        ctx.count(COMPONENT, 'appendEntriesUseBatch_%s' % m['batch'])
        ctx.count(COMPONENT, 'real_caller_threads', r['threaded'])
        ctx.count(COMPONENT, 'calls_sync', r['n_sync'])
        ctx.count(COMPONENT, 'calls_callback', r['n_async'])
        ctx.count(COMPONENT, 'calls_fire_and_forget', r['n_none'])
        ctx.count(COMPONENT, 'puts_accepted', m['accepted'])
        ctx.count(COMPONENT, 'puts_queue_full', m['rejected'])
        ctx.count(COMPONENT, 'sync_timeouts', r['timeouts'])
        ctx.count(COMPONENT, 'sync_raised_queue_full', r['full_raises'])
        ctx.count(COMPONENT, 'cases_with_queue_full' if m['rejected'] else 'cases_without_queue_full')
        for l in m['labels']:
            ctx.count(COMPONENT, 'action_' + l.split()[0])
    return results


def _stall_confirmed(seed):
    """A case that ended because a real thread did not come back within the driver's wall-clock wait is run again, twice:
    the schedule of a case is deterministic, so a deadlock shows every time, a machine that stalled for seconds does not."""
    S = Q.load_impl()
    for _ in range(2):
        try:
            r = Q.CaseRun(S, seed).run()
        except Exception:
            return True
        if not r.meta.get('aborted'):
            return False
    return True


def report_problems(ctx, results):
    n = 0
    for r in results:
        if r.get('problems'):
            if r.get('meta', {}).get('aborted') and not _stall_confirmed(r['seed']):
                ctx.monitor['wall_clock_stalls_not_reproduced'] = ctx.monitor.get('wall_clock_stalls_not_reproduced', 0) + 1
                continue
            n += 1
            if n <= 3:
                ctx.violation('C19 monitor on the implementation: ' + r['problems'][0],
                              {'kind': 'schedule_case', 'case_seed': r['seed'], 'problems': r['problems'],
                               'meta': r['meta']}, found_input=True)
    ctx.monitor['monitor_records'] = ctx.monitor.get('monitor_records', 0) + n
    return n


# ---- stress (search aid) ---------------------------------------------------------------------
def run_stress(seed, nth, ncalls, max_size, batch, budget):
    cmd = [sys.executable, '-m', 'harness.queue_threads', 'stress', str(seed), str(nth), str(ncalls),
           str(max_size), '1' if batch else '0', str(budget)]
    try:
        p = subprocess.run(cmd, cwd=coq.VERIF, env=impl_env(), stdout=subprocess.PIPE, stderr=subprocess.PIPE,
                           text=True, timeout=budget + 30)
    except subprocess.TimeoutExpired:
        return {'problems': ['stress subprocess hung'], 'calls': 0, 'applied': 0, 'queue_full': 0, 'timeouts': 0}
    if p.returncode != 0:
        return {'problems': ['stress subprocess failed: ' + p.stderr[-500:]], 'calls': 0, 'applied': 0,
                'queue_full': 0, 'timeouts': 0}
    return json.loads(p.stdout.strip().split('\n')[-1])


def stress(ctx):
    """SEARCH AID ONLY (not part of the claim): real threads against the real auto-tick thread; GIL
    scheduling decides the interleaving, so a failure counts only when it shows up twice."""
    from concurrent.futures import ThreadPoolExecutor
    confs = [(4, 1500, 1, True), (8, 800, 0, True), (6, 1000, 3, False), (3, 2000, 2, True),
             (8, 600, 50, False), (5, 1000, 8, True), (2, 2500, 0, False), (16, 300, 4, False)]
    budget = 8.0
    wall = 10.0 if ctx.quick else 60.0
    t0 = time.time()
    jobs, res = [], []
    rnd = 0
    while time.time() - t0 < wall:
        batch_jobs = [(ctx.seed + 1000 * rnd + 17 * k, nth, nc, ms, b, budget) for k, (nth, nc, ms, b) in enumerate(confs)]
        with ThreadPoolExecutor(max_workers=8) as ex:
            res += list(ex.map(lambda j: run_stress(*j), batch_jobs))
        jobs += batch_jobs
        rnd += 1
    summary = {'label': 'SEARCH AID ONLY - real threads x auto-tick thread, nondeterministic; not part of the proof claim',
               'runs': len(jobs), 'calls': sum(r['calls'] for r in res), 'applied': sum(r['applied'] for r in res),
               'queue_full_reports': sum(r['queue_full'] for r in res), 'timeouts': sum(r['timeouts'] for r in res),
               'configs (threads, calls per thread, commandsQueueSize, appendEntriesUseBatch)': [list(c) for c in confs], 'failing_runs': 0, 'reproduced': 0,
               'not_drained_within_budget (liveness part of the monitor skipped)': sum(1 for r in res if not r.get('drained', True))}
    for j, r in zip(jobs, res):
        if r['problems']:
            summary['failing_runs'] += 1
            again = [run_stress(*j) for _ in range(2)]
            rep = [a for a in again if a['problems']]
            if rep:
                summary['reproduced'] += 1
                ctx.violation('C19 stress run (real threads, search aid) failed and failed again on re-run: ' + r['problems'][0],
                              {'kind': 'stress', 'job': list(j), 'problems': r['problems'][:10],
                               'rerun_problems': rep[0]['problems'][:10]}, found_input=True)
            else:
                summary.setdefault('unreproduced', []).append({'job': list(j), 'problems': r['problems'][:5]})
    summary['wall_s'] = round(time.time() - t0, 1)
    ctx.monitor['stress_search_aid'] = summary


# ---- PipeNotifier examination ------------------------------------------------------------------
PIPE_PROBE = r'''
import sys, json, time
sys.path.insert(0, %r)
import pysyncobj.syncobj as S
from harness import queue_threads as Q
from pysyncobj import SyncObjConf
Obj = Q.make_class(S)
o = Obj(SyncObjConf(autoTick=False, appendEntriesUseBatch=False))
t0 = time.time()
while not o._isLeader() and time.time() - t0 < 10:
    o.doTick(0.05)
log = []
N_CALLS = 65537            # one more than the pipe holds (65536 one-byte notifications)
n, exc = 0, None
try:
    for i in range(N_CALLS):
        o.add(i, callback=lambda r, e, i=i: log.append((i, r, e)))
        n += 1
except BaseException as e:
    exc = e
qlen = len(o._SyncObj__commandsQueue._FastQueue__queue)
t0 = time.time()
while len(o.applied) < qlen and time.time() - t0 < 60:
    o.doTick(0)
print(json.dumps({'calls': N_CALLS, 'calls_returned_normally': n, 'exception': repr(exc) if exc is not None else None,
                  'queued_before_ticking': qlen, 'applied_after_ticking': len(o.applied),
                  'applied_in_order_once': o.applied == list(range(qlen)),
                  'callbacks_fired': len(log), 'callbacks_all_success': all(e == 0 for _, _, e in log),
                  'callbacks_once_each': sorted(x[0] for x in log) == list(range(len(log))),
                  'last_call_applied': (N_CALLS - 1) in o.applied}))
'''


def pipe_probe(ctx):
    p = subprocess.run([sys.executable, '-c', PIPE_PROBE % Q.REPO], cwd=coq.VERIF, env=impl_env(),
                       stdout=subprocess.PIPE, stderr=subprocess.PIPE, text=True, timeout=200)
    if p.returncode != 0:
        return {'error': p.stderr[-800:]}
    return json.loads(p.stdout.strip().split('\n')[-1])


def atomicity(ctx):
    """the model's atomic put/get, checked on the implementation: every interleaving of the deque and lock
    operations of the real FastQueue for small programs of 2-3 threads must produce the outcome of an atomic order"""
    import subprocess
    from vlib.ctx import impl_env
    code = ('import json,sys; sys.path.insert(0, %r); from harness import queue_atomic as A; '
            'p, n = A.check_all(%d); print(json.dumps({"problems": p[:5], "schedules": n}))'
            % (coq.VERIF, 4000 if ctx.quick else 40000))
    try:
        out = subprocess.run(['/venv/bin/python', '-c', code], stdout=subprocess.PIPE, stderr=subprocess.PIPE, text=True,
                             env=impl_env(), timeout=1200)
        res = json.loads(out.stdout.strip().split('\n')[-1])
    except Exception as e:
        ctx.obligation('atomicity-explorer-ran', False, repr(e) + (out.stderr[-600:] if 'out' in dir() else ''))
        return
    ctx.monitor['fastqueue_interleavings_explored'] = res['schedules']
    for p_ in res['problems'][:2]:
        ctx.violation('C19 monitor on the implementation: FastQueue is not atomic: with maxSize %r, initial content %r and threads %r '
                      'the interleaving %r ends with results %r and content %r - %s'
                      % (p_['max_size'], p_['prefill'], p_['programs'], p_['schedule'], p_.get('results'), p_.get('final'), p_['what']),
                      {'kind': 'fastqueue_interleaving', 'case': p_}, found_input=True)


# ---- re-entrant callbacks --------------------------------------------------------------------------
REENTRANT_PROBE = r'''
import sys, json, time
sys.path.insert(0, %r)
import pysyncobj.syncobj as S
from harness import queue_threads as Q
from pysyncobj import SyncObjConf
out = []
for qsize, use_batch in ((1, True), (1, False), (2, True), (3, False)):
    Obj = Q.make_class(S)
    o = Obj(SyncObjConf(autoTick=False, commandsQueueSize=qsize, appendEntriesUseBatch=use_batch))
    t0 = time.time()
    while not o._isLeader() and time.time() - t0 < 10:
        o.doTick(0.05)
    log = []
    def cb(tag, o=o, log=log):
        def f(r, e):
            log.append((tag, r, e))
            if tag in ('A', 'B') and e is not None and e != 0:
                # a user callback that reacts to a failure by submitting again (a call from inside a callback)
                o.add(100 + len(log), callback=cb(tag + '2'))
        return f
    for i in range(qsize + 1):
        o.add(i, callback=cb('fill%%d' %% i))      # fills the queue
    o.add(50, callback=cb('A'))                   # rejected: QUEUE_FULL; its callback submits again
    o.add(51, callback=cb('B'))
    t0 = time.time()
    while time.time() - t0 < 1.5:
        o.doTick(0.01)
    tags = [t for t, _, _ in log]
    expect = ['fill%%d' %% i for i in range(qsize + 1)] + ['A', 'B', 'A2', 'B2']
    out.append({'commandsQueueSize': qsize, 'appendEntriesUseBatch': use_batch,
                'never_fired': [t for t in expect if tags.count(t) == 0], 'fired_twice': [t for t in expect if tags.count(t) > 1],
                'applied': list(o.applied), 'callbacks': [[t, e] for t, _, e in log]})
    o.destroy()
print(json.dumps(out))
'''


def reentrant_probe(ctx):
    """every call made from inside a callback (here: a re-submission from the QUEUE_FULL callback of a rejected call) is
    itself applied or reported exactly once - deterministic, single caller thread, real SyncObj with real sockets"""
    p = subprocess.run([sys.executable, '-c', REENTRANT_PROBE % Q.REPO], cwd=coq.VERIF, env=impl_env(),
                       stdout=subprocess.PIPE, stderr=subprocess.PIPE, text=True, timeout=200)
    if p.returncode != 0:
        ctx.monitor['reentrant_probe'] = {'error': p.stderr[-800:]}
        ctx.obligation('reentrant-callback-probe-ran', False, p.stderr[-800:])
        return
    res = json.loads(p.stdout.strip().split('\n')[-1])
    ctx.monitor['reentrant_probe'] = res
    for r in res:
        if r['never_fired'] or r['fired_twice']:
            ctx.violation('C19 monitor on the implementation: calls made from inside a QUEUE_FULL callback (commandsQueueSize %d): '
                          'callbacks %r never fired, %r fired twice; applied %r' % (r['commandsQueueSize'], r['never_fired'],
                                                                                  r['fired_twice'], r['applied']),
                          {'kind': 'reentrant_probe', 'result': r}, found_input=True)
            break


def correspondence(ctx):
    reentrant_probe(ctx)
    # "each callback fires once", "applied exactly once or reported as failed": the dispatcher side of it is the callback
    # contract of the Raft core - the at-most-once / fate records of the shared Raft run count here too
    from props import raftcommon as R
    R.account(ctx, R.raft_run(ctx), ('C02', 'C19'))
    atomicity(ctx)
    n = 1000 if ctx.quick else 12000
    base = ctx.seed * 1000003 % (2 ** 31)
    seeds = [base + i for i in range(n)]
    ctx.extra['rule'] = ('cases = 2-4 caller threads with 1-4 calls each (fire-and-forget / callback / sync, 20% of the sync '
                         'calls with a timeout the schedule lets expire), commandsQueueSize 0-5, appendEntriesUseBatch on/off; '
                         'schedule chosen on line among the enabled atomic actions (put, QUEUE_FULL callback, wake-up, timeout, '
                         'blocked wait, get_nowait xN, tick = apply all pending + get xN); threads with a sync call are real '
                         'threads forced into the schedule by job queues; non-trivial = at least two threads put and at least '
                         'two puts were accepted; distinct by seed')
    all_results = []
    step = 2000
    for i in range(0, len(seeds), step):
        all_results += run_cases(ctx, seeds[i:i + step], 'b%d' % (i // step))
    report_problems(ctx, all_results)
    ctx.monitor['traces'] = len(all_results)
    ctx.monitor['monitor'] = ('every call applied exactly once or reported failed (never both), each callback fired once, '
                              'each sync call returned the result of its own command or raised QUEUE_FULL / Timeout')
    good = [x for x in all_results if 'crash' not in x]
    if good:
        r = next((x for x in good if x['meta']['rejected'] and x['n_sync']), good[0])
        ctx.samples.append({'case_seed': r['seed'], 'nthreads': r['meta']['nthreads'], 'max_size': r['meta']['max_size'],
                            'progs': r['meta']['progs'], 'schedule': r['meta']['labels'][:60],
                            'outcomes': r['meta']['outcomes']})
    ctx.note('stress run (search aid)')
    stress(ctx)
    ctx.partial += [
        'C19 is claimed PARTIAL: the theorems are about an interleaving model whose atomic steps are the lock-protected '
        'bodies (FastQueue.put_nowait/get_nowait under its Lock, Event.set/wait) and single attribute writes of '
        'AsyncResult.onResult; interleavings at bytecode granularity outside those steps cannot be exhibited by the model',
        'pipe capacity: PipeNotifier (appendEntriesUseBatch=False) is not modelled; the one defect found there '
        '(FX-C19-1, notify on a full pipe raised out of the replicated call) is fixed and replayed as a regression '
        'witness on the implementation on every run (monitor.pipe_probe_fx_c19_1)',
        '"applied exactly once cluster-wide" needs C02 (the Raft dispatcher); here the dispatcher is abstract: single '
        'leader, completion in dequeue order by a completion function (Section variable), proved exactly-once for that '
        'dispatcher (C19_completed_once_in_order, C19_accepted_completes)',
        'liveness under the real scheduler (GIL fairness, the auto-tick thread really running) is not claimed; '
        'C19_accepted_completes only shows that the tick thread alone can always finish everything accepted',
    ]
    ctx.trusted += [
        'oracle: threading.Lock (mutual exclusion of the FastQueue bodies), threading.Event (wait returns True iff set, '
        'set happens-before the return of wait), collections.deque append/popleft, the GIL making single attribute '
        'stores and list.append atomic',
        'modelled, not verified: the dispatcher between get_nowait and the callback is the abstract single-leader '
        'apply-in-order function; the Raft path (commit, leader change, DISCARDED/NOT_LEADER...) belongs to C02',
        'not modelled: PipeNotifier / pipe capacity, poller, GIL scheduling, bytecode-level races outside the lock, '
        'callbacks of forwarded (tuple) requests, commandsWaitLeader before a leader exists',
        'harness instrumentation: instance-level wrappers around _applyCommand (reports "put returned") and '
        '_checkCommandsToApply (arms the patched clock that cuts the dequeue loop after n iterations); '
        'pysyncobj.syncobj.monotonicTime is patched; a fake Transport that sends nothing',
    ]
    ctx._c19_results = all_results


def known(ctx):
    """FX-C19-1 (fixed in /repo 0b39588): regression witness.  appendEntriesUseBatch=False, 65537 calls with
    callbacks without ticking (one more notification than the pipe holds): no call may raise, and after ticking
    every call is applied once, in order, with one SUCCESS callback each.  Before the fix call 65536 raised
    BlockingIOError after its command had been queued (and the command was applied anyway)."""
    t0 = time.time()
    try:
        res = pipe_probe(ctx)
    except Exception as e:
        res = {'error': repr(e)}
    res['wall_s'] = round(time.time() - t0, 1)
    ok = ('error' not in res and res.get('exception') is None
          and res.get('calls_returned_normally') == res.get('calls') == res.get('queued_before_ticking')
          and res.get('applied_after_ticking') == res.get('calls') and res.get('applied_in_order_once')
          and res.get('callbacks_fired') == res.get('calls') and res.get('callbacks_all_success')
          and res.get('callbacks_once_each'))
    res['passes'] = bool(ok)
    res['what'] = 'regression witness of FX-C19-1: a full notification pipe must not make a replicated call raise'
    ctx.monitor['pipe_probe_fx_c19_1'] = res
    if not ok:
        if res.get('exception') and 'BlockingIOError' in res['exception']:
            what = ('replicated call %s raised %s on a full notification pipe after its command was queued '
                    '(fixed finding FX-C19-1 is back); command applied afterwards: %s'
                    % (res.get('calls_returned_normally'), res['exception'], res.get('last_call_applied')))
        else:
            what = 'FX-C19-1 regression witness failed: %r' % ({k: v for k, v in res.items() if k != 'what'},)
        ctx.violation(what, {'kind': 'pipe_probe', 'result': res}, found_input=True)


def search(ctx):
    """More schedules on the implementation under the monitor only."""
    S = Q.load_impl()
    base = (ctx.seed * 7919 + 19) % (2 ** 31)
    n = 400 if ctx.quick else 4000
    hits = 0
    for i in range(n):
        try:
            r = Q.CaseRun(S, base + i).run()
        except Exception:
            continue
        if r.problems:
            if r.meta.get('aborted') and not _stall_confirmed(base + i):
                ctx.monitor['wall_clock_stalls_not_reproduced'] = ctx.monitor.get('wall_clock_stalls_not_reproduced', 0) + 1
                continue
            ctx.violation('C19 monitor on the implementation: ' + r.problems[0],
                          {'kind': 'schedule_case', 'case_seed': base + i, 'problems': r.problems, 'meta': r.meta},
                          found_input=True)
            hits += 1
            if hits >= 2:
                break
    ctx.monitor['search_cases'] = n
    return hits > 0


def replay(ctx, data):
    kind = data.get('kind')
    if kind == 'schedule_case':
        S = Q.load_impl()
        r = Q.CaseRun(S, data['case_seed']).run()
        for l in r.labels:
            print('  ', l)
        print('problems:', r.problems)
        if r.problems:
            print('VIOLATION property=C19 replay=(replayed)')
            return 1
        return 0
    if kind == 'stress':
        res = [run_stress(*data['job']) for _ in range(3)]
        bad = [x for x in res if x['problems']]
        print('failing re-runs: %d of 3' % len(bad))
        for x in bad[:1]:
            print(x['problems'][:10])
        if bad:
            print('VIOLATION property=C19 replay=(replayed)')
            return 1
        return 0
    if kind == 'pipe_probe':
        known(ctx)
        print(ctx.monitor.get('pipe_probe_fx_c19_1'))
        return 1 if ctx.violations else 0
    print('nothing to replay for', kind)
    return 0
