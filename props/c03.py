"""C03 - decided on the shared Raft run (props/raftcommon.py): theorems in coq/Props/C03.v over the L1 model
coq/Raft, correspondence of that model with the implementation, runtime monitor records of C03."""
from props import raftcommon as R

PROPS = ('C03',)
# two leaders of one term show first as two different entries under one (position, term): a C04 log-matching record
correspondence, search, replay = R.standard_module('C03', PROPS, {'scenario:role_hook_raises_on_step_down': ('C04',)})
