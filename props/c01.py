"""C01 - decided on the shared Raft run (props/raftcommon.py): theorems in coq/Props/C01.v over the L1 model
coq/Raft, correspondence of that model with the implementation, runtime monitor records of C01."""
from props import raftcommon as R

PROPS = ('C01',)
correspondence, search, replay = R.standard_module('C01', PROPS)
