"""C06 - decided on the shared Raft run (props/raftcommon.py): theorems in coq/Props/C06.v over the L1 model
coq/Raft, correspondence of that model with the implementation, runtime monitor records of C06."""
from props import raftcommon as R

PROPS = ('C06',)
# a wrong command or a wrong object state on a node that was restarted from its journal is a C06 violation as well
# (records that follow a known finding's trigger are attributed by the monitor before they get here)
correspondence, search, replay = R.standard_module('C06', PROPS, {'journal_trace': ('C01', 'C02'), 'killpoint_trace': ('C01', 'C02'),
                                                                  'scenario:meta_ahead_restart': ('C01', 'C02'),
                                                                  'scenario:d10': ('C01', 'C02')})
