"""C06 - decided on the shared Raft run (props/raftcommon.py): theorems in coq/Props/C06.v over the L1 model
coq/Raft, correspondence of that model with the implementation, runtime monitor records of C06."""
from props import raftcommon as R

PROPS = ('C06',)
correspondence, search, replay = R.standard_module('C06', PROPS)
