"""C15 - batteries behave like the Python containers they mimic, on every replica.

Model: coq/Batteries/Gen.v (GENERATED from /repo/pysyncobj/batteries.py by translate/py2v.py when this
module is imported, i.e. before the driver builds the proofs), builtin semantics coq/Batteries/PySpec.v,
reference specs coq/Batteries/Spec.v; theorems coq/Props/C15.v.

Correspondence (a) Gen.v  <-> the real classes called with _doApply=True      (check_case, vm_compute)
               (b) Spec.v <-> the CPython builtins (int/list/dict/set/deque/sorted multiset) (check_spec)
Monitor: real battery vs real builtin on the same operations (no model); and a second replica restored from the
pickled _serialize() data at a random point of the sequence vs the original (a ReplSet.pop that differs on equal
contents is known finding D14 and is counted, not reported as a violation).
"""
import json
import os
import pickle
import random
import time

from vlib import coq
from harness import batteries as H

COMP_A = 'Batteries/Gen.v (generated) <-> pysyncobj/batteries.py via _doApply=True'
COMP_B = 'Batteries/Spec.v + PySpec.v <-> CPython builtins (int, list, dict, set, deque, sorted multiset)'
HEADER = ('From Coq Require Import ZArith NArith String List.\n'
          'From PSO Require Import Batteries.PySpec Batteries.Gen Batteries.Spec.\n'
          'Import ListNotations.\nOpen Scope Z_scope.\n')

# the translator runs when the check module is imported: Gen.v must be current before `make`
GEN_OK, GEN_MSG, TABLES = H.regenerate()


def _tables(B):
    return TABLES if TABLES is not None else H.introspect_tables(B)


def case_of_seed(seed, tables):
    rng = random.Random(seed)
    t = tables[seed % len(tables)]
    init_args, ops = H.gen_case(rng, t)
    return t, init_args, ops


def replay_obj(r, seed=None):
    return {'kind': 'case', 'cls': r['cls'], 'case_seed': seed, 'snap_at': r.get('snap_at'),
            'init': [H.enc(a) for a in r['init_args']],
            'ops': [[s[0], [H.enc(a) for a in s[1]]] for s in r['impl_steps']], 'problems': r['problems']}


def _worker(args):
    seeds, tables = args
    B = H.load_impl()
    out = []
    for s in seeds:
        t, init_args, ops = case_of_seed(s, tables)
        rec = {'seed': s, 'cls': t['class'], 'n_ops': len(ops)}
        try:
            snap_at = random.Random(s * 31 + 7).randrange(len(ops) + 1)
            r = H.run_case(B, t, init_args, ops, snap_at)
            rec['problems'] = r['problems']
            rec['d14'] = r['d14']
            rec['replica_steps'] = r['replica_steps']
            rec['replay'] = replay_obj(r, s)
            rec['names'] = [st[0] for st in r['impl_steps']]
            rec['errs'] = [st[3][1] for st in r['impl_steps'] if st[3][0] == 'err']
            rec['defaults'] = sum(1 for st in r['impl_steps']
                                  if len(st[1]) < len(dict((m['name'], m) for m in t['methods'])[st[0]]['params']))
            changes, prev = 0, r['impl_init']
            for st in r['impl_steps']:
                if repr(st[4]) != repr(prev):
                    changes += 1
                prev = st[4]
            rec['changes'] = changes
            rec['lit_gen'] = H.v_case_gen(r)
            rec['lit_spec'] = H.v_case_spec(r)
        except Exception:
            import traceback
            rec['crash'] = traceback.format_exc()
        out.append(rec)
    return out


def run_cases(ctx, seeds, tables, with_model=True):
    import multiprocessing as mp
    nproc = 16
    chunks = [(seeds[i::nproc], tables) for i in range(nproc) if seeds[i::nproc]]
    with mp.get_context('fork').Pool(len(chunks)) as pool:
        from vlib import cov
        results = [r for part in cov.pmap(ctx, pool, _worker, chunks, tag=('compared' if with_model else 'monitored')) for r in part]
    results.sort(key=lambda r: r['seed'])
    sa, sb = ctx.corr(COMP_A), ctx.corr(COMP_B)
    for r in results:
        if 'crash' in r:
            sa['divergences'] += 1
            sa.setdefault('first_divergences', []).append({'seed': r['seed'], 'harness_crash': r['crash'][-1500:]})
    good = [r for r in results if 'crash' not in r]
    if not with_model:
        return results
    per_file = 60
    files, groups = [], []
    for i in range(0, len(good), per_file):
        grp = good[i:i + per_file]
        path = os.path.join(ctx.work, 'cases_%d_%d.v' % (seeds[0] % 100000, i // per_file))
        with open(path, 'w') as f:
            f.write(HEADER)
            f.write('Eval vm_compute in [\n%s\n].\n' % ';\n'.join('%s;\n%s' % (r['lit_gen'], r['lit_spec']) for r in grp))
        files.append(path)
        groups.append(grp)
    res = coq.coqc_eval(files, ctx.work)
    for path, grp in zip(files, groups):
        rc, out, dt = res[path]
        if rc != 0:
            for st in (sa, sb):
                st['divergences'] += 1
                st.setdefault('first_divergences', []).append({'file': path, 'coqc_failed': out[-1500:]})
            continue
        vals = coq.parse_coq_value(out)
        for k, r in enumerate(grp):
            for st, v, which in ((sa, vals[2 * k], 'gen'), (sb, vals[2 * k + 1], 'spec')):
                st['cases'] += 1
                st['steps'] += r['n_ops']
                if r['changes'] >= 2:
                    st['nontrivial'] += 1
                if v is not None:
                    st['divergences'] += 1
                    r.setdefault('divergence', {})[which] = v
                    if len(st.setdefault('first_divergences', [])) < 5:
                        st['first_divergences'].append({'seed': r['seed'], 'cls': r['cls'], 'first_bad_step(0=init)': v,
                                                        'ops': r['replay']['ops']})
    for r in good:
        for c in (COMP_A, COMP_B):
            ctx.count(c, 'class:' + r['cls'])
            for n in r['names']:
                ctx.count(c, '%s.%s' % (r['cls'], n))
            for e in r['errs']:
                ctx.count(c, 'raised:' + e)
            ctx.count(c, 'default_arg_calls', r['defaults'])
            ctx.count(c, 'state_changes', r['changes'])
    return results


def report_problems(ctx, results):
    n = 0
    for r in results:
        if r.get('problems'):
            n += 1
            if n <= 3:
                ctx.violation('C15 monitor (battery vs builtin): ' + r['problems'][0]['what'], r['replay'], found_input=True)
    ctx.monitor['monitor_records'] = ctx.monitor.get('monitor_records', 0) + n
    ctx.monitor['replica_steps_compared'] = ctx.monitor.get('replica_steps_compared', 0) + sum(r.get('replica_steps', 0) for r in results)
    d14 = [r for r in results if r.get('d14')]
    ctx.monitor['d14_records_in_random_cases'] = ctx.monitor.get('d14_records_in_random_cases', 0) + len(d14)
    if d14:
        ctx.monitor.setdefault('d14_example', dict(d14[0]['d14'], case_seed=d14[0]['seed']))   # reported once, in known()
    return n


def _d14_listed(ctx):
    return [f for f in ctx.known_for() if 'D14' in (f.get('what', '') + f.get('id', ''))]


def small_scope(ctx, B, tables, depth_small, depth_big, budget_s):
    """All op sequences over the tiny alphabets, battery vs builtin (search aid, never the claim)."""
    t0 = time.time()
    hits = 0
    total = 0
    for t in tables:
        depth = depth_small if len(H.SMALL[t['class']]) <= 9 else depth_big
        for p in H.enumerate_small(B, [t], depth):
            hits += 1
            if hits <= 3:
                ctx.violation('C15 monitor (battery vs builtin, small-scope enumeration): ' + p['problems'][0]['what'],
                              {'kind': 'case', 'cls': p['cls'], 'init': [H.enc(a) for a in p['init']], 'ops': p['ops'],
                               'problems': p['problems']}, found_input=True)
        total += getattr(H.enumerate_small, 'count', 0)
        if time.time() - t0 > budget_s:
            break
    ctx.monitor['small_scope_sequences'] = ctx.monitor.get('small_scope_sequences', 0) + total
    return hits


def correspondence(ctx):
    ctx.obligation('translator accepted batteries.py', GEN_OK, GEN_MSG)
    B = H.load_impl()
    tables = _tables(B)
    n = 3000 if ctx.quick else 30000
    base = ctx.seed * 1000003 % (2 ** 31)
    seeds = [base + i for i in range(n)]
    ctx.extra['rule'] = ('cases = random operation sequences (3..24 ops) over all public methods of one battery, classes in rotation; '
                         'arguments from tiny domains (items/keys 0-3, set items 0-9, positions -3..3 and out of range, None, bools, '
                         'wrong-typed containers, default-argument forms, wrong arity, maxsize 0-2); after EVERY op the result or '
                         'exception kind and the full contents (name-mangled attributes) are compared; '
                         'non-trivial = at least two ops changed the contents; distinct by seed')
    if not GEN_OK:
        ctx.note('translator rejected the source: ' + GEN_MSG)
        sa = ctx.corr(COMP_A)
        sa['divergences'] += 1
        sa.setdefault('first_divergences', []).append({'translator': GEN_MSG})
    all_results = []
    step = 3000
    for i in range(0, len(seeds), step):
        all_results += run_cases(ctx, seeds[i:i + step], tables, with_model=GEN_OK)
    report_problems(ctx, all_results)
    ctx.monitor['traces'] = len(all_results)
    if not ctx.quick:
        small_scope(ctx, B, tables, 5, 4, 900)
    for r in all_results[:6]:
        if 'replay' in r:
            ctx.samples.append({'case_seed': r['seed'], 'cls': r['cls'], 'ops': r['replay']['ops'][:12]})
    ctx.trusted += [
        'translator translate/py2v.py (fail closed; diff-tested: generated model vs the real classes on every run)',
        'oracle (modelled, diff-tested against CPython on every run, never assumed): semantics of int arithmetic, list, dict, set, '
        'collections.deque and heapq in coq/Batteries/PySpec.v',
        'oracle input: the element set.pop() removes is handed to the model by the harness (it depends on the hash table history)',
        'oracle: pickle round trip of _serialize() data is the identity on the modelled values',
        'universe: container elements, keys and values are ints; None/bool/containers appear as arguments and results only; '
        'operations that would store a non-int are OutOfModel and never generated; aliasing of reset()/rawData() not modelled',
    ]
    ctx.partial += [
        'C15 "(c) applied through a replicated cluster with snapshots" is not exercised here: the Raft simulation harness does not '
        'exist yet; C15_replicas_equal covers it at model level (every op is a function of state, arguments and the set.pop oracle; '
        'serialize/deserialize is the identity), the implementation side is tied only through direct _doApply=True calls',
    ]


def d14_witness(B):
    s = B.ReplSet()
    for i in range(100):
        s.add(i, _doApply=True)
    for i in range(100):
        if i not in (9, 16):
            s.discard(i, _doApply=True)
    r = B.ReplSet()
    r._deserialize(pickle.loads(pickle.dumps(s._serialize())))
    same_contents = (s.rawData() == r.rawData() == {9, 16})
    a = s.pop(_doApply=True)
    b = r.pop(_doApply=True)
    return same_contents, a, b


def known(ctx):
    B = H.load_impl()
    # ---- fixed findings: must pass now -----------------------------------------------------------------
    l = B.ReplList()
    l.reset([1, 2], _doApply=True)
    o = H.outcome(lambda: l.pop(_doApply=True))
    ctx.monitor['d13a_witness'] = repr(o)
    if o != ('ok', 2) or l.rawData() != [1]:
        ctx.violation('ReplList.pop() without a position on [1, 2] gives %r, contents %r; list.pop() gives 2, [1] '
                      '(fixed finding FX-C15-1 is back)' % (o, l.rawData()),
                      {'kind': 'case', 'cls': 'ReplList', 'init': [], 'ops': [['reset', [H.enc([1, 2])]], ['pop', []]]}, found_input=True)
    for cls in ('ReplQueue', 'ReplPriorityQueue'):
        q = getattr(B, cls)()
        o = H.outcome(lambda: q.full())
        ctx.monitor['d13b_witness_' + cls] = repr(o)
        if o != ('ok', False):
            ctx.violation('%s().full() on an empty unbounded queue gives %r (fixed finding FX-C15-2 is back)' % (cls, o),
                          {'kind': 'case', 'cls': cls, 'init': [], 'ops': [['full', []]]}, found_input=True)
    # ---- known finding D14: history-built vs restored ReplSet pop different elements ----------------------
    same_contents, a, b = d14_witness(B)
    ctx.monitor['d14_witness'] = {'same_contents_before_pop': same_contents, 'history_built_pops': a, 'restored_pops': b,
                                  'still_differs': a != b}
    listed = _d14_listed(ctx)
    if same_contents and a != b:
        what = ('ReplSet.pop() is not a function of the contents: replica built by add 0..99 / discard all but {9,16} pops %r, '
                'its pickled _serialize() copy pops %r (model: C15_set_pop_refuted; equality of replicas needs the pop oracle hypothesis)'
                % (a, b))
        if listed:
            ctx.known_finding(listed[0], what)
        else:
            ctx.note('known finding D14 reproduced but not listed in known_findings.json: ' + what)
    else:
        ctx.note('D14 witness no longer differs (pops %r / %r)' % (a, b))


def search(ctx):
    """Failing-input search after a broken obligation / divergence: battery vs builtin only (no model):
    more random sequences, then small-scope enumeration."""
    B = H.load_impl()
    tables = _tables(B)
    base = (ctx.seed * 7919 + 17) % (2 ** 31)
    n = 6000 if ctx.quick else 60000
    results = run_cases(ctx, [base + i for i in range(n)], tables, with_model=False)
    hits = report_problems(ctx, results)
    ctx.monitor['search_cases'] = n
    if not hits:
        hits = small_scope(ctx, B, tables, 4 if ctx.quick else 5, 3, 120 if ctx.quick else 900)
    return hits > 0


def replay(ctx, data):
    B = H.load_impl()
    if data.get('kind') == 'case':
        tables = _tables(B)
        t = [x for x in tables if x['class'] == data['cls']][0]
        r = H.run_case(B, t, [H.dec(a) for a in data['init']], [(nm, [H.dec(a) for a in args]) for nm, args in data['ops']],
                       data.get('snap_at'))
        for st in r['impl_steps']:
            print('  %s%r -> %r   contents %r' % (st[0], tuple(st[1]), st[3], st[4]))
        print('problems:', r['problems'])
        if r['problems']:
            print('VIOLATION property=C15 replay=(replayed)')
            return 1
        return 0
    print('nothing to replay for', data.get('kind'), '- see broken_obligations / broken_correspondence in the file')
    return 0


# ---- part (c): the batteries through a replicated cluster with compaction, snapshot catch-up and restarts ----
_corr_direct = correspondence
_replay_direct = replay


def correspondence(ctx):
    _corr_direct(ctx)
    from props import cluster_ext
    cluster_ext.run(ctx, want_lock=False)
    ctx.partial[:] = [p for p in ctx.partial if 'cluster' not in p.lower()]


def replay(ctx, data):
    if data.get('kind') == 'cluster_batteries':
        from props import cluster_ext
        return cluster_ext.replay(ctx, data)
    return _replay_direct(ctx, data)
