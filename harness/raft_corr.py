"""Raft correspondence: random/directed schedules on the real SyncObj objects (harness/sim.py),
rendered as event lists for the Coq model (coq/Raft/*.v) together with the per-step digests."""
import os
import random
import sys

from harness import sim as SIM
from harness.sim import Sim, RO_BASE, addr

S = SIM.S
TCPNode = SIM.TCPNode


# ---- command construction (exactly the bytes the implementation builds) ---------------------
def regular_command(obj, cid, pad, raises):
    func_name = obj._getFuncName('op')
    func_id = obj._methodToID[func_name]
    return S._bchr(S._COMMAND_TYPE.REGULAR) + S.pickle.dumps((func_id, (cid, pad, raises)))


def membership_command(add, x):
    a = addr(x)
    return S._bchr(S._COMMAND_TYPE.MEMBERSHIP) + S.pickle.dumps(['add' if add else 'rem', a, TCPNode(a)])


def version_command(v):
    return S._bchr(S._COMMAND_TYPE.VERSION) + S.pickle.dumps(v)


def cpk_of(command):
    return len(S.pickle.dumps((command, 1, 1)))


NOOP_PK = cpk_of(S._bchr(S._COMMAND_TYPE.NO_OP))


# ---- Gallina rendering -----------------------------------------------------------------------
def vN(n):
    return '%d' % n


def vZ(n):
    return '(%d)%%Z' % n


def vb(b):
    return 'true' if b else 'false'


def vlistN(xs):
    return '[' + '; '.join('%d' % x for x in xs) + ']'


def v_cmd(c):
    return '(mkCmd %d %d %d %d %d)' % c


def v_conf(cfg):
    return ('(mkConf %s %s %s %s %d %d %s %s %s %d %s %d %d %s %s)' % (
        vZ(cfg['period']), vZ(cfg['tmin']), vZ(cfg['tspan']), vZ(cfg['fallback']), cfg['batch'], cfg['chunk'],
        vb(cfg.get('use_batch', True)), vb(cfg.get('dyn', False)), vb(cfg.get('wait_leader', True)),
        cfg.get('min_entries', 10 ** 9), vZ(cfg.get('min_time', 10 ** 9)), cfg.get('queue', 1000), NOOP_PK,
        vb(cfg.get('dump') == 'file'), vb(cfg.get('journal') == 'file')))


def v_event(e):
    k = e[0]
    if k == 'tick':
        return '(ETick %d %s %s %d %s %d)' % (e[1], vZ(e[2]), vZ(e[3]), e[4], vlistN(e[5]), e[6])
    if k == 'deliver':
        return '(EDeliver %d %d %s %s %s)' % (e[1], e[2], vZ(e[3]), vZ(e[4]), vlistN(e[5]))
    if k == 'drop':
        return '(EDrop %d %d)' % (e[1], e[2])
    if k == 'lose':
        return '(ELose %d %d %d)' % (e[1], e[2], e[3])
    if k == 'connect':
        return '(EConnect %d %d)' % (e[1], e[2])
    if k == 'submit':
        return '(ESubmit %d %s %d)' % (e[1], v_cmd(e[2]), e[3])
    if k == 'admin':
        return '(EAdmin %d %s %d)' % (e[1], v_cmd(e[2]), e[3])
    if k == 'setver':
        return '(ESetVer %d %s %d)' % (e[1], v_cmd(e[2]), e[3])
    if k == 'compact':
        return '(ECompact %d)' % e[1]
    if k == 'kill':
        return '(EKill %d)' % e[1]
    if k == 'restart':
        return '(ERestart %d %s %s %s %d)' % (e[1], vlistN(e[2]), vZ(e[3]), vZ(e[4]), e[5])
    raise ValueError(k)


HEADER = ('From Coq Require Import ZArith NArith List Uint63.\n'
          'From PSO Require Import Raft.Types Raft.Node Raft.Net Raft.Obs.\n'
          'Import ListNotations.\nOpen Scope N_scope.\n')


def v_case(name, cfg, mevents, digests):
    return ('Definition ev_%s : list event := [\n  %s].\n'
            'Definition dg_%s : list Uint63.int := [%s]%%uint63.\n' % (
                name, ';\n  '.join(v_event(e) for e in mevents), name, '; '.join(str(d) for d in digests)),
            '(check_trace %s ginit ev_%s dg_%s 0)' % (v_conf(cfg), name, name))


# ---- driving the simulation while recording model events -----------------------------------------
class Recorder(object):
    """Wraps a Sim: every applied event is recorded in the model's vocabulary (oracle fields filled
    from what the implementation saw) together with the digest of the step."""

    def __init__(self, cfg, workdir=None):
        self.cfg = cfg
        self.sim = Sim(cfg, workdir)
        self.mevents = []
        self.digests = []
        self.observations = []    # (state, outs) kept only when keep_obs
        self.keep_obs = False
        self.kinds = {}
        self.listeners = []       # monitors: fn(recorder, event, stepped nid)
        self.submit_cids = set()
        self.model_ok = True
        self.cut = False
        self.mevents_after_cut = 0

    def total_events(self):
        return len(self.mevents) + self.mevents_after_cut

    def _order(self, n):
        o = self.sim.nodes[n]
        return [SIM.nid_of(x) for x in (o._SyncObj__otherNodes | o._SyncObj__readonlyNodes)]

    def _snaplen(self, n):
        ser = self.sim.nodes[n]._SyncObj__serializer
        if ser._Serializer__pid != -1:
            return 0
        fn = ser._Serializer__fileName
        if fn is None:
            d = ser._Serializer__inMemorySerializedData
            return len(d) if d is not None else 0
        try:
            return os.path.getsize(fn)
        except OSError:
            return 0

    def do(self, ev):
        sim = self.sim
        k = ev[0]
        if k == 'tick':
            _, n, now, rnd, budget = ev
            order = self._order(n)
            sim.apply(('tick', n, now, rnd, budget))
            mev = ('tick', n, now, rnd, 30 if budget is None else budget, order, self._snaplen(n))
        elif k == 'deliver':
            _, a, b, now, rnd = ev
            order = self._order(b)
            sim.apply(ev)
            mev = ('deliver', a, b, now, rnd, order)
        elif k == 'submit':
            _, n, cid, size, cb, raises = ev
            obj = sim.nodes[n]
            pad = b'x' * size
            command = regular_command(obj, cid, pad, raises)
            self.submit_cids.add(cid)
            sim.apply(ev)
            mev = ('submit', n, (0, cid, 1 if raises else 0, len(command), cpk_of(command)), cb)
        elif k == 'admin':
            _, n, add, x, cb = ev
            command = membership_command(add, x)
            sim.apply(ev)
            mev = ('admin', n, (2, 1 if add else 2, x, len(command), cpk_of(command)), cb)
        elif k == 'setver':
            _, n, v, cb = ev
            command = version_command(v)
            sim.apply(ev)
            mev = ('setver', n, (3, v, 0, len(command), cpk_of(command)), cb)
        elif k == 'restart':
            _, n, others, now, rnd = ev
            sim.apply(ev)
            mev = ('restart', n, sorted(others), now, rnd, sim.nodes[n]._SyncObj__selfCodeVersion)
        elif k in ('tickkill', 'deliverkill'):
            sim.apply(ev)
            mev = ev
            self.model_ok = False      # kills inside a step are not events of the Coq model (C08 covers the journal part)
        else:
            sim.apply(ev)
            mev = ev
        if (not self.cut and k == 'tick' and self.cfg.get('dyn') and not self.cfg.get('use_batch', True)
                and getattr(sim, 'jumped', 0) and sim.step_nid in sim.nodes and sim.tr(sim.step_nid).tlog):
            # unbatched mode sends inside _checkCommandsToApply, after a membership entry of the same tick has changed the
            # member set; when that send loop is then cut by the clock, how many messages went out depends on the
            # iteration order of the NEW set, which is not among the recorded oracle inputs (it is read once per tick):
            # the trace is model-checked up to the previous step, the rest runs under the monitors only
            self.cut = True
        if not self.cut:
            self.mevents.append(mev)
            st, ou = sim.observe()
            self.digests.append(SIM.hnums(ou, SIM.hnums(st)))
            if self.keep_obs:
                self.observations.append((st, ou))
            n = sim.step_nid
            if n is not None and n in sim.nodes and len(sim.nodes[n]._SyncObj__raftLog) == 0:
                # a node whose log became empty raises IndexError from then on at places the model totalises;
                # this is only reachable after safety was already lost (known finding KF-C07-1): the trace is
                # model-checked up to and including this step, the rest runs under the monitors only
                self.cut = True
        else:
            self.mevents_after_cut += 1
        self.kinds[k] = self.kinds.get(k, 0) + 1
        for _s, _d, m in sim.sent:
            mk = 'msg:' + m['type'] + (':' + str(m.get('transmission')) if m.get('transmission') else '') + \
                 (':snap' if 'serialized' in m else '')
            self.kinds[mk] = self.kinds.get(mk, 0) + 1
        if sim.exc:
            self.kinds['exc:%d' % sim.exc] = self.kinds.get('exc:%d' % sim.exc, 0) + 1
        for cbid, res, err in sim.fired:
            self.kinds['cb:%s' % err] = self.kinds.get('cb:%s' % err, 0) + 1
        for fn in self.listeners:
            fn(self, ev, sim.step_nid)
        return sim.step_nid


class Scheduler(object):
    """Random schedule generator obeying the environment rules of DESIGN 5.4."""

    def __init__(self, rec, rng, voters, fault_rate=0.05):
        self.rec = rec
        self.sim = rec.sim
        self.rng = rng
        self.voters = list(voters)
        self.clock = dict((n, 0) for n in voters)
        self.next_cid = 1
        self.fault_rate = fault_rate
        self.alive = set()
        self.opts = {}
        self.members = list(voters)
        self.fresh_pair = {}      # (a, b): a has connected, b has not yet (the pair is half established)
        self.pool = []
        self.pending_add = []

    def view(self, a, b):
        return a in self.sim.nodes and b in self.sim.tr(a).connected

    def boot(self, members=None, ro=()):
        cfg = self.rec.cfg
        self.members = list(members or self.voters)
        for n in self.voters:
            oth = [x for x in self.members if x != n]
            self.rec.do(('restart', n, oth, self.clock[n], self.rng.randrange(cfg['tspan'])))
            self.alive.add(n)
        for a in self.voters:
            for b in self.voters:
                if a != b:
                    self.connect(a, b)
        for r in ro:
            self.start_ro(r)

    def start_ro(self, r):
        self.clock.setdefault(r, 0)
        self.clock[r] += 1
        self.rec.do(('restart', r, list(self.members), self.clock[r], self.rnd()))
        self.alive.add(r)
        for v in self.members:
            if v in self.alive and self.rng.random() < 0.8:
                self.connect(r, v)
                self.connect(v, r)

    def can_link(self, a, b):
        """a connection a<->b can exist: both processes run, each knows the other as a member
        (a read-only node is known to nobody and only talks to voters)"""
        if a == b or a not in self.sim.nodes or b not in self.sim.nodes:
            return False
        if a >= RO_BASE and b >= RO_BASE:
            return False
        if a < RO_BASE and b not in self.sim.tr(a).members and b < RO_BASE:
            return False
        if b < RO_BASE and a not in self.sim.tr(b).members and a < RO_BASE:
            return False
        if a >= RO_BASE and b not in self.sim.tr(a).members:
            return False
        if b >= RO_BASE and a not in self.sim.tr(b).members:
            return False
        return True

    def rnd(self):
        return self.rng.randrange(self.rec.cfg['tspan'])

    def tick(self, n, dt=None, budget=None):
        cfg = self.rec.cfg
        if dt is None:
            dt = self.rng.choice([1, cfg['period'] + 1, cfg['period'] + 1, 2 * cfg['period'], cfg['tmin'] // 2,
                                  cfg['tmin'] + cfg['tspan'] + 1])
        self.clock[n] += dt
        return self.rec.do(('tick', n, self.clock[n], self.rnd(), budget))

    def deliverable(self):
        out = []
        for (a, b), q in self.sim.chan.items():
            if q and b in self.sim.nodes and self.view(b, a):
                out.append((a, b))
        return sorted(out)

    def deliver(self, a, b):
        return self.rec.do(('deliver', a, b, self.clock[b], self.rnd()))

    def deliver_all(self, limit=200):
        n = 0
        while n < limit:
            d = self.deliverable()
            if not d:
                break
            a, b = self.rng.choice(d)
            self.deliver(a, b)
            n += 1
        return n

    def submit(self, n, size=None, cb=True, raises=False):
        cid = self.next_cid
        self.next_cid += 1
        if size is None:
            size = self.rng.choice([0, 5, 20, 20, 20, 60])
        self.rec.do(('submit', n, cid, size, cid if cb else 0, raises))
        return cid

    def drop(self, a, b):
        if self.view(a, b):
            self.rec.do(('drop', a, b))
            self.fresh_pair.pop((a, b), None)
            self.fresh_pair.pop((b, a), None)

    def connect(self, a, b):
        if self.can_link(a, b) and not self.view(a, b):
            if self.view(b, a) and not self.fresh_pair.get((b, a)):
                # b still believes in an older connection: it has to notice its loss first
                self.rec.do(('drop', b, a))
            self.rec.do(('connect', a, b))
            self.fresh_pair[(a, b)] = True
            if self.view(b, a):
                self.fresh_pair.pop((a, b), None)
                self.fresh_pair.pop((b, a), None)

    def partition(self, group):
        for a in self.alive:
            for b in self.alive:
                if a != b and ((a in group) != (b in group)):
                    self.drop(a, b)

    def heal(self):
        for _pass in (0, 1):      # connecting b->a may first make a notice the loss of its old connection
            for a in sorted(self.alive):
                for b in sorted(self.alive):
                    if a < b and self.can_link(a, b):
                        if not self.view(a, b):
                            self.connect(a, b)
                        if not self.view(b, a):
                            self.connect(b, a)

    def kill(self, n):
        self.rec.do(('kill', n))
        self.alive.discard(n)
        for x in sorted(self.alive):
            if self.view(x, n):
                self.rec.do(('drop', x, n))

    def restart(self, n):
        o = None
        oth = [x for x in self.members if x != n]
        self.clock[n] = self.clock.get(n, 0) + 1
        self.rec.do(('restart', n, oth, self.clock[n], self.rnd()))
        self.alive.add(n)
        for x in sorted(self.alive):
            if x != n:
                self.connect(n, x)
                self.connect(x, n)

    def random_step(self):
        r = self.rng.random()
        live = sorted(self.alive)
        opts = self.opts
        if r < 0.03 and opts.get('big'):
            B = self.rec.cfg['batch']
            if B <= 1000:
                return self.submit(self.rng.choice(live), size=B + self.rng.choice([-45, -30, -1, 0, 1, 40, B, 2 * B + 3]) if B > 50 else B + 5)
        if r < 0.06 and opts.get('raises'):
            return self.submit(self.rng.choice(live), raises=True)
        if r < 0.08 and opts.get('budget'):
            return self.tick(self.rng.choice(live), budget=self.rng.choice([0, 1, 2, 5]))
        if r < 0.10 and opts.get('kill') and len(live) >= 2 and not self.rec.cfg.get('journal'):
            dead = [x for x in self.voters if x not in self.alive]
            if dead and self.rng.random() < 0.6:
                return self.restart(self.rng.choice(dead))
            if len(dead) < 2:
                return self.kill(self.rng.choice(live))
        if r < 0.12 and opts.get('setver'):
            cbid = self.next_cid
            self.next_cid += 1
            return self.rec.do(('setver', self.rng.choice(live), self.rng.choice([0, 0, 1]), cbid if self.rng.random() < 0.7 else 0))
        if r < 0.15 and opts.get('admin') and self.rec.cfg.get('dyn'):
            return self.admin_step()
        if r < 0.45:
            d = self.deliverable()
            if d:
                a, b = self.rng.choice(d)
                return self.deliver(a, b)
            r = 0.5
        if r < 0.75:
            return self.tick(self.rng.choice(live))
        if r < 0.9:
            return self.submit(self.rng.choice(live), cb=self.rng.random() < 0.8)
        f = self.rng.random()
        a, b = self.rng.sample(live, 2) if len(live) >= 2 else (live[0], live[0])
        if a == b:
            return None
        if f < 0.3:
            return self.drop(a, b)
        if f < 0.5:
            self.drop(a, b)
            return self.drop(b, a)
        if f < 0.7:
            k = self.rng.randrange(1, 4)
            if not self.view(a, b):       # loss only at a break the sender has noticed
                return self.rec.do(('lose', a, b, k))
            return None
        if f < 0.85:
            return self.heal()
        if f < 0.95:
            return self.partition(set(self.rng.sample(live, max(1, len(live) // 2))))
        return self.rec.do(('compact', self.rng.choice(live)))


def _calm_round(self):
    """one round of mostly-valid behaviour: every live node ticks (heartbeat-scale gap, occasionally an
    election-scale gap), everything in flight is delivered, a few commands are submitted"""
    cfg = self.rec.cfg
    live = sorted(self.alive)
    self.rng.shuffle(live)
    big = self.rng.random() < 0.15
    for n in live:
        if n not in self.alive:
            continue
        dt = cfg['period'] + 1 if not big else cfg['tmin'] + self.rng.randrange(cfg['tspan'] + 10)
        self.tick(n, dt)
        if self.rng.random() < 0.7:
            self.deliver_all(40)
    self.deliver_all(60)
    for _ in range(self.rng.choice([0, 0, 1, 1, 2, 4])):
        self.submit(self.rng.choice(sorted(self.alive)), cb=self.rng.random() < 0.8)


Scheduler.calm_round = _calm_round


def _admin_step(self):
    # operator: add a fresh node or remove one; the request can be issued on any node
    live = sorted(self.alive)
    n = self.rng.choice(live)
    cbid = self.next_cid if self.rng.random() < 0.8 else 0
    self.next_cid += 1
    pool = [x for x in self.pool if x not in self.members]
    if pool and (len(self.members) <= 2 or self.rng.random() < 0.5) and len(self.members) < 5:
        x = self.rng.choice(pool)
        self.rec.do(('admin', n, True, x, cbid))
        self.pending_add.append(x)
    elif len(self.members) > 1:
        x = self.rng.choice(self.members)
        self.rec.do(('admin', n, False, x, cbid))
    return None


Scheduler.admin_step = _admin_step


def default_cfg(rng, voters):
    return dict(voters=list(voters), ro=[], period=10, tmin=40, tspan=128,
                fallback=rng.choice([15, 50, 300, 3000]),
                batch=rng.choice([60, 100, 200, 1000, 65536]), chunk=rng.choice([1, 7, 64, 200, 65536]),
                use_batch=rng.random() < 0.8, dyn=False, wait_leader=rng.random() < 0.8,
                queue=rng.choice([0, 2, 1000, 1000, 1000, 1000]),
                min_entries=rng.choice([2, 5, 10 ** 9, 10 ** 9]), min_time=rng.choice([20, 10 ** 9]))


def random_trace(seed, n_events=200, workdir=None, keep_obs=False, cfg=None, listeners=()):
    rng = random.Random(seed)
    size = rng.choice([2, 3, 3, 3, 4, 5])
    voters = list(range(1, size + 1))
    cfg = cfg or default_cfg(rng, voters)
    rec = Recorder(cfg, workdir)
    rec.keep_obs = keep_obs
    rec.listeners = list(listeners)
    sch = Scheduler(rec, rng, voters)
    sch.opts = dict(big=rng.random() < 0.4, raises=rng.random() < 0.2, budget=rng.random() < 0.3,
                    kill=rng.random() < 0.3, setver=rng.random() < 0.2)
    rec.opts = sch.opts
    sch.boot()
    while rec.total_events() < n_events:
        mode = rng.random()
        if mode < 0.5:
            for _ in range(rng.randrange(1, 8)):
                sch.calm_round()
                if rec.total_events() >= n_events:
                    break
        else:
            for _ in range(rng.randrange(1, 25)):
                sch.random_step()
    return rec


# ---- specialised trace generators ---------------------------------------------------------------
def ro_trace(seed, n_events=250, workdir=None, keep_obs=False, listeners=()):
    """clusters with 0-3 read-only nodes joining, leaving and re-joining; commands through them"""
    rng = random.Random(seed)
    size = rng.choice([1, 2, 3, 3, 4])
    voters = list(range(1, size + 1))
    cfg = default_cfg(rng, voters)
    cfg['queue'] = 1000
    rec = Recorder(cfg, workdir)
    rec.keep_obs = keep_obs
    rec.listeners = list(listeners)
    sch = Scheduler(rec, rng, voters)
    sch.opts = dict(big=rng.random() < 0.2, budget=rng.random() < 0.2, raises=(seed % 4 == 0))
    rec.opts = sch.opts
    n_ro = rng.choice([1, 1, 2, 3])
    ros = [RO_BASE + i for i in range(n_ro)]
    next_ro = [RO_BASE + n_ro]
    sch.boot(ro=[r for r in ros if rng.random() < 0.6])
    while rec.total_events() < n_events:
        r = rng.random()
        live_ro = [x for x in ros if x in sch.alive]
        if r < 0.05:
            dead = [x for x in ros if x not in sch.alive]
            if dead:
                # the real transport gives every read-only connection a fresh node id: a restarted read-only process is
                # a new node for the voters (answers addressed to the old one can never reach it)
                x = rng.choice(dead)
                if x in sch.clock and sch.clock[x] > 0:
                    ros.remove(x)
                    x = next_ro[0]
                    next_ro[0] += 1
                    ros.append(x)
                sch.start_ro(x)
        elif r < 0.08 and live_ro:
            x = rng.choice(live_ro)
            sch.rec.do(('kill', x))
            sch.alive.discard(x)
            for v in voters:
                if sch.view(v, x):
                    sch.rec.do(('drop', v, x))
        elif r < 0.25 and live_ro:
            sch.submit(rng.choice(live_ro), cb=rng.random() < 0.8)
        elif r < 0.32 and live_ro:
            x = rng.choice(live_ro)
            sch.tick(x)
        elif r < 0.65:
            sch.calm_round()
        else:
            for _ in range(rng.randrange(1, 12)):
                sch.random_step()
    return rec


def member_trace(seed, n_events=300, workdir=None, keep_obs=False, listeners=()):
    """dynamic membership under the documented operator discipline: an added node is started empty with
    the current member list (then the request is issued on any node); a node whose removal was applied
    somewhere (hence committed) is shut down for good"""
    from harness.raft_monitor import Monitor
    rng = random.Random(seed)
    pool = [1, 2, 3, 4, 5, 6]
    size = rng.choice([1, 2, 3, 3])
    voters = pool[:size]
    cfg = default_cfg(rng, voters)
    cfg['dyn'] = True
    cfg['queue'] = 1000
    if not cfg.get('use_batch', True):
        # unbatched mode sends inside _checkCommandsToApply, i.e. after a membership entry may have changed the member
        # set in the same tick; the iteration order of the new set is not among the recorded oracle inputs, and it only
        # matters when the send loop is cut by the clock: keep the loops short there
        cfg['chunk'] = 65536
    rec = Recorder(cfg, workdir)
    rec.keep_obs = keep_obs
    mon = None
    for l in listeners:
        if isinstance(l, Monitor):
            mon = l
    if mon is None:
        mon = Monitor()
        listeners = list(listeners) + [mon]
    rec.listeners = list(listeners)
    sch = Scheduler(rec, rng, voters)
    sch.opts = dict(budget=rng.random() < 0.1)
    rec.opts = sch.opts
    sch.boot()
    members = set(voters)           # the operator's view: adds requested and not yet known removed
    removed = set()
    seen_rem = set()
    while rec.total_events() < n_events:
        # operator reaction: removal applied somewhere => that process is shut down
        for idx, cmdb in list(mon.cmd_at.items()):
            if idx in seen_rem:
                continue
            kind, a, b = rec.sim.cid_of_command(cmdb)
            if kind == 2:
                seen_rem.add(idx)
                if a == 2:
                    removed.add(b)
                    members.discard(b)
                    if b in sch.alive:
                        mon.retired.add(b)
                        sch.kill(b)
                        sch.voters = [v for v in sch.voters if v != b]
        sch.members = sorted(members)
        r = rng.random()
        live = sorted(sch.alive)
        if not live:
            break
        if r < 0.08:
            # one schedule in seven also re-uses the address of a removed member for the fresh process (the operator
            # discipline allows it: "can only return as a fresh, empty process") - known finding KF-C10-1
            reuse = (seed % 7 == 0)
            cand = [x for x in pool if x not in members and (reuse or x not in removed) and x not in sch.alive]
            if cand and len(members) < 5:
                x = rng.choice(cand)
                removed.discard(x)
                sch.voters.append(x)
                sch.clock.setdefault(x, 0)
                sch.clock[x] += 1
                rec.do(('restart', x, sorted(members), sch.clock[x], sch.rnd()))
                sch.alive.add(x)
                members.add(x)
                cbid = sch.next_cid
                sch.next_cid += 1
                rec.do(('admin', rng.choice(live), True, x, cbid if rng.random() < 0.8 else 0))
        elif r < 0.14 and len(members) > 1:
            x = rng.choice(sorted(members))
            cbid = sch.next_cid
            sch.next_cid += 1
            rec.do(('admin', rng.choice(live), False, x, cbid if rng.random() < 0.8 else 0))
        elif r < 0.17:
            # a second request while one may be pending, or a duplicate / unknown node
            x = rng.choice(pool)
            cbid = sch.next_cid
            sch.next_cid += 1
            if x in removed or (x not in sch.alive and x not in members):
                continue
            rec.do(('admin', rng.choice(live), rng.random() < 0.5, x, cbid))
            if x not in members and x in sch.alive:
                members.add(x)
        elif r < 0.7:
            sch.calm_round()
        else:
            for _ in range(rng.randrange(1, 10)):
                sch.random_step()
    return rec


def journal_trace(seed, n_events=300, workdir=None, keep_obs=False, listeners=()):
    """journaled nodes (journal file, optionally a dump file) killed and restarted at any step, up to all at once"""
    rng = random.Random(seed)
    size = rng.choice([1, 2, 3, 3, 3, 4])
    voters = list(range(1, size + 1))
    cfg = default_cfg(rng, voters)
    cfg['journal'] = 'file'
    cfg['dump'] = rng.choice(['file', 'file', None])
    cfg['queue'] = 1000
    cfg['batch'] = rng.choice([200, 1000, 65536])
    if cfg['dump'] is None:
        cfg['min_entries'] = 10 ** 9      # journal-only nodes with in-memory compaction forget their state (KF-C06-D18)
        cfg['min_time'] = 10 ** 9
    elif rng.random() < 0.3:
        cfg['ballast'] = 20000            # snapshots larger than any I/O buffer
        cfg['chunk'] = rng.choice([500, 3000])
    rec = Recorder(cfg, workdir)
    rec.keep_obs = keep_obs
    rec.listeners = list(listeners)
    sch = Scheduler(rec, rng, voters)
    sch.opts = dict(kill=True, big=rng.random() < 0.2, raises=(seed % 4 == 0))
    rec.opts = sch.opts
    sch.boot()
    while rec.total_events() < n_events:
        r = rng.random()
        live = sorted(sch.alive)
        dead = [x for x in voters if x not in sch.alive]
        if r < 0.06 and live:
            sch.kill(rng.choice(live))
        elif r < 0.08 and live:
            for x in list(live):           # everybody at once
                sch.kill(x)
        elif r < 0.2 and dead:
            sch.restart(rng.choice(dead))
        elif not live:
            sch.restart(rng.choice(dead))
        elif r < 0.25 and cfg['dump']:
            rec.do(('compact', rng.choice(live)))
        elif r < 0.7:
            sch.calm_round()
        else:
            for _ in range(rng.randrange(1, 10)):
                if sch.alive:
                    sch.random_step()
    return rec


def killpoint_trace(seed, n_events=300, workdir=None, keep_obs=False, listeners=()):
    """journaled nodes killed between two storage primitives inside a step (journal record, journal header,
    .meta tmp write, .meta rename, dump tmp write, dump rename) - implementation under the monitors only"""
    rng = random.Random(seed)
    size = rng.choice([1, 2, 3, 3, 3])
    voters = list(range(1, size + 1))
    cfg = default_cfg(rng, voters)
    cfg.update(journal='file', dump=rng.choice(['file', 'file', 'file', None]), queue=1000,
               batch=rng.choice([200, 1000, 65536]), fallback=rng.choice([300, 3000]))
    if cfg['dump'] is None:
        cfg['min_entries'] = 10 ** 9
        cfg['min_time'] = 10 ** 9
    else:
        cfg['min_entries'] = rng.choice([3, 6, 10 ** 9])
        if rng.random() < 0.3:
            cfg['ballast'] = 20000
            cfg['chunk'] = rng.choice([500, 3000])
    rec = Recorder(cfg, workdir)
    rec.keep_obs = keep_obs
    rec.listeners = list(listeners)
    sch = Scheduler(rec, rng, voters)
    sch.opts = dict(big=rng.random() < 0.2, raises=(seed % 4 == 0))
    rec.opts = sch.opts
    sch.boot()
    sim = rec.sim

    def after_kill(n):
        sch.alive.discard(n)
        for x in sorted(sch.alive):
            if sch.view(x, n):
                rec.do(('drop', x, n))

    while rec.total_events() < n_events:
        r = rng.random()
        live = sorted(sch.alive)
        dead = [x for x in voters if x not in sch.alive]
        if r < 0.10 and live:
            n = rng.choice(live)
            sch.clock[n] += rng.choice([1, cfg['period'] + 1, cfg['period'] + 1, cfg['tmin']])
            rec.do(('tickkill', n, sch.clock[n], sch.rnd(), rng.choice([0, 1, 1, 2, 3, 4, 6, 9])))
            if n not in sim.nodes:
                after_kill(n)
        elif r < 0.16 and live:
            d = sch.deliverable()
            if d:
                a, b = rng.choice(d)
                rec.do(('deliverkill', a, b, sch.clock[b], sch.rnd(), rng.choice([0, 1, 1, 2, 3, 5])))
                if b not in sim.nodes:
                    after_kill(b)
        elif r < 0.30 and dead:
            sch.restart(rng.choice(dead))
            n2 = [x for x in voters if x in sch.alive]
        elif not live:
            sch.restart(rng.choice(dead))
        elif r < 0.36 and cfg['dump']:
            rec.do(('compact', rng.choice(live)))
        elif r < 0.8:
            sch.calm_round()
        else:
            for _ in range(rng.randrange(1, 8)):
                if sch.alive:
                    sch.random_step()
    return rec


# ---- C05: convergence after the faults stop ----------------------------------------------------------
def quiet_period(sch, timeouts=20, submit_on=None):
    """faults cease: every connection is re-established, all ticks are timely (one heartbeat period apart,
    all nodes), everything sent is delivered; lasts `timeouts` maximal election timeouts of virtual time"""
    cfg = sch.rec.cfg
    sch.heal()
    rounds = timeouts * (cfg['tmin'] + cfg['tspan']) // (cfg['period'] + 1) + 1
    fired = {}
    cid = None
    for r in range(rounds):
        for n in sorted(sch.alive):
            sch.tick(n, cfg['period'] + 1)
        sch.deliver_all(400)
        if submit_on is not None and r == rounds // 2:
            cid = sch.submit(submit_on, size=10, cb=True)
        for cb, res, err in sch.sim.fired:
            fired[cb] = err
    return cid


def convergence_problems(rec, sch, cid, fired_log):
    sim = rec.sim
    problems = []
    voters = [n for n in sorted(sch.alive) if n < RO_BASE]
    leaders = [n for n in voters if sim.nodes[n]._SyncObj__raftState == 2]
    if 2 * len(voters) <= len(sch.voters):
        return []          # no majority of the members is running: the property promises nothing
    if len(leaders) != 1:
        problems.append('after the quiet period there are %d leaders among the running voters %r' % (len(leaders), voters))
    if cid is not None and fired_log.get(cid) != 0:
        problems.append('command %d submitted during the quiet period was not acknowledged with SUCCESS (%r)' % (cid, fired_log.get(cid)))
    states = {}
    for n in sorted(sch.alive):
        o = sim.nodes[n]
        states[n] = (o._SyncObj__raftLastApplied, tuple(o.history))
    if len(set(states.values())) > 1:
        problems.append('replicas differ after the quiet period: %r' % dict((n, (a, len(h))) for n, (a, h) in states.items()))
    return problems


def lag_trace(seed, n_events=300, workdir=None, keep_obs=False, listeners=()):
    """slow links: one follower at a time falls behind (partitioned, or its traffic just queues), the leader goes
    on, compacts, changes; then the victim's queue is drained in long runs without ticks and its answers reach the
    leader a few at a time, with leader ticks (and compactions, and leader changes) in between - outdated rejections
    and acknowledgements handled in different ticks, snapshots sent behind append_entries already queued"""
    rng = random.Random(seed)
    size = rng.choice([3, 3, 3, 4, 5])
    voters = list(range(1, size + 1))
    cfg = default_cfg(rng, voters)
    cfg.update(fallback=rng.choice([300, 3000, 100000]), queue=1000, min_entries=10 ** 9, min_time=10 ** 9,
               batch=rng.choice([60, 100, 1000, 65536]), chunk=rng.choice([7, 64, 200, 65536]))
    # one schedule in three runs with journal and dump files, and the lagging node is now and then killed and started
    # again from them in the middle of being caught up (refused or half-received snapshots x what a restart begins with)
    persistent = (seed % 3 == 1)
    if persistent:
        cfg.update(journal='file', dump='file')
    rec = Recorder(cfg, workdir)
    rec.keep_obs = keep_obs
    rec.listeners = list(listeners)
    sch = Scheduler(rec, rng, voters)
    sch.opts = dict(big=rng.random() < 0.2, raises=(seed % 4 == 0))
    rec.opts = sch.opts
    sim = rec.sim
    sch.boot()

    def leader():
        ls = [n for n in sorted(sch.alive) if sim.nodes[n]._SyncObj__raftState == 2]
        return ls[-1] if ls else None

    def others_round(skip, k=1):
        for _ in range(k):
            for n in sorted(sch.alive):
                if n != skip:
                    sch.tick(n, cfg['period'] + 1)
            for _ in range(60):
                d = [(a, b) for a, b in sch.deliverable() if skip not in (a, b)]
                if not d:
                    break
                a, b = rng.choice(d)
                sch.deliver(a, b)

    # an election first
    for _ in range(6):
        if leader() is not None:
            break
        sch.tick(rng.choice(sorted(sch.alive)), cfg['tmin'] + cfg['tspan'] + 1)
        sch.deliver_all(60)
    while rec.total_events() < n_events:
        L = leader()
        if L is None:
            sch.tick(rng.choice(sorted(sch.alive)), cfg['tmin'] + cfg['tspan'] + 1)
            sch.deliver_all(60)
            continue
        victim = rng.choice([n for n in sorted(sch.alive) if n != L])
        mode = rng.choice(['partition', 'queue', 'queue'])
        if mode == 'partition':
            for x in sorted(sch.alive):
                if x != victim:
                    sch.drop(victim, x)
                    sch.drop(x, victim)
        # the rest goes on without the victim
        for _ in range(rng.randrange(1, 5)):
            for _ in range(rng.randrange(0, 4)):
                sch.submit(rng.choice([n for n in sorted(sch.alive) if n != victim]),
                           size=rng.choice([5, 20, 60, 150]) if sch.opts['big'] else rng.choice([5, 20]))
            others_round(victim, rng.randrange(1, 3))
            if rng.random() < 0.35:
                rec.do(('compact', rng.choice([n for n in sorted(sch.alive) if n != victim])))
            if rng.random() < 0.1:
                c = rng.choice([n for n in sorted(sch.alive) if n != victim])
                sch.tick(c, cfg['tmin'] + cfg['tspan'] + 1)          # a leader change in the meantime
        if mode == 'partition':
            for x in sorted(sch.alive):
                if x != victim:
                    sch.connect(victim, x)
                    sch.connect(x, victim)
        # the victim's traffic piles up over several leader ticks, is consumed in runs, answered in pieces
        for _ in range(rng.randrange(2, 7)):
            L = leader() or L
            act = rng.random()
            if act < 0.35:
                if L in sch.alive:
                    sch.tick(L, cfg['period'] + 1)
            elif act < 0.6:
                k = rng.randrange(1, 12)
                while k and sim.queue_len(L, victim) and sch.view(victim, L):
                    sch.deliver(L, victim)
                    k -= 1
            elif act < 0.85:
                k = rng.randrange(1, 4)
                while k and sim.queue_len(victim, L) and sch.view(L, victim):
                    sch.deliver(victim, L)
                    k -= 1
            elif act < 0.93:
                rec.do(('compact', rng.choice(sorted(sch.alive))))
            else:
                if rng.random() < 0.5:
                    sch.submit(L, size=20)
                else:
                    sch.tick(victim, cfg['period'] + 1)
            if persistent and victim in sch.alive and rng.random() < 0.12:
                sch.kill(victim)
                sch.restart(victim)
        if rng.random() < 0.5:
            others_round(None, rng.randrange(1, 3))
    # settle: everything delivered, a few calm rounds
    sch.heal()
    for _ in range(6):
        others_round(None, 1)
    return rec


def converge_trace(seed, n_events=200, workdir=None, keep_obs=False, listeners=()):
    """a fault history (partitions, drops, losses, stale leaders, compactions, lagging followers needing a snapshot,
    read-only nodes) followed by a quiet period; the convergence verdict is stored in rec.convergence"""
    rng = random.Random(seed)
    size = rng.choice([2, 3, 3, 4, 5])
    voters = list(range(1, size + 1))
    cfg = default_cfg(rng, voters)
    cfg['queue'] = 1000
    cfg['fallback'] = rng.choice([50, 300, 3000])
    rec = Recorder(cfg, workdir)
    rec.keep_obs = keep_obs
    rec.model_ok = False     # long quiet periods: run under the monitors only (the same events are model-checked in the other generators)
    fired_log = {}

    def collect(r, ev, nid):
        for cb, res, err in r.sim.fired:
            fired_log[cb] = err
    rec.listeners = list(listeners) + [collect]
    sch = Scheduler(rec, rng, voters)
    sch.opts = dict(big=rng.random() < 0.3, budget=rng.random() < 0.2)
    rec.opts = sch.opts
    ros = [RO_BASE + i for i in range(rng.choice([0, 0, 1, 2]))]
    sch.boot(ro=ros)
    while rec.total_events() < n_events:
        if rng.random() < 0.4:
            for _ in range(rng.randrange(1, 6)):
                sch.calm_round()
        else:
            for _ in range(rng.randrange(1, 30)):
                sch.random_step()
    live = sorted(sch.alive)
    cid = quiet_period(sch, timeouts=20, submit_on=rng.choice(live))
    rec.convergence = convergence_problems(rec, sch, cid, fired_log)
    return rec
