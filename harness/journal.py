"""Implementation side of the C08 correspondence: a real FileJournal on real files in a scratch
directory, with the three storage primitives (ResizableFile.write, the MetaStorer '.tmp' file
write, shutil.move) wrapped so that a run can be abandoned ("killed") after the n-th primitive of
an operation.  Also: the case generator, the monitor (the property text on the implementation),
and the rendering of a case as Gallina for coq/Journal/Model.v:check_case.
"""
import itertools
import operator
import os
import random
import shutil as _shutil
import sys

REPO = (os.environ.get('VERIF_REPO') or '/repo')
if REPO not in sys.path:
    sys.path.insert(0, REPO)

_builtin_open = open


def load_impl():
    import pysyncobj.journal as J
    return J


class Kill(BaseException):
    """Raised by a wrapped primitive: the process dies before executing it."""


class CaseTimeout(BaseException):
    """One history took too long on the implementation (only possible on a broken implementation)."""


MAX_FILE = 32 * 1024 * 1024      # a journal file larger than this is not read back (observation = [-3, size])
MAX_LITERAL = 2 * 1024 * 1024    # one case never renders to more than this many characters of Gallina
CASE_TIMEOUT_S = 120


def limit_resources(as_bytes=4 * 1024 ** 3, fsize_bytes=512 * 1024 * 1024):
    """Called in every process that runs the implementation: a changed implementation may compute a
    garbage offset and try to grow the file / a buffer to gigabytes.  With the limits in place that
    becomes an exception inside the operation (reported as a divergence), not a machine-wide problem."""
    import resource
    import signal
    try:
        signal.signal(signal.SIGXFSZ, signal.SIG_IGN)
    except Exception:
        pass
    for what, lim in ((resource.RLIMIT_AS, as_bytes), (resource.RLIMIT_FSIZE, fsize_bytes)):
        try:
            soft, hard = resource.getrlimit(what)
            if hard != resource.RLIM_INFINITY:
                lim = min(lim, hard)
            resource.setrlimit(what, (lim, hard))
        except Exception:
            pass


def _alarm(signum, frame):
    raise CaseTimeout()


def run_limited(fn, *args):
    """Run fn(*args) in a forked child with the resource limits; returns its (picklable) result."""
    import multiprocessing as mp
    with mp.get_context('fork').Pool(1, initializer=limit_resources) as pool:
        return pool.apply(fn, args)


# ---- checksum shared with the model (Journal/Model.v: hash_step / hash_bytes / hash_Z / hash_fin) ----

HASH_M = 2305843009213693951


def h0(x):
    return (x, 0, 0)


def hash_step(h, x):
    a, b, c = h
    a += x + 1
    b += a
    return (a, b, c + b)


def hash_bytes(h, data):
    for off in range(0, len(data), 64):
        blk = data[off:off + 64]
        k = len(blk)
        a = sum(blk) + k
        b = sum(itertools.accumulate(blk)) + k * (k + 1) // 2
        h = hash_step(h, a + (b << 16) + (k << 40))
    return h


def hash_Z(h, z):
    if z < 0:
        return hash_step(hash_step(h, 1), -z)
    return hash_step(hash_step(h, 0), z)


def hash_fin(h):
    a, b, c = h
    return (a + (b << 64) + (c << 144)) % HASH_M


def obs_digest(o):
    h = h0(3)
    for x in o:
        h = hash_Z(h, x)
    return hash_fin(h)


def hash_entries(entries):
    h = h0(7)
    for (cmd, idx, term) in entries:
        h = hash_bytes(hash_Z(hash_Z(hash_Z(h, idx), term), len(cmd)), cmd)
    return hash_fin(h)


def hash_prims(prims):
    h = h0(11)
    for p in prims:
        if p[0] == 'fw':
            h = hash_bytes(hash_Z(hash_Z(hash_step(h, 1), p[1]), len(p[2])), p[2])
        elif p[0] == 'tmp':
            h = hash_Z(hash_step(h, 2), p[1])
        else:
            h = hash_step(h, 3)
    return hash_fin(h)


# ---- primitive wrappers -------------------------------------------------------------------------

class Prims(object):
    """Wraps the storage primitives of pysyncobj.journal.  `budget` = number of primitives the
    current operation may still execute (None = unlimited); the next one raises Kill."""

    def __init__(self, J):
        self.J = J
        self.log = []
        self.budget = None
        self._orig_write = J.ResizableFile.write
        self._had_open = 'open' in J.__dict__
        self._orig_shutil = J.shutil
        prims = self

        def write(rf, offset, values):
            prims._gate()
            prims._orig_write(rf, offset, values)
            prims.log.append(('fw', offset, bytes(values)))

        class TmpFile(object):
            def __init__(self, f):
                self.f = f

            def write(self, data):
                r = self.f.write(data)
                v = J.loads(data)
                prims.log.append(('tmp', v.get('raftCommitIndex') if isinstance(v, dict) else None))
                return r

            def flush(self):
                return self.f.flush()

            def __enter__(self):
                return self

            def __exit__(self, *a):
                self.f.close()
                return False

        def open_(name, mode='r', *a, **k):
            if isinstance(name, str) and name.endswith('.meta.tmp') and 'w' in mode:
                prims._gate()
                return TmpFile(_builtin_open(name, mode, *a, **k))
            return _builtin_open(name, mode, *a, **k)

        class ShutilShim(object):
            def __getattr__(self, n):
                return getattr(_shutil, n)

            def move(self, src, dst):
                prims._gate()
                r = _shutil.move(src, dst)
                prims.log.append(('mv',))
                return r

        J.ResizableFile.write = write
        J.open = open_
        J.shutil = ShutilShim()

    def _gate(self):
        if self.budget is not None:
            if self.budget <= 0:
                raise Kill()
            self.budget -= 1

    def begin(self, budget=None):
        self.log = []
        self.budget = budget

    def end(self):
        self.budget = None
        return self.log

    def uninstall(self):
        J = self.J
        J.ResizableFile.write = self._orig_write
        if not self._had_open:
            try:
                del J.open
            except AttributeError:
                pass
        J.shutil = self._orig_shutil


# ---- case generation -----------------------------------------------------------------------------

def cmd_bytes(c):
    if c[0] == 'lit':
        return bytes(c[1])
    _, n, a, b = c
    # (a + b*i) mod 256, i < n
    if n == 0:
        return b''
    period = bytes(((a + b * i) % 256) for i in range(256))
    return (period * (n // 256 + 1))[:n]


U64 = 2 ** 64


def gen_u64(rng):
    r = rng.random()
    if r < 0.6:
        return rng.randrange(0, 200)
    if r < 0.7:
        return rng.choice([0, 1, 255, 256, 2 ** 32 - 1, 2 ** 32, 2 ** 63, U64 - 1])
    return rng.randrange(0, U64)


def gen_commit(rng):
    r = rng.random()
    if r < 0.7:
        return rng.randrange(0, 300)
    if r < 0.8:
        return rng.choice([0, 1, -1, 2 ** 64, 2 ** 70 + 3])
    return rng.randrange(0, 2 ** 40)


class Sim(object):
    """Tiny size bookkeeping used only to *choose* inputs (record sizes near the growth boundary,
    kill points inside an operation); never used as an expected value."""

    def __init__(self):
        self.sizes = []
        self.fsize = 1024
        self.saved = True
        self.big_budget = 0

    def cur(self):
        return 40 + sum(s + 24 for s in self.sizes)

    def note_write_end(self, end):
        while end > self.fsize:
            self.fsize *= 2


def gen_size(rng, sim):
    r = rng.random()
    if r < 0.08:
        return 0
    if r < 0.62:
        return rng.randrange(0, 64)
    if r < 0.84:
        return rng.randrange(64, 300)
    if r < 0.93:
        # land exactly on / next to a growth boundary
        target = sim.fsize * rng.choice([1, 1, 1, 2, 2, 4]) + rng.choice([-1, 0, 0, 1, 1, 2])
        n = target - sim.cur() - 24
        if 0 <= n <= sim.big_budget:
            return n
        return rng.randrange(0, 64)
    if r < 0.97:
        n = rng.randrange(300, 2500)
        return n if n <= sim.big_budget else rng.randrange(0, 64)
    n = rng.randrange(0, 8 * sim.fsize + 1)
    return n if n <= sim.big_budget else rng.randrange(0, 300)


def gen_cmd(rng, n):
    if n <= 48 and rng.random() < 0.8:
        return ('lit', [rng.randrange(256) for _ in range(n)])
    return ('pat', n, rng.randrange(256), rng.choice([0, 1, 1, 3, 7, 255, rng.randrange(256)]))


def n_prims(sim, op):
    k = op[0]
    if k == 'add':
        return 2
    if k == 'clear':
        return 1
    if k == 'delfrom':
        return max(0, len(sim.sizes) - op[1]) // 10 + 1
    if k == 'delto':
        return 1 + 2 * max(0, len(sim.sizes) - op[1])
    if k == 'timer':
        return 0 if sim.saved else 2
    return 0


def sim_apply(sim, op, executed=None):
    """Advance the size bookkeeping (only an approximation after a kill; it only steers choices)."""
    k = op[0]
    if k == 'add':
        n = len(cmd_bytes(op[1])) if op[1][0] == 'lit' else op[1][1]
        sim.note_write_end(sim.cur() + n + 24)
        sim.big_budget -= n
        if executed is None or executed >= 2:
            sim.sizes.append(n)
    elif k == 'clear':
        if executed is None or executed >= 1:
            sim.sizes = []
    elif k == 'delfrom':
        if executed is None or executed >= n_prims(sim, op):
            del sim.sizes[op[1]:]
    elif k == 'delto':
        kept = sim.sizes[op[1]:]
        if executed is None or executed >= 1 + 2 * len(kept):
            sim.sizes = kept
        elif executed >= 1:
            sim.sizes = kept[:(executed - 1) // 2]
    elif k == 'setcommit':
        sim.saved = False
    elif k == 'timer':
        if executed is None:
            sim.saved = True


def gen_op(rng, sim, weights):
    kind = rng.choices(['add', 'clear', 'delfrom', 'delto', 'setcommit', 'timer'], weights)[0]
    n = len(sim.sizes)
    if kind == 'add':
        return ('add', gen_cmd(rng, gen_size(rng, sim)), gen_u64(rng), gen_u64(rng))
    if kind == 'clear':
        return ('clear',)
    if kind in ('delfrom', 'delto'):
        r = rng.random()
        if r < 0.1:
            k = n + rng.randrange(0, 3)
        elif r < 0.2:
            k = 0
        else:
            k = rng.randrange(0, n + 1)
        return (kind, k)
    if kind == 'setcommit':
        return ('setcommit', gen_commit(rng))
    return ('timer',)


def gen_case(seed, big_budget=6000):
    """A history: list of ('op', op) | ('reopen',) | ('kill', op, j)."""
    rng = random.Random(seed)
    sim = Sim()
    sim.big_budget = big_budget if rng.random() < 0.5 else (big_budget * 40 if rng.random() < 0.06 else 400)
    style = rng.random()
    if style < 0.25:     # long journals: the "every 10 removed entries" branch of deleteEntriesFrom
        weights = [70, 1, 9, 5, 5, 5]
        n_steps = rng.randrange(20, 70)
    elif style < 0.4:    # kill heavy
        weights = [40, 5, 15, 15, 12, 13]
        n_steps = rng.randrange(5, 30)
    else:
        weights = [45, 4, 11, 8, 12, 12]
        n_steps = rng.randrange(1, 30)
    p_kill = 0.5 if 0.25 <= style < 0.4 else 0.12
    p_reopen = 0.08
    steps = []
    after_big = 0
    for _ in range(n_steps):
        if sim.fsize > 65536:        # keep the cases with a huge file short (model evaluation cost)
            after_big += 1
            if after_big > 8:
                break
        r = rng.random()
        if r < p_reopen:
            steps.append(('reopen',))
            sim.saved = True
            continue
        op = gen_op(rng, sim, weights)
        if rng.random() < p_kill:
            total = n_prims(sim, op)
            j = rng.randrange(0, total + 1) if rng.random() < 0.9 else total + 1
            steps.append(('kill', op, j))
            sim_apply(sim, op, executed=min(j, total))
            sim.saved = True
        else:
            steps.append(('op', op))
            sim_apply(sim, op)
    return steps


# ---- running a history on the implementation -----------------------------------------------------

def is_range_keeping(old, new, lo, hi):
    """new == old[a:b] for some a <= b, and the range [a, b) contains [lo, hi) (when lo < hi)."""
    n = len(old)
    lo, hi = min(lo, n), min(hi, n)
    m = len(new)
    for a in range(0, n - m + 1):
        if old[a:a + m] == new:
            if lo >= hi or (a <= lo and a + m >= hi):
                return True
    return False


def apply_ref(ref, op):
    k = op[0]
    if k == 'add':
        ref.append((cmd_bytes(op[1]), op[2], op[3]))
    elif k == 'clear':
        del ref[:]
    elif k == 'delfrom':
        del ref[op[1]:]
    elif k == 'delto':
        ref[:] = ref[op[1]:]


def do_op(j, op):
    k = op[0]
    if k == 'add':
        j.add(cmd_bytes(op[1]), op[2], op[3])
    elif k == 'clear':
        j.clear()
    elif k == 'delfrom':
        j.deleteEntriesFrom(op[1])
    elif k == 'delto':
        j.deleteEntriesTo(op[1])
    elif k == 'setcommit':
        j.setRaftCommitIndex(op[1])
    elif k == 'timer':
        j.onOneSecondTimer()
    else:
        raise ValueError(k)


def entries_of(j):
    return [j[i] for i in range(len(j))]


def read_meta(J, path):
    try:
        v = J.loads(_builtin_open(path, 'rb').read())
        x = v.get('raftCommitIndex')
        return [0, 0] if x is None else [1, x]
    except Exception:
        return [0, 0]


def observe(J, j, path, prims_log):
    rf = j._FileJournal__journalFile
    mm = rf._ResizableFile__mm
    size = mm.size()
    if size > MAX_FILE:
        return [-3, size], None
    content = mm[:]
    assert len(content) == size
    entries = entries_of(j)
    hdr = int.from_bytes(content[36:40], 'little')
    return ([len(j), j._FileJournal__currentOffset, hdr, size, hash_fin(hash_bytes(h0(5), content)),
             hash_entries(entries), j.getRaftCommitIndex(), 1 if j._FileJournal__metaSaved else 0]
            + read_meta(J, path + '.meta') + read_meta(J, path + '.meta.tmp')
            + [len(prims_log), hash_prims(prims_log)]), entries


class _Stop(Exception):
    """The history cannot be continued (file too large to observe)."""


def _one_step(J, R, i, st):
    """Executes step i on the implementation, appends monitor records to R, returns the observation."""
    path, prims, stats = R['path'], R['prims'], R['stats']
    ref, sets = R['ref'], R['sets']
    if st[0] == 'op':
        op = st[1]
        if op[0] == 'setcommit':
            sets.add(op[1])
        prims.begin()
        try:
            do_op(R['j'], op)
        finally:
            log = prims.end()
        apply_ref(ref, op)
        ob, entries = observe(J, R['j'], path, log)
        if entries is None:
            return ob
        if entries != ref:
            R['problems'].append({'step': i, 'what': 'entries differ from the plain list after %s: file journal has %d, list has %d'
                                                      % (op[0], len(entries), len(ref))})
            ref[:] = entries
        return ob
    if st[0] == 'reopen':
        R['j']._destroy()
        R['j'] = None
        R['j'] = J.FileJournal(path)
        stats['reopens'] += 1
        ob, entries = observe(J, R['j'], path, [])
        if entries is None:
            return ob
        if entries != ref:
            R['problems'].append({'step': i, 'what': 'entries differ from the plain list after close and reopen: '
                                                      'file journal has %d, list has %d' % (len(entries), len(ref))})
            ref[:] = entries
        if R['j'].getRaftCommitIndex() not in (sets | {1}):
            R['problems'].append({'step': i, 'what': 'commit index %r read back after reopen was never set' % (R['j'].getRaftCommitIndex(),)})
        return ob
    _, op, jn = st
    if op[0] == 'setcommit':
        sets.add(op[1])
    old = list(ref)
    prims.begin(budget=jn)
    fired = False
    try:
        do_op(R['j'], op)
    except Kill:
        fired = True
    finally:
        log = prims.end()
    stats['kills_fired' if fired else 'kills_late'] += 1
    try:
        R['j']._destroy()      # drop the dead object (closes the mapping; stores already hit the file)
    except Exception:
        pass
    R['j'] = None
    R['j'] = J.FileJournal(path)
    ob, entries = observe(J, R['j'], path, log)
    if entries is None:
        return ob
    # ---- the property: contiguous range of the previous entries containing what was to be kept
    n = len(old)
    if op[0] == 'add':
        e = (cmd_bytes(op[1]), op[2], op[3])
        ok = entries == old or entries == old + [e]
        what = 'append is not all-or-nothing'
    elif op[0] == 'clear':
        ok = is_range_keeping(old, entries, 0, 0)
        what = 'killed clear left something that is not a range of the old entries'
    elif op[0] == 'delfrom':
        ok = is_range_keeping(old, entries, 0, min(op[1], n))
        what = 'killed deleteEntriesFrom(%d) lost an entry it was meant to keep' % op[1]
    elif op[0] == 'delto':
        ok = is_range_keeping(old, entries, min(op[1], n), n)
        what = 'killed deleteEntriesTo(%d) lost an entry it was meant to keep' % op[1]
    else:
        ok = entries == old
        what = 'killed %s changed the entries' % op[0]
    if not ok:
        rec = {'step': i, 'what': '%s: had %d entries, reopened with %d (kill after %d primitive writes)'
                                  % (what, n, len(entries), len(log)),
               'op': op[0], 'executed': len(log), 'fired': fired}
        # D6 signature: the kill struck strictly inside deleteEntriesTo
        if op[0] == 'delto' and fired and len(log) > 0:
            R['d6'].append(rec)
        else:
            R['problems'].append(rec)
    if R['j'].getRaftCommitIndex() not in (sets | {1}):
        R['problems'].append({'step': i, 'what': 'commit index %r stored after a kill was never set' % (R['j'].getRaftCommitIndex(),)})
    ref[:] = entries
    return ob


def run_history(J, steps, workdir):
    """Runs the history on a real FileJournal in workdir.  Returns dict:
    steps (the steps actually run: the history stops at the first step on which the implementation
    raised, timed out or produced a file too large to read back), expected (one observation per step
    run; [-2] = raised, [-3, size] = file too large, [-4] = timeout: none of them can equal a model
    observation), problems (monitor records), d6 (records with the D6 signature), stats."""
    import signal
    os.makedirs(workdir, exist_ok=True)
    path = os.path.join(workdir, 'journal.bin')
    for suffix in ('', '.meta', '.meta.tmp'):
        if os.path.exists(path + suffix):
            os.remove(path + suffix)
    prims = Prims(J)
    stats = {'kills_fired': 0, 'kills_late': 0, 'max_len': 0, 'max_file': 0, 'reopens': 0, 'grow': 0, 'delfrom_ge10': 0}
    R = {'path': path, 'prims': prims, 'stats': stats, 'ref': [], 'sets': set(), 'problems': [], 'd6': [], 'j': None}
    expected = []
    done = []
    old_handler = None
    try:
        old_handler = signal.signal(signal.SIGALRM, _alarm)
        signal.alarm(CASE_TIMEOUT_S)
    except Exception:
        old_handler = None
    try:
        try:
            R['j'] = J.FileJournal(path)
        except Exception as e:
            R['problems'].append({'step': -1, 'what': 'FileJournal() on a fresh path raised %r' % (e,)})
            steps = []
        for i, st in enumerate(steps):
            size_before = os.path.getsize(path)
            if st[0] != 'reopen' and st[1][0] == 'delfrom' and len(R['ref']) - st[1][1] >= 10:
                stats['delfrom_ge10'] += 1
            done.append(st)
            try:
                ob = _one_step(J, R, i, st)
            except CaseTimeout:
                expected.append([-4])
                R['problems'].append({'step': i, 'what': 'step %s did not finish within %d s' % (st[0], CASE_TIMEOUT_S)})
                break
            except Exception as e:
                expected.append([-2])
                R['problems'].append({'step': i, 'what': '%s raised %s' % (
                    'reopen' if st[0] == 'reopen' else ('reopen after a killed ' if st[0] == 'kill' else '') + st[1][0],
                    repr(e)[:200])})
                break
            expected.append(ob)
            if ob[0] == -3:
                R['problems'].append({'step': i, 'what': 'journal file grew to %d bytes' % ob[1]})
                break
            stats['max_len'] = max(stats['max_len'], len(R['ref']))
            size_after = os.path.getsize(path)
            stats['max_file'] = max(stats['max_file'], size_after)
            if size_after > size_before:
                stats['grow'] += 1
    finally:
        try:
            signal.alarm(0)
            if old_handler is not None:
                signal.signal(signal.SIGALRM, old_handler)
        except Exception:
            pass
        prims.uninstall()
        if R['j'] is not None:
            try:
                R['j']._destroy()
            except Exception:
                pass
    return {'steps': done, 'expected': expected, 'problems': R['problems'], 'd6': R['d6'], 'stats': stats}


# ---- rendering as Gallina -------------------------------------------------------------------------

def v_Z(z):
    return '(%d)' % z if z < 0 else '%d' % z


def v_cmd(c):
    if c[0] == 'lit':
        return '[' + ';'.join(str(x) for x in c[1]) + ']%N'
    return '(pattern %d %d %d)' % (c[1], c[2], c[3])


def v_op(op):
    k = op[0]
    if k == 'add':
        return '(OAdd %s %s %s)' % (v_cmd(op[1]), v_Z(op[2]), v_Z(op[3]))
    if k == 'clear':
        return 'OClear'
    if k == 'delfrom':
        return '(ODelFrom %d)' % op[1]
    if k == 'delto':
        return '(ODelTo %d)' % op[1]
    if k == 'setcommit':
        return '(OSetCommit %s)' % v_Z(op[1])
    return 'OTimer'


def v_step(st):
    if st[0] == 'op':
        return '(SOp %s)' % v_op(st[1])
    if st[0] == 'reopen':
        return 'SReopen'
    return '(SKill %s %d)' % (v_op(st[1]), st[2])


def v_case(name, steps, expected):
    hs = '[' + ';\n  '.join(v_step(s) for s in steps) + ']'
    ex = '[' + '; '.join(v_Z(obs_digest(o)) for o in expected) + ']'
    if len(hs) + len(ex) > MAX_LITERAL:
        raise ValueError('case %s renders to %d characters of Gallina (limit %d)' % (name, len(hs) + len(ex), MAX_LITERAL))
    return ('Definition h_%s : list step := %s.\nDefinition ex_%s : list Z := %s.\n' % (name, hs, name, ex),
            '(check_case ver h_%s ex_%s)' % (name, name))


def v_header(J):
    return ('From Coq Require Import ZArith NArith List.\n'
            'From PSO Require Import Base.PyBytes Journal.Model.\n'
            'Import ListNotations.\nOpen Scope Z_scope.\n'
            'Definition ver : bytes := [%s]%%N.\n' % ';'.join(str(x) for x in J.APP_VERSION))
