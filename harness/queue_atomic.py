"""Atomicity of the real FastQueue at the granularity of its deque and lock operations.

The C19 model (coq/Queue/Model.v) treats put_nowait / get_nowait as atomic actions.  This module checks that
assumption on the implementation: small programs of 2-3 threads are run under EVERY interleaving of their deque
operations (append, pop, popleft, len ...) and lock acquisitions, and each outcome (results of all calls + final
content) must be the outcome of some sequential order of the calls that respects each thread's program order.

Instrumentation lives in this process only: the names `deque` and `threading` inside pysyncobj.fast_queue are
replaced by scheduled versions while a case runs (restored afterwards); nothing in /repo is edited."""
import itertools
import os
import sys
import threading as _threading
from collections import deque as _deque

REPO = (os.environ.get('VERIF_REPO') or '/repo')
if REPO not in sys.path:
    sys.path.insert(0, REPO)

try:
    import queue as _Q
except ImportError:                                   # pragma: no cover
    import Queue as _Q


class _Sched(object):
    def __init__(self, choices):
        self.choices = list(choices)      # prefix of thread choices to follow, then always the lowest runnable
        self.taken = []                   # (choice made, number of runnable alternatives) per step
        self.cv = _threading.Condition()
        self.waiting = {}                 # thread index -> 'run' | ('lock', lockobj)
        self.current = None
        self.done = set()
        self.n = 0
        self.tls = _threading.local()
        self.stuck = False

    # called by instrumented operations from worker threads
    def yield_point(self, blocked_on=None):
        i = getattr(self.tls, 'idx', None)
        if i is None:
            return
        with self.cv:
            self.waiting[i] = ('lock', blocked_on) if blocked_on is not None else 'run'
            self.current = None
            self.cv.notify_all()
            while self.current != i:
                self.cv.wait(5.0)
                if self.stuck:
                    raise RuntimeError('schedule abandoned')
            self.waiting.pop(i, None)

    def finish(self):
        i = self.tls.idx
        with self.cv:
            self.done.add(i)
            self.current = None
            self.cv.notify_all()

    def runnable(self):
        out = []
        for i, w in sorted(self.waiting.items()):
            if w == 'run' or (w[0] == 'lock' and not w[1].held):
                out.append(i)
        return out

    def drive(self):
        with self.cv:
            while True:
                # wait until nobody is running
                while self.current is not None:
                    self.cv.wait(5.0)
                if len(self.done) == self.n:
                    return True
                while len(self.waiting) + len(self.done) < self.n:
                    self.cv.wait(5.0)
                r = self.runnable()
                if not r:
                    self.stuck = True
                    self.cv.notify_all()
                    return False          # deadlock
                k = len(self.taken)
                c = self.choices[k] if k < len(self.choices) and self.choices[k] in r else r[0]
                self.taken.append((c, list(r)))
                self.current = c
                self.cv.notify_all()


def _make_shims(sched):
    class SLock(object):
        def __init__(self):
            self.held = False

        def acquire(self, *a, **k):
            while True:
                sched.yield_point(blocked_on=self if self.held else None)
                if not self.held:
                    self.held = True
                    return True

        def release(self):
            self.held = False

        def __enter__(self):
            self.acquire()
            return self

        def __exit__(self, *a):
            self.release()

    class SDeque(_deque):
        def append(self, x):
            sched.yield_point()
            return _deque.append(self, x)

        def appendleft(self, x):
            sched.yield_point()
            return _deque.appendleft(self, x)

        def pop(self):
            sched.yield_point()
            return _deque.pop(self)

        def popleft(self):
            sched.yield_point()
            return _deque.popleft(self)

        def __len__(self):
            sched.yield_point()
            return _deque.__len__(self)

        def __bool__(self):
            sched.yield_point()
            return _deque.__len__(self) > 0
        __nonzero__ = __bool__

    class SThreading(object):
        def __getattr__(self, name):
            return getattr(_threading, name)

        def Lock(self):
            return SLock()

        def RLock(self):
            return SLock()
    return SDeque, SThreading()


def _content(q):
    for name in ('_FastQueue__queue',):
        if hasattr(q, name):
            return list(_deque.__iter__(getattr(q, name)))
    raise RuntimeError('FastQueue has no __queue attribute any more')


def run_schedule(FQ, max_size, prefill, programs, choices):
    """one run; programs: list (per thread) of ops ('put', v) | ('get',).  Returns (results, final, taken, deadlock)"""
    sched = _Sched(choices)
    SDeque, SThreading = _make_shims(sched)
    _missing = object()
    saved = (getattr(FQ, 'deque', _missing), getattr(FQ, 'threading', _missing))
    FQ.deque, FQ.threading = SDeque, SThreading
    try:
        q = FQ.FastQueue(max_size)
        for v in prefill:
            q.put_nowait(v)               # driver thread: not scheduled (tls.idx unset)
        results = [[None] * len(p) for p in programs]
        sched.n = len(programs)

        def worker(i):
            sched.tls.idx = i
            try:
                sched.yield_point()
                for j, op in enumerate(programs[i]):
                    try:
                        if op[0] == 'put':
                            q.put_nowait(op[1])
                            results[i][j] = ('ok',)
                        else:
                            results[i][j] = ('got', q.get_nowait())
                    except _Q.Full:
                        results[i][j] = ('full',)
                    except _Q.Empty:
                        results[i][j] = ('empty',)
                    except RuntimeError:
                        raise
                    except Exception as e:
                        results[i][j] = ('raised', type(e).__name__)
            except RuntimeError:
                pass
            finally:
                sched.finish()
        ts = [_threading.Thread(target=worker, args=(i,)) for i in range(len(programs))]
        for t in ts:
            t.daemon = True
            t.start()
        ok = sched.drive()
        for t in ts:
            t.join(2.0)
        return results, _content(q), sched.taken, not ok
    finally:
        for name, val in zip(('deque', 'threading'), saved):
            if val is _missing:
                delattr(FQ, name)
            else:
                setattr(FQ, name, val)


def sequential_outcomes(max_size, prefill, programs):
    """all outcomes of atomic executions: set of (results tuple, final content tuple)"""
    out = set()
    idx = [i for i, p in enumerate(programs) for _ in p]
    for order in set(itertools.permutations(idx)):
        q = list(prefill)
        pos = [0] * len(programs)
        res = [[None] * len(p) for p in programs]
        for i in order:
            op = programs[i][pos[i]]
            if op[0] == 'put':
                if len(q) > max_size:
                    res[i][pos[i]] = ('full',)
                else:
                    q.append(op[1])
                    res[i][pos[i]] = ('ok',)
            else:
                res[i][pos[i]] = ('got', q.pop(0)) if q else ('empty',)
            pos[i] += 1
        out.add((tuple(tuple(r) for r in res), tuple(q)))
    return out


def explore(FQ, max_size, prefill, programs, limit=4000):
    """every interleaving (DFS over the scheduler's choice points).  Returns (problems, schedules run)"""
    allowed = sequential_outcomes(max_size, prefill, programs)
    problems = []
    stack = [[]]
    runs = 0
    seen = set()
    while stack and runs < limit:
        choices = stack.pop()
        results, final, taken, deadlock = run_schedule(FQ, max_size, prefill, programs, choices)
        runs += 1
        sig = tuple(c for c, _ in taken)
        if sig in seen:
            continue
        seen.add(sig)
        if deadlock:
            problems.append({'what': 'deadlock', 'schedule': list(sig), 'programs': programs, 'prefill': prefill, 'max_size': max_size})
        else:
            outcome = (tuple(tuple(r) for r in results), tuple(final))
            if outcome not in allowed:
                problems.append({'what': 'outcome of no atomic execution', 'schedule': list(sig), 'programs': programs,
                                 'prefill': list(prefill), 'max_size': max_size,
                                 'results': [list(map(list, r)) for r in results], 'final': list(final)})
        if problems and len(problems) >= 3:
            break
        # branch: at every step beyond the forced prefix, try the other runnable threads
        for k in range(len(choices), len(taken)):
            c, alts = taken[k]
            for a in alts:
                if a != c:
                    stack.append([x for x, _ in taken[:k]] + [a])
    return problems, runs


CASES = [
    # (max_size, prefill, programs)
    (1, [10], [[('put', 1)], [('put', 2)]]),                       # two producers at the limit
    (1, [10, 11], [[('put', 1)], [('put', 2)]]),                   # over the limit: both refused
    (0, [], [[('put', 1)], [('put', 2)]]),
    (1, [10], [[('put', 1)], [('get',)]]),                         # producer and consumer
    (1, [], [[('put', 1)], [('get',)]]),
    (2, [10], [[('put', 1), ('put', 3)], [('put', 2)]]),
    (1, [10], [[('put', 1)], [('put', 2)], [('get',)]]),           # three threads
    (0, [], [[('put', 1), ('get',)], [('put', 2)]]),
]


def check_all(limit=4000):
    import pysyncobj.fast_queue as FQ
    problems, total = [], 0
    for max_size, prefill, programs in CASES:
        p, runs = explore(FQ, max_size, prefill, programs, limit)
        total += runs
        problems += p
    return problems, total


if __name__ == '__main__':
    p, n = check_all()
    print('schedules', n, 'problems', len(p))
    for x in p[:3]:
        print(x)
