"""Batch correspondence run used while developing: python raft_batch.py <first_seed> <n> <events>"""
import os, sys, multiprocessing as mp
sys.path.insert(0, '/verif')
from harness import raft_corr as RC
from vlib import coq

WORK = '/verif/.work/raftbatch'

def worker(args):
    seeds, n_events, gen = args
    import resource
    resource.setrlimit(resource.RLIMIT_AS, (4 << 30, 4 << 30))
    out = []
    for s in seeds:
        try:
            from harness.raft_monitor import Monitor
            mon = Monitor()
            rec = getattr(RC, gen)(s, n_events, workdir=os.path.join(WORK, 'w%d' % s), listeners=[mon])
            d, c = RC.v_case('t%d' % s, rec.cfg, rec.mevents, rec.digests)
            rec.kinds['MON'] = mon.records[:3]
            out.append((s, d, c, rec.kinds, None))
        except Exception:
            import traceback
            out.append((s, None, None, None, traceback.format_exc()))
    return out

def main(first, n, n_events, gen='random_trace'):
    os.makedirs(WORK, exist_ok=True)
    seeds = list(range(first, first + n))
    nproc = int(os.environ.get('NPROC', '8'))
    parts = [(seeds[i::nproc], n_events, gen) for i in range(nproc) if seeds[i::nproc]]
    with mp.get_context('fork').Pool(len(parts)) as pool:
        res = sorted(x for part in pool.map(worker, parts) for x in part)
    crashed = [r for r in res if r[4]]
    for r in crashed[:3]:
        print('HARNESS CRASH seed', r[0], r[4][-1500:])
    good = [r for r in res if not r[4]]
    files = []
    groups = []
    for i in range(0, len(good), 10):
        grp = good[i:i + 10]
        path = os.path.join(WORK, 'cases_%d.v' % i)
        with open(path, 'w') as f:
            f.write(RC.HEADER)
            for s, d, c, k, _ in grp:
                f.write(d)
            f.write('Eval vm_compute in [%s].\n' % ';\n'.join(c for _, _, c, _, _ in grp))
        files.append(path); groups.append(grp)
    out = coq.coqc_eval(files, WORK, jobs=12)
    bad = []
    for path, grp in zip(files, groups):
        rc, txt, dt = out[path]
        if rc != 0:
            print('COQC FAILED', path, txt[-800:]); continue
        vals = coq.parse_coq_value(txt)
        for (s, _, _, k, _), v in zip(grp, vals):
            if v is not None:
                bad.append((s, v))
    kinds = {}
    for r in good:
        mon = r[3].pop('MON', [])
        if mon:
            print('MONITOR seed', r[0], mon)
        for k, v in r[3].items():
            kinds[k] = kinds.get(k, 0) + v
    print('traces', len(good), 'crashed', len(crashed), 'kinds', kinds)
    print('divergences', bad[:20])
    return bad

if __name__ == '__main__':
    main(int(sys.argv[1]), int(sys.argv[2]), int(sys.argv[3]), *(sys.argv[4:5]))
