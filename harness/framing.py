"""Implementation side of the C13 correspondence: the real TcpConnection driven through a
fake socket / poller / clock, with the decode oracle recorded.

A *case* is a pair of connections S (sender) and R (receiver) joined by a byte pipe the
harness controls; it yields two model cases (one per connection): event list + expected
observation per event, plus the oracle table for R.
"""
import errno
import pickle as _pickle
import socket
import os
import sys
import zlib as _zlib

REPO = (os.environ.get('VERIF_REPO') or '/repo')
if REPO not in sys.path:
    sys.path.insert(0, REPO)


def load_impl():
    import importlib
    import pysyncobj.tcp_connection as T
    return T


class Clock(object):
    def __init__(self):
        self.now = 1000.0

    def __call__(self):
        return self.now


class FakePoller(object):
    def __init__(self):
        self.subs = {}

    def subscribe(self, descr, cb, mask):
        self.subs[descr] = (cb, mask)

    def unsubscribe(self, descr):
        self.subs.pop(descr, None)


class SocketShim(object):
    """Stands in for the `socket` module inside tcp_connection: socket.socket(...) hands out the
    FakeSock the harness prepared (TcpConnection.connect() creates its socket itself); everything
    else (error, errno, inet_aton, constants) is the real module."""

    def __init__(self, real):
        self._real = real
        self.pending = None

    def socket(self, *a, **k):
        s = self.pending
        self.pending = None
        if s is None:
            raise RuntimeError('harness: connect() without a prepared FakeSock')
        return s

    def __getattr__(self, name):
        return getattr(self._real, name)


class FakeSock(object):
    def __init__(self, fd, sink=None):
        self.fd = fd
        self.sscript = []
        self.rscript = []
        self.so = []
        self.accepted = sink if sink is not None else bytearray()   # shared by all sockets of one Conn
        self.closed = False

    def connect(self, addr):
        raise socket.error(errno.EINPROGRESS, 'in progress')

    def fileno(self):
        return self.fd

    def setsockopt(self, *a):
        pass

    def setblocking(self, *a):
        pass

    def close(self):
        self.closed = True

    def getsockopt(self, level, opt):
        if self.so:
            return self.so.pop(0)
        return 0

    def send(self, data):
        if not self.sscript:
            raise socket.error(errno.EAGAIN, 'eagain')
        r = self.sscript.pop(0)
        if r[0] == 'acc':
            n = max(1, min(r[1], len(data)))
            self.accepted += data[:n]
            return n
        if r[0] == 'zero':
            return 0
        if r[0] == 'neg':
            return -1
        if r[0] == 'eagain':
            raise socket.error(errno.EAGAIN, 'eagain')
        raise socket.error(errno.ECONNRESET, 'reset')

    def recv(self, n):
        if not self.rscript:
            raise socket.error(errno.EAGAIN, 'eagain')
        r = self.rscript.pop(0)
        if r[0] == 'chunk':
            self.so.insert(0, 1 if r[2] else 0)
            return bytes(r[1])
        if r[0] == 'eagain':
            raise socket.error(errno.EAGAIN, 'eagain')
        raise socket.error(errno.ECONNRESET, 'reset')


class Oracle(object):
    """Shims for tcp_connection.zlib / tcp_connection.pickle that record the decode verdicts."""

    def __init__(self, T):
        self.table = {}      # payload bytes -> msg id or None
        self.ids = {}        # pickled message -> id
        self.cur = None
        self.T = T

    def id_of(self, msg):
        k = repr(msg)
        if k not in self.ids:
            self.ids[k] = len(self.ids) + 1
        return self.ids[k]

    # zlib shim
    def compress(self, data, level=-1):
        return _zlib.compress(data, level)

    def decompress(self, data):
        self.cur = bytes(data)
        self.table.setdefault(self.cur, None)
        return _zlib.decompress(data)


class PickleShim(object):
    def __init__(self, real, oracle):
        self.real = real
        self.oracle = oracle

    def dumps(self, obj, *a, **k):
        return self.real.dumps(obj, *a, **k)

    def loads(self, data):
        res = self.real.loads(data)
        self.oracle.table[self.oracle.cur] = self.oracle.id_of(res)
        return res

    def __getattr__(self, name):
        return getattr(self.real, name)


class Conn(object):
    """One real TcpConnection with its fakes, plus the log of model events/observations.

    reconnect=True installs an onDisconnected callback that calls connect() at once, like
    TCPTransport._onDisconnected -> _connectIfNecessarySingle does; every connect() (re-entrant
    or by the `connect` op) gets a fresh FakeSock and starts a new *generation*; `log` is the
    chronological record ('connect', g) / ('connected', g) / ('msg', g, id) / ('disc', g) with g
    the generation current at that moment.

    reuse_fd=True: the socket every connect() creates has the descriptor NUMBER of the one disconnect() closed
    (an OS hands out the lowest free number); default: a fresh number per generation."""

    def __init__(self, T, clock, oracle, fd, timeout, reconnect=False, reuse_fd=False):
        self.T = T
        self.accepted = bytearray()     # everything any socket of this connection accepted
        self.fd0 = fd
        self.gen = 1
        self.sock = FakeSock(fd, self.accepted)
        self.poller = FakePoller()
        self.delivered = []
        self.disc = 0
        self.conn_calls = 0
        self.oracle = oracle
        self.reconnect = reconnect
        self.reuse_fd = reuse_fd
        self.log = [('connect', 1), ('connected', 1)]
        self.c = T.TcpConnection(self.poller, onMessageReceived=self._on_msg, onConnected=self._on_conn,
                                 onDisconnected=self._on_disc,
                                 socket=self.sock, timeout=timeout, sendBufferSize=64, recvBufferSize=64)
        self.clock = clock
        self.events = []      # model events (python tuples)
        self.expected = []    # observations
        self.raised = []
        self.timeout = timeout
        self.t_init = clock.now
        self.all_delivered = []
        self.disconnected_at = None
        self.no_write_interest = []
        self.wgen = {1: [0, b'']}

    def _on_msg(self, m):
        i = self.oracle.id_of(m)
        self.delivered.append(i)
        self.log.append(('msg', self.gen, i))

    def _on_conn(self):
        self.conn_calls += 1
        self.log.append(('connected', self.gen))

    def _on_disc(self):
        self.disc += 1
        self.log.append(('disc', self.gen))
        if self.reconnect:
            self._do_connect()

    def _do_connect(self):
        self.gen += 1
        self.wgen[self.gen] = [len(self.accepted), b'']     # where this connection's bytes start, what it was asked to send
        s = FakeSock(self.fd0 if self.reuse_fd else self.fd0 + 100 * self.gen, self.accepted)
        self.T.socket.pending = s
        ok = self.c.connect('127.0.0.1', 4321)
        if not ok:
            raise RuntimeError('harness: connect() returned False')
        self.sock = s
        self.log.append(('connect', self.gen))

    def _observe(self, acc_before):
        c = self.c
        st = 2 if c.state == self.T.CONNECTION_STATE.CONNECTED else (0 if c.state == self.T.CONNECTION_STATE.DISCONNECTED else 1)
        acc = bytes(self.accepted[acc_before:])
        ob = [st, len(c._TcpConnection__readBuffer), len(c._TcpConnection__writeBuffer), self.disc, self.conn_calls, 0,
              len(acc)] + list(acc) + [len(self.delivered)] + list(self.delivered)
        # last element: the poller subscription of the connection's descriptor (Model.sub_code): 0 = self.__fileno is
        # None or not subscribed, else 8 + mask (POLL_EVENT_TYPE bits READ=1 WRITE=2 ERROR=4)
        fd_now = getattr(c, '_TcpConnection__fileno', None)
        sub_now = self.poller.subs.get(fd_now) if fd_now is not None else None
        ob.append(0 if sub_now is None else 8 + (sub_now[1] & 7))
        self.all_delivered += self.delivered
        # bytes the socket did not take wait in the write buffer: the connection must have asked the poller for
        # writability, otherwise they are sent only if the application happens to call send() again
        fd = getattr(c, '_TcpConnection__fileno', None)
        sub = self.poller.subs.get(fd) if fd is not None else None
        if st == 2 and len(c._TcpConnection__writeBuffer) > 0:
            from pysyncobj.poller import POLL_EVENT_TYPE as _P
            if sub is None or not (sub[1] & _P.WRITE):
                self.no_write_interest.append(len(self.events) - 1)
        if st == 0 and self.disconnected_at is None:
            self.disconnected_at = len(self.events)
        self.delivered = []
        self.disc = 0
        self.conn_calls = 0
        return ob

    def writer_problems(self):
        """the writer side of C13 on one connection object through its lifetimes: what each socket accepted is a prefix
        of the frames of the messages send() was given while that socket was the connection's (CONNECTING included) -
        nothing dropped from the middle, nothing of an earlier lifetime"""
        out = []
        gens = sorted(self.wgen)
        for i, g_ in enumerate(gens):
            start, want = self.wgen[g_]
            end = self.wgen[gens[i + 1]][0] if i + 1 < len(gens) else len(self.accepted)
            got = bytes(self.accepted[start:end])
            if not want.startswith(got):
                k = next((j for j in range(min(len(got), len(want))) if got[j] != want[j]), min(len(got), len(want)))
                out.append('connection #%d: the socket accepted %d bytes that are not a prefix of the %d bytes of the frames '
                           'send() was given on it (first difference at byte %d): bytes were dropped or reordered'
                           % (g_, len(got), len(want), k))
                break
        return out

    def _guard(self, fn):
        acc_before = len(self.accepted)
        try:
            fn()
            ob = self._observe(acc_before)
        except Exception as e:      # an exception escaping the event loop is itself a C13 violation
            self.raised.append((len(self.events) - 1, repr(e)))
            ob = self._observe(acc_before)
            ob[5] = 7               # can never equal the model's miss flag (0/1)
        self.expected.append(ob)

    def send(self, msg, script):
        payload = _zlib.compress(_pickle.dumps(msg, 2), 3)
        self.sock.sscript = list(script)
        self.events.append(('send', int(self.clock.now), payload, list(script)))
        if self.c.state != self.T.CONNECTION_STATE.DISCONNECTED and self.gen in self.wgen:
            import struct as _struct
            self.wgen[self.gen][1] += _struct.pack('i', len(payload)) + payload
        self._guard(lambda: self.c.send(msg))
        self.sock.sscript = []
        return payload

    def poll(self, rd, wr, er, soerr, sscript, rscript):
        P = None
        from pysyncobj.poller import POLL_EVENT_TYPE as P
        mask = (P.READ if rd else 0) | (P.WRITE if wr else 0) | (P.ERROR if er else 0)
        self.sock.sscript = list(sscript)
        self.sock.rscript = list(rscript)
        self.sock.so = [1 if soerr else 0]
        self.events.append(('poll', int(self.clock.now), rd, wr, er, soerr, list(sscript), list(rscript)))
        self._guard(lambda: self.c._TcpConnection__processConnection(self.sock.fd, mask))
        self.sock.sscript = []
        self.sock.rscript = []
        self.sock.so = []

    def disconnect(self):
        self.events.append(('disconnect', int(self.clock.now)))
        self._guard(lambda: self.c.disconnect())

    def connect(self):
        """conn.connect(host, port) called from outside (first connect of an outgoing connection,
        or TCPTransport's periodic retry)."""
        self.events.append(('connect', int(self.clock.now)))
        self._guard(self._do_connect)


def install(T, clock):
    oracle = Oracle(T)
    T.monotonicTime = clock
    T.zlib = oracle
    T.pickle = PickleShim(T.pickle, oracle)
    T.socket = SocketShim(socket)       # only this module's view of `socket`; undone by uninstall
    return oracle


def uninstall(T):
    import importlib
    importlib.reload(T)


# ---- rendering of model events as Gallina --------------------------------------------

def v_bytes(b):
    return '[' + ';'.join(str(x) for x in b) + ']%N'


def v_sres(r):
    if r[0] == 'acc':
        return '(SAccept %d%%N)' % r[1]
    return {'zero': 'SZero', 'neg': 'SNeg', 'eagain': 'SEagain', 'err': 'SErr'}[r[0]]


def v_rres(r):
    if r[0] == 'chunk':
        return '(RChunk %s %s)' % (v_bytes(r[1]), 'true' if r[2] else 'false')
    return {'eagain': 'REagain', 'err': 'RErr'}[r[0]]


def v_bool(b):
    return 'true' if b else 'false'


def v_event(e):
    if e[0] == 'send':
        return '(ESend (%d)%%Z %s [%s])' % (e[1], v_bytes(e[2]), '; '.join(v_sres(r) for r in e[3]))
    if e[0] == 'poll':
        return '(EPoll (%d)%%Z %s %s %s %s [%s] [%s])' % (
            e[1], v_bool(e[2]), v_bool(e[3]), v_bool(e[4]), v_bool(e[5]),
            '; '.join(v_sres(r) for r in e[6]), '; '.join(v_rres(r) for r in e[7]))
    if e[0] == 'connect':
        return '(EConnect (%d)%%Z)' % e[1]
    return '(EDisconnect (%d)%%Z)' % e[1]


def v_case(name, conn, table):
    tbl = '[' + '; '.join('(%s, %s)' % (v_bytes(k), 'None' if v is None else '(Some %d%%N)' % v)
                          for k, v in sorted(table.items())) + ']'
    evs = '[' + ';\n  '.join(v_event(e) for e in conn.events) + ']'
    exp = '[' + ';\n  '.join(v_bytes(o) for o in conn.expected) + ']'
    return ('Definition tbl_%s : list (bytes * option N) := %s.\n'
            'Definition ev_%s : list event := %s.\n'
            'Definition ex_%s : list (list N) := %s.\n' % (name, tbl, name, evs, name, exp),
            '(check_case tbl_%s (%d)%%Z (%d)%%Z %s %s ev_%s ex_%s)' % (name, int(conn.t_init), int(conn.timeout),
                                                                          v_bool(conn.reconnect), v_bool(conn.reuse_fd),
                                                                          name, name))
