"""C17 harness: generated classes with versioned replicated methods, static observation of the
id / name tables, cluster scenarios through harness.sim, Gallina literals for coq/Versions/Model.v.

A *program* (spec) is
  {'classes': {cls: {'old': [[name, ver], ...], 'added': [[name, ver], ...]}},   cls 0 = the SyncObj subclass,
   'consumers': [cls of consumer 1, cls of consumer 2, ...],                      cls >= 1 = consumer classes
   'variant': 'append' | 'interleave' | 'subclass', 'order_seed': int}
Old code = the 'old' declarations; new code = old + added, every added version above every old one.
Classes are built by exec of generated source text (the `replicated` decorator injects <name>_v<ver>
into the class body's frame locals).
"""
import logging
import os
import pickle
import random
import re
import sys

from harness import sim as SIM

S = SIM.S
from pysyncobj import SyncObj, SyncObjConsumer, replicated      # noqa: E402  (path set by harness.sim)

# no name has the form <x>_v<digits>; chosen so that the '_v<ver>' suffix matters for the order
# ('A' < '0'..'9' < '_' < 'a'; 'u' < 'v' < 'w')
NAME_POOL = ['foo', 'fooA', 'foo0', 'foo_', 'fooa', 'foo_u', 'foo_v', 'foo_w', 'foo_v1x', 'foo_vv',
             'fo', 'bar', 'Bar', '_baz', 'a', 'a_', 'a_v', 'zz', 'op', 'op_v0a']
assert not any(re.search(r'_v\d+$', n) for n in NAME_POOL)


# ------------------------------------------------------------------------------------------------
# program generation
# ------------------------------------------------------------------------------------------------

def gen_spec(rng, small=False):
    n_cons = rng.choice([2, 2, 3])
    n_ccls = rng.randint(1, n_cons)
    consumers = [rng.randint(1, n_ccls) for _ in range(n_cons)]
    if n_cons >= 2 and rng.random() < 0.5:
        consumers[1] = consumers[0]                    # two consumers of one class
    used = sorted(set(consumers))
    consumers = [used.index(c) + 1 for c in consumers]
    n_ccls = len(used)
    base = rng.choice([0, 0, 0, 7, 8])                 # old versions base .. base+2 (two-digit versions when 8)
    classes = {}
    pool = NAME_POOL[:8] if small else NAME_POOL
    for cls in range(n_ccls + 1):
        names = rng.sample(pool, rng.randint(1, 3 if small else 4))
        old = []
        for nm in names:
            k = rng.random()
            if k < 0.45:
                vers = [0]
            elif k < 0.6:
                vers = [0, base + 1]
            elif k < 0.75:
                vers = [0, base + 1, base + 2]
            elif k < 0.85:
                vers = [base + 1]                      # not callable at version 0
            elif k < 0.93:
                vers = [0, base + 2]
            else:
                vers = [base + 2, 0]
            for v in vers:
                old.append([nm, v])
        rng.shuffle(old)
        if rng.random() < 0.15 and old:
            old.append(list(rng.choice(old)))          # the same (name, ver) declared twice
        classes[cls] = {'old': old, 'added': []}
    old_max = max(v for c in classes.values() for _, v in c['old'])
    for cls in classes:
        if rng.random() < 0.75:
            cand = [n for n, _ in classes[cls]['old']] + rng.sample(pool, 2)
            for nm in rng.sample(cand, rng.randint(1, min(3, len(cand)))):
                for v in sorted(rng.sample(range(old_max + 1, old_max + 4), rng.randint(1, 2))):
                    if [nm, v] not in classes[cls]['added']:
                        classes[cls]['added'].append([nm, v])
    if not any(c['added'] for c in classes.values()):
        nm = classes[0]['old'][0][0]
        classes[0]['added'].append([nm, old_max + 1])
    return {'classes': {str(k): v for k, v in classes.items()}, 'consumers': consumers,
            'variant': rng.choice(['append', 'interleave', 'subclass']), 'order_seed': rng.randrange(1 << 30)}


def class_decls(spec, cls, new):
    """declaration order of class cls in the old / new code (flattened: base class first)"""
    c = spec['classes'][str(cls)]
    old = [tuple(x) for x in c['old']]
    if not new:
        return old
    added = [tuple(x) for x in c['added']]
    if spec['variant'] == 'interleave':
        r = random.Random(spec['order_seed'] * 31 + cls)
        out = list(old)
        for a in added:
            out.insert(r.randint(0, len(out)), a)
        return out
    return old + added


def shape_of(spec, new):
    """the model's shape: [(owner, name, ver)] in declaration order per owner"""
    out = [(0, n, v) for n, v in class_decls(spec, 0, new)]
    for i, cls in enumerate(spec['consumers']):
        out += [(i + 1, n, v) for n, v in class_decls(spec, cls, new)]
    return out


def shape_max(shape):
    return max([0] + [v for _, _, v in shape])


def shape_keys(shape):
    seen = []
    for o, n, _ in shape:
        if (o, n) not in seen:
            seen.append((o, n))
    return seen


def expected_version(shape, owner, name, enabled):
    """the property text: newest implementation whose version is not above the enabled one"""
    vs = [v for o, n, v in shape if o == owner and n == name and v <= enabled]
    return max(vs) if vs else None


# ------------------------------------------------------------------------------------------------
# class construction
# ------------------------------------------------------------------------------------------------

def _method_src(name, ver, bare_ok, rnd):
    dec = '@replicated' if (ver == 0 and bare_ok and rnd.random() < 0.5) else '@replicated(ver=%d)' % ver
    return ('    %s\n'
            '    def %s(self, cid):\n'
            '        e = (self._owner, %r, %d, cid)\n'
            '        self.hist.append(e)\n'
            '        (self if self._owner == 0 else self._syncObj).ghist.append(e)\n'
            '        self._trace.append(e)\n'
            '        return %d\n' % (dec, name, name, ver, ver))


OBJ_INIT = '''
    def __init__(self, selfNode, others, conf, **kw):
        self._owner = 0
        self._trace = []
        self._hook = HOOK[0]
        self.cons = [cls(i + 1, self._trace) for i, cls in enumerate(type(self).CONS)]
        super(%(cls)s, self).__init__(selfNode, others, conf, consumers=self.cons, **kw)
        self.hist = []          # replicated state: after SyncObj.__init__, hence part of every dump
        self.ghist = []

    def _SyncObj__applyLogEntries(self):
        h = self._hook
        if h is None:
            return SyncObj._SyncObj__applyLogEntries(self)
        tok = h.before_apply(self)
        try:
            r = SyncObj._SyncObj__applyLogEntries(self)
        except BaseException as e:
            h.after_apply(self, tok, e)
            raise
        h.after_apply(self, tok, None)
        return r

    def _SyncObj__tryLogCompaction(self):
        h = self._hook
        ser = self._SyncObj__serializer
        before = ser._Serializer__pid
        r = SyncObj._SyncObj__tryLogCompaction(self)
        if h is not None and before == 0 and ser._Serializer__pid != 0:
            h.on_serialize(self, ser._Serializer__pid)
        return r

    def _SyncObj__loadDumpFile(self, clearJournal):
        r = SyncObj._SyncObj__loadDumpFile(self, clearJournal)
        if self._hook is not None:
            self._hook.on_load(self, clearJournal, r)
        return r
'''

CONS_INIT = '''
    def __init__(self, owner, trace):
        self._owner = owner
        self._trace = trace
        super(%(cls)s, self).__init__()
        self.hist = []          # replicated state of the consumer (SyncObjConsumer._serialize)
'''


def build_code(spec, new, hook_cell):
    """exec the generated source; returns {'Obj': class, 'source': text, 'shape': shape}"""
    rnd = random.Random(spec['order_seed'] + (1 if new else 0))
    src = []
    ncls = len(spec['classes'])
    sub = (new and spec['variant'] == 'subclass')
    for cls in range(ncls):
        cname = 'Obj' if cls == 0 else 'C%d' % cls
        basec = 'SyncObj' if cls == 0 else 'SyncObjConsumer'
        init = (OBJ_INIT if cls == 0 else CONS_INIT) % {'cls': cname}
        if sub:
            src.append('class %s(%s):%s' % (cname, basec, init))
            for n, v in class_decls(spec, cls, False):
                src.append(_method_src(n, v, True, rnd))
            src.append('class %sN(%s):\n    pass\n' % (cname, cname))
            for n, v in [tuple(x) for x in spec['classes'][str(cls)]['added']]:
                src.append(_method_src(n, v, True, rnd))
        else:
            src.append('class %s(%s):%s' % (cname, basec, init))
            for n, v in class_decls(spec, cls, new):
                src.append(_method_src(n, v, True, rnd))
    text = '\n'.join(src)
    ns = {'SyncObj': SyncObj, 'SyncObjConsumer': SyncObjConsumer, 'replicated': replicated, 'HOOK': hook_cell}
    exec(compile(text, '<generated %s code>' % ('new' if new else 'old'), 'exec'), ns)
    suffix = 'N' if sub else ''
    Obj = ns['Obj' + suffix]
    Obj.CONS = [ns['C%d%s' % (c, suffix)] for c in spec['consumers']]
    return {'Obj': Obj, 'source': text, 'shape': shape_of(spec, new), 'new': new}


# ------------------------------------------------------------------------------------------------
# log capture: errors and exceptions logged by pysyncobj while the simulation runs
# ------------------------------------------------------------------------------------------------

class _Capture(logging.Handler):
    def __init__(self):
        logging.Handler.__init__(self)
        self.records = []

    def emit(self, record):
        try:
            msg = record.getMessage()
        except Exception:
            msg = str(record.msg)
        self.records.append((record.levelname, msg, bool(record.exc_info)))


_capture = None


def capture_logs():
    global _capture
    if _capture is None:
        _capture = _Capture()
        for name in ('pysyncobj.syncobj', 'pysyncobj.serializer'):
            lg = logging.getLogger(name)
            lg.addHandler(_capture)
            lg.propagate = False
            lg.setLevel(logging.WARNING)
    del _capture.records[:]
    return _capture


# ------------------------------------------------------------------------------------------------
# decoding commands
# ------------------------------------------------------------------------------------------------

def decode_command(cmd):
    """command bytes -> ('reg', funcID, cid) | ('ver', v) | ('other',)"""
    t = cmd[0] if isinstance(cmd[0], int) else ord(cmd[0])
    if t == 0:
        c = pickle.loads(cmd[1:])
        if isinstance(c, tuple):
            return ('reg', c[0], c[1][0] if len(c) >= 2 and c[1] else 0)
        return ('reg', c, 0)
    if t == 3:
        return ('ver', pickle.loads(cmd[1:]))
    return ('other',)


# ------------------------------------------------------------------------------------------------
# static observation of one code (no cluster): id table, name tables, validation
# ------------------------------------------------------------------------------------------------

def _fresh_object(code, sim):
    sim.App = code['Obj']
    return sim.start(1, [], 0, 0.0)


def name_of_key(obj, k):
    """keys of _methodToID -> (owner, versioned name)"""
    if isinstance(k, tuple):
        ids = [id(c) for c in obj.cons]
        return (ids.index(k[0]) + 1, k[1])
    return (0, k)


def observe_static(code, queries, versions, valid_pairs):
    """returns the observables check_static compares (see coq/Versions/Model.v)"""
    sim = SIM.Sim(dict(voters=[1], ro=[], period=10, tmin=40, tspan=128, fallback=300, batch=1000, chunk=64))
    obj = _fresh_object(code, sim)
    m2i = obj._methodToID
    ids = [None] * len(m2i)
    for k, i in m2i.items():
        ids[i] = name_of_key(obj, k)
    assert all(x is not None for x in ids) and sorted(obj._idToMethod) == list(range(len(ids)))
    # _idToMethod really is the bound method of that name on that owner
    owners = [obj] + list(obj.cons)
    for i, (o, vn) in enumerate(ids):
        m = obj._idToMethod[i]
        assert m.__self__ is owners[o] and m.__name__ == vn, (i, o, vn, m)
    selfv = obj._SyncObj__selfCodeVersion
    tables = []
    for v in versions:
        o = _fresh_object(code, sim)
        try:
            o._SyncObj__doApplyCommand(S._bchr(S._COMMAND_TYPE.VERSION) + pickle.dumps(v))
        except S.SyncObjExceptionWrongVer:
            tables.append((v, None))
            continue
        assert o.getCodeVersion() == v
        tables.append((v, [resolve_on(o, ow, nm) for ow, nm in queries]))
    valid = []
    for en, v in valid_pairs:
        o = _fresh_object(code, sim)
        o._SyncObj__doApplyCommand(S._bchr(S._COMMAND_TYPE.VERSION) + pickle.dumps(en))
        valid.append((en, v, try_set_version(o, v)))
    SIM.Sim.uninstall()
    return {'ids': ids, 'selfv': selfv, 'tables': tables, 'valid': valid}


def resolve_on(obj, owner, name):
    """(what _getFuncName answers, the funcID a call would carry); None = KeyError.
    The call itself is made and the queued command is inspected."""
    target = obj if owner == 0 else obj.cons[owner - 1]
    key = name if owner == 0 else (id(target), name)
    try:
        fn = obj._getFuncName(key)
    except KeyError:
        fn = None
    q = obj._SyncObj__commandsQueue._FastQueue__queue
    before = len(q)
    meth = getattr(target, name, None)
    fid = None
    if meth is not None:
        try:
            meth(12345)
            assert len(q) == before + 1
            d = decode_command(q.pop()[0])
            assert d[0] == 'reg' and d[2] == 12345
            fid = d[1]
        except KeyError:
            assert len(q) == before
    return (fn, fid)


def try_set_version(obj, v, callback=None):
    """0 queued, 1 rejected: above the node's code version, 2 rejected: below the enabled version"""
    q = obj._SyncObj__commandsQueue._FastQueue__queue
    before = len(q)
    try:
        obj.setCodeVersion(v, callback=callback)
    except Exception as e:
        assert len(q) == before, 'rejected request left something in the queue'
        msg = str(e)
        if msg.startswith('wrong version, current version'):
            return 1
        if msg.startswith('wrong version, enabled version'):
            return 2
        raise
    assert len(q) == before + 1 and decode_command(q[-1][0]) == ('ver', v)
    return 0


# ------------------------------------------------------------------------------------------------
# Gallina literals
# ------------------------------------------------------------------------------------------------

def v_name(s):
    return '[' + ';'.join(str(ord(c)) for c in s) + ']'


class Names(object):
    """names as Coq definitions shared by the cases of one file"""

    def __init__(self, prefix='nm'):
        self.ix = {}
        self.prefix = prefix

    def ref(self, s):
        if s not in self.ix:
            self.ix[s] = '%s%d' % (self.prefix, len(self.ix))
        return self.ix[s]

    def defs(self):
        return ''.join('Definition %s : name := %s.\n' % (v, v_name(s)) for s, v in self.ix.items())


def v_decl(N, d):
    o, n, v = d
    return '(mkDecl %d %s %d)' % (o, N.ref(n), v)


def v_shape(N, shape):
    return '[' + '; '.join(v_decl(N, d) for d in shape) + ']'


def v_opt(x):
    return 'None' if x is None else '(Some %s)' % x


def v_key(N, k):
    return '(%d, %s)' % (k[0], N.ref(k[1]))


def v_exec(N, e):
    o, n, v, cid = e
    return '(mkDecl %d %s %d, %d)' % (o, N.ref(n), v, cid)


def v_static_call(N, shape, queries, obs):
    ids = '[' + '; '.join('(%d, %s)' % (o, N.ref(vn)) for o, vn in obs['ids']) + ']'
    tabs = []
    for v, ans in obs['tables']:
        if ans is None:
            tabs.append('(%d, None)' % v)
        else:
            tabs.append('(%d, Some [%s])' % (v, '; '.join(
                '(%s, %s)' % (v_opt(None if fn is None else N.ref(fn)), v_opt(fid)) for fn, fid in ans)))
    valid = '[' + '; '.join('(%d, %d, %d)' % t for t in obs['valid']) + ']'
    return '(check_static %s %s %d [%s] [%s] %s)' % (
        v_shape(N, shape), ids, obs['selfv'], '; '.join(v_key(N, k) for k in queries), '; '.join(tabs), valid)


def v_entry(e):
    if e[0] == 'reg':
        return '(ERegular %d %d)' % (e[1], e[2])
    if e[0] == 'ver':
        return '(EVersion %d)' % e[1]
    return 'EOther'


def v_event(N, ev, shapes_ref):
    k = ev[0]
    if k == 'tick':
        _, n, commit, applied, enabled, out, new = ev
        return '(EvTick %d %d, XTick %d %d (%d, %d) [%s])' % (n, commit, applied, enabled, out[0], out[1],
                                                            '; '.join(v_exec(N, e) for e in new))
    if k == 'call':
        _, n, o, nm, fid = ev
        return '(EvCall %d %d %s, XCall %s)' % (n, o, N.ref(nm), v_opt(fid))
    if k == 'setver':
        _, n, v, code = ev
        return '(EvSetVer %d %d, XSetVer %d)' % (n, v, code)
    if k == 'compact':
        _, n, applied, enabled, hist = ev
        return '(EvCompact %d, XState %d %d [%s])' % (n, applied, enabled, '; '.join(v_exec(N, e) for e in hist))
    if k == 'restart':
        _, n, code_ix, from_dump, applied, enabled, hist = ev
        return '(EvRestart %d %s %s, XState %d %d [%s])' % (n, shapes_ref[code_ix], 'true' if from_dump else 'false',
                                                           applied, enabled, '; '.join(v_exec(N, e) for e in hist))
    if k == 'install':
        _, src, dst, applied, enabled, hist = ev
        return '(EvInstall %d %d, XState %d %d [%s])' % (src, dst, applied, enabled, '; '.join(v_exec(N, e) for e in hist))
    if k == 'table':
        _, n, queries, answers = ev
        return '(EvTable %d [%s], XTable [%s])' % (n, '; '.join(v_key(N, q) for q in queries),
                                                   '; '.join(v_opt(None if a is None else N.ref(a)) for a in answers))
    raise ValueError(ev)


# ------------------------------------------------------------------------------------------------
# cluster scenarios
# ------------------------------------------------------------------------------------------------

class CustomDumpSim(SIM.Sim):
    """conf.serializer / conf.deserializer mode: the application writes the full dump itself.
    The user functions save and restore the whole user state (ghist and the per-owner hists)."""

    def conf_for(self, nid):
        c = SIM.Sim.conf_for(self, nid)
        sim = self

        def ser(fname, data):
            obj = sim.nodes[nid]
            with open(fname, 'wb') as f:
                pickle.dump((data, list(obj.ghist), [list(w.hist) for w in [obj] + list(obj.cons)]), f)

        def deser(fname):
            with open(fname, 'rb') as f:
                data, gh, hs = pickle.load(f)
            obj = sim.nodes[nid]
            obj.ghist = list(gh)
            for w, h in zip([obj] + list(obj.cons), hs):
                w.hist = list(h)
            return data
        c.serializer = ser
        c.deserializer = deser
        return c


class Cluster(object):
    """2-3 real SyncObj nodes (generated classes, possibly different code per node) in harness.sim.
    Records (a) the model trace (events + what the implementation showed), (b) everything the
    monitor needs.  Model node index = position in self.nids."""

    def __init__(self, spec, node_codes, cfg=None, workdir=None, rnd_order=None, custom=False):
        self.spec = spec
        self.custom = custom
        self.hook_cell = [self]
        self.codes = [build_code(spec, False, self.hook_cell), build_code(spec, True, self.hook_cell)]
        self.nids = sorted(node_codes)
        self.code_of = dict(node_codes)            # nid -> 0 old / 1 new (current process)
        self.initial_codes = dict(node_codes)
        c = dict(voters=list(self.nids), ro=[], period=10, tmin=40, tspan=128, fallback=300, batch=100000, chunk=100000)
        c.update(cfg or {})
        self.sim = (CustomDumpSim if custom else SIM.Sim)(c, workdir)
        base_conf_for = self.sim.conf_for

        def conf_for(nid):
            cf = base_conf_for(nid)
            cf.onCodeVersionChanged = lambda old, new, nid=nid: self._on_version_changed(nid, old, new)
            return cf
        self.sim.conf_for = conf_for
        self.version_callbacks = []       # (nid, old, new)
        self.log = capture_logs()
        self.t = 0
        self.rnd = dict((n, 10 * (i + 1)) for i, n in enumerate(rnd_order or self.nids))
        self.events = []                  # model trace
        self.glog = {}                    # raft index -> decoded entry
        self.calls = {}                   # cid -> {'node','owner','name','enabled','expect_ver','fid','code'}
        self.executed = {}                # raft index -> [(nid, epoch, exec)]
        self.epoch = dict((n, 0) for n in self.nids)
        self.setvers = []                 # monitor records of setCodeVersion requests
        self.problems = []                # monitor hits
        self.anomalies = []               # harness-level oddities (count as divergences)
        self.tick_exc = []                # (nid, repr) exceptions escaping a handler
        self.apply_log = []               # (nid, applied_before, commit, applied_after, outcome)
        self.cur_src = None
        self.installed = {}               # nid -> enabled versions adopted from installed snapshots
        self.skipped = []                 # (nid, index, entry) applied without executing anything
        self.stopped_unknown_id = []      # (nid, index, entry) node stopped in front of an unknown method id
        self.refused = set()              # nids that refused a dump (lack its version) in this process lifetime
        self.cut = set()
        self.isolated = frozenset()
        self.next_cid = 1
        self.stats = {}
        for n in self.nids:
            self._start(n)
        for a in self.nids:
            for b in self.nids:
                if a != b:
                    self.sim.apply(('connect', a, b))

    def _on_version_changed(self, nid, old, new):
        """conf.onCodeVersionChanged: whenever the application is told about a switch, what it sees is consistent - the
        enabled version is the announced one and every call it would make now resolves to the newest implementation not
        above it (the name table is rebuilt before the application hears of the switch)"""
        self.version_callbacks.append((nid, old, new))
        self.count('version_callbacks')
        obj = self.sim.nodes.get(nid)
        if obj is None:
            return
        en = obj.getCodeVersion()
        if en != new:
            self.problems.append('onCodeVersionChanged(%d, %d) on node %d while getCodeVersion() is %d' % (old, new, nid, en))
        for o, nm in shape_keys(self.codes[1]['shape']):
            target = obj if o == 0 else obj.cons[o - 1]
            try:
                a = obj._getFuncName(nm if o == 0 else (id(target), nm))
            except KeyError:
                a = None
            ev = expected_version(self.shape(nid), o, nm, en)
            want = None if ev is None else '%s_v%d' % (nm, ev)
            if a != want:
                self.problems.append('inside onCodeVersionChanged(%d, %d) on node %d: %s of owner %d resolves to %r, the newest '
                                     'version not above %d is %r' % (old, new, nid, nm, o, a, en, want))
                break

    # -- bookkeeping -----------------------------------------------------------------------------
    def ix(self, nid):
        return self.nids.index(nid)

    def count(self, key, n=1):
        self.stats[key] = self.stats.get(key, 0) + n

    def obj(self, nid):
        return self.sim.nodes[nid]

    def nid_of_obj(self, obj):
        for n, o in self.sim.nodes.items():
            if o is obj:
                return n
        return self._starting

    def shape(self, nid):
        return self.codes[self.code_of[nid]]['shape']

    def _start(self, nid):
        self._starting = nid
        self.sim.App = self.codes[self.code_of[nid]]['Obj']
        others = [x for x in self.nids if x != nid]
        self.sim.start(nid, others, self.t, self.rnd[nid] / float(self.sim.cfg['tspan']))

    # -- hooks called from the generated class --------------------------------------------------------
    def before_apply(self, obj):
        nid = self.nid_of_obj(obj)
        la = obj._SyncObj__raftLastApplied
        ci = obj._SyncObj__raftCommitIndex
        if ci > la:
            for e in obj._SyncObj__getEntries(la + 1, ci - la):
                d = decode_command(e[0])
                if self.glog.setdefault(e[1], d) != d:
                    self.anomalies.append('two different committed entries at index %d: %r / %r' % (e[1], self.glog[e[1]], d))
        return (nid, la, ci, len(obj._trace))

    def after_apply(self, obj, tok, exc):
        nid, la, ci, tl = tok
        la2 = obj._SyncObj__raftLastApplied
        new = list(obj._trace[tl:])
        if la2 == la and ci <= la and exc is None:
            return
        # which entry each execution belongs to (an entry can be "applied" without running
        # anything: __applyLogEntries logs and swallows what __doApplyCommand raises)
        k = 0
        for idx in range(la + 1, la2 + 1):
            d = self.glog.get(idx)
            if d is not None and d[0] == 'reg':
                if k < len(new) and new[k][3] == d[2]:
                    self.executed.setdefault(idx, []).append((nid, self.epoch[nid], new[k]))
                    k += 1
                else:
                    self.skipped.append((nid, idx, d))
        if k != len(new):
            self.anomalies.append('node %d: executions %r do not match the applied entries %d..%d' % (nid, new, la + 1, la2))
        if exc is not None:
            out = (9, 0)
            self.anomalies.append('node %d: %r escaped __applyLogEntries' % (nid, exc))
        elif la2 < ci:
            # stopped: at a VERSION entry (error names that version) or at a method id this code
            # does not have (error names the enabled version)
            d = self.glog.get(la2 + 1, ('?',))
            if d[0] == 'ver':
                out = (1, d[1])
            elif d[0] == 'reg':
                out = (1, obj.getCodeVersion())
                self.stopped_unknown_id.append((nid, la2 + 1, d))
            else:
                out = (8, 0)
                self.anomalies.append('node %d stopped at index %d which is %r' % (nid, la2 + 1, d))
        else:
            out = (0, 0)
        self.apply_log.append((nid, la, ci, la2, out))
        self.events.append(('tick', self.ix(nid), ci - 1, la2 - 1, obj.getCodeVersion(), out, new))

    def on_serialize(self, obj, pid):
        nid = self.nid_of_obj(obj)
        if pid != -1:
            self.anomalies.append('node %d: serialisation failed (%r)' % (nid, pid))
            return
        self.count('dumps')
        if self.custom:
            with open(obj._SyncObj__conf.fullDumpFile, 'rb') as f:
                data, gh, hs = pickle.load(f)
            self.events.append(('compact', self.ix(nid), data[0][1] - 1, obj.getCodeVersion(), [tuple(e) for e in gh]))
            return
        data = obj._SyncObj__serializer.deserialize()       # what really is in the dump
        self.events.append(('compact', self.ix(nid), data[1][1] - 1) + self._dump_state(nid, data))

    def _dump_state(self, nid, data):
        selfd = data[0][0]
        hist = [tuple(e) for e in selfd.get('ghist', [])]
        per = [[tuple(e) for e in selfd.get('hist', [])]] + [[tuple(e) for e in cd.get('hist', [])] for cd in data[0][1:]]
        for o, h in enumerate(per):
            if h != [e for e in hist if e[0] == o]:
                self.problems.append('dump of node %d: state of owner %d is %r, executions were %r' % (nid, o, h, hist))
        return (selfd['_SyncObj__enabledCodeVersion'], hist)

    def on_load(self, obj, clear, loaded):
        nid = self.nid_of_obj(obj)
        st = (obj._SyncObj__raftLastApplied - 1, obj.getCodeVersion(), [tuple(e) for e in obj.ghist])
        owners = [obj] + list(obj.cons)
        for o, w in enumerate(owners):
            if [tuple(e) for e in w.hist] != [e for e in st[2] if e[0] == o]:
                self.problems.append('node %d after loading a dump: state of owner %d is %r, executions were %r' % (nid, o, w.hist, st[2]))
        if not loaded:
            self.refused.add(nid)
            self.count('dumps_refused')
        if clear:
            if loaded:
                self.count('snapshot_installs')
                self.epoch[nid] += 1
                self.installed.setdefault(nid, []).append(st[1])
            self.events.append(('install', self.ix(self.cur_src), self.ix(nid)) + st)
        else:
            if loaded:
                self.count('dump_restarts')
            self.events.append(('restart', self.ix(nid), self.code_of[nid], True) + st)

    # -- driving ------------------------------------------------------------------------------------
    def _after(self, what, nid):
        if self.sim.exc:
            self.tick_exc.append((nid, what, self.sim.exc_repr))

    def deliver_all(self):
        moved = True
        guard = 0
        while moved and guard < 10000:
            moved = False
            for (a, b), q in sorted(self.sim.chan.items()):
                while q and a in self.sim.nodes and b in self.sim.nodes and (a, b) not in self.cut:
                    self.cur_src = a
                    self.sim.apply(('deliver', a, b, self.t, self.rnd[b]))
                    self._after('deliver', b)
                    moved = True
                    guard += 1

    def round(self):
        self.t += 10
        for n in self.nids:
            if n in self.sim.nodes:
                self.sim.apply(('tick', n, self.t, self.rnd[n], None))
                self._after('tick', n)
        self.deliver_all()

    def leader(self):
        ls = [n for n, o in self.sim.nodes.items() if o._SyncObj__raftState == 2]
        if not ls:
            return None
        return max(ls, key=lambda n: self.obj(n)._SyncObj__raftCurrentTerm)

    def stuck(self, nid):
        """the node cannot apply its next committed entry (lacks the version / unknown id)"""
        o = self.obj(nid)
        return any(a[0] == nid and a[4][0] == 1 and a[3] == o._SyncObj__raftLastApplied for a in self.apply_log[-12:])

    def settled(self):
        L = self.leader()
        if L is None:
            return False
        lo = self.obj(L)
        top = lo._SyncObj__raftLog[-1][1]
        if lo._SyncObj__raftCommitIndex != top:
            return False
        for n, o in self.sim.nodes.items():
            if len(o._SyncObj__commandsQueue._FastQueue__queue):
                return False
            if n in self.isolated or n in self.refused:
                continue
            if o._SyncObj__raftCommitIndex != top or o._SyncObj__raftLog[-1][1] != top:
                return False
            if o._SyncObj__raftLastApplied != top and not self.stuck(n):
                return False
            if o._SyncObj__serializer._Serializer__pid != 0 or o._SyncObj__forceLogCompaction:
                return False
        return not any(q for k, q in self.sim.chan.items()
                       if k not in self.cut and k[0] in self.sim.nodes and k[1] in self.sim.nodes)

    def settle(self, max_rounds=400, extra=3):
        for i in range(max_rounds):
            self.round()
            if self.settled():
                for _ in range(extra):
                    self.round()
                if self.settled():
                    return True
        self.anomalies.append('cluster did not settle in %d rounds' % max_rounds)
        return False

    # -- operations -------------------------------------------------------------------------------------
    def call(self, nid, owner, name):
        """a replicated call on node nid; records model event + monitor expectation"""
        obj = self.obj(nid)
        cid = self.next_cid
        self.next_cid += 1
        target = obj if owner == 0 else obj.cons[owner - 1]
        q = obj._SyncObj__commandsQueue._FastQueue__queue
        before = len(q)
        enabled = obj.getCodeVersion()
        eshape = self.shape(nid)
        if enabled > shape_max(eshape):
            eshape = self.codes[1]['shape']     # the node reports a version only the new code has
        exp = expected_version(eshape, owner, name, enabled)
        meth = getattr(target, name, None)
        fid = None
        err = None
        if meth is None:
            self.count('calls_no_such_method')      # this code has no method of that name at all
            return None
        try:
            meth(cid)
            d = decode_command(q[-1][0])
            if len(q) != before + 1 or d[0] != 'reg' or d[2] != cid:
                self.anomalies.append('call did not queue one command: %r' % (d,))
            fid = d[1]
        except KeyError:
            err = 'KeyError'
            if len(q) != before:
                self.anomalies.append('raising call left a command in the queue')
        self.calls[cid] = {'node': nid, 'owner': owner, 'name': name, 'enabled': enabled, 'expect_ver': exp,
                           'fid': fid, 'err': err, 'code': self.code_of[nid]}
        self.events.append(('call', self.ix(nid), owner, name, fid))
        self.count('calls')
        if fid is None:
            self.count('calls_keyerror')
            if exp is not None:
                self.problems.append('call %s on owner %d of node %d (enabled version %d) raised %s although version %d exists'
                                     % (name, owner, nid, enabled, err, exp))
        elif exp is None:
            self.problems.append('call %s on owner %d of node %d was queued although no version <= %d exists' % (name, owner, nid, enabled))
        return cid

    def setver(self, nid, v):
        obj = self.obj(nid)
        enabled = obj.getCodeVersion()
        code = try_set_version(obj, v)
        self.events.append(('setver', self.ix(nid), v, code))
        own = shape_max(self.shape(nid))
        should_reject = v > own or v < enabled
        self.setvers.append({'node': nid, 'v': v, 'enabled': enabled, 'own': own, 'code': code})
        self.count('setver_%s' % ['queued', 'rejected_above', 'rejected_below'][code])
        if should_reject != (code != 0):
            self.problems.append('setCodeVersion(%d) on node %d (code version %d, enabled %d): %s'
                                 % (v, nid, own, enabled, 'accepted' if code == 0 else 'rejected'))
        return code

    def table_probe(self, nid):
        obj = self.obj(nid)
        keys = shape_keys(self.codes[1]['shape'])
        ans = []
        for o, nm in keys:
            target = obj if o == 0 else obj.cons[o - 1]
            try:
                ans.append(obj._getFuncName(nm if o == 0 else (id(target), nm)))
            except KeyError:
                ans.append(None)
        self.events.append(('table', self.ix(nid), keys, ans))
        # monitor: the table is the newest version not above the enabled one
        en = obj.getCodeVersion()
        for (o, nm), a in zip(keys, ans):
            ev = expected_version(self.shape(nid), o, nm, en)
            want = None if ev is None else '%s_v%d' % (nm, ev)
            if a != want:
                self.problems.append('node %d (enabled version %d): %s of owner %d resolves to %r, newest version not above %d is %r'
                                     % (nid, en, nm, o, a, en, want))

    def compact(self, nid):
        self.sim.apply(('compact', nid))

    def kill(self, nid):
        self.sim.apply(('kill', nid))
        self.count('kills')
        for b in self.nids:
            if b != nid and b in self.sim.nodes:
                self.sim.apply(('drop', b, nid))

    def restart(self, nid, code=None):
        if code is not None:
            self.code_of[nid] = code
        self.epoch[nid] += 1
        self.refused.discard(nid)
        self.count('restarts')
        self.events.append(('restart', self.ix(nid), self.code_of[nid], False, 0, 0, []))
        self._start(nid)
        for b in self.nids:
            if b != nid and b in self.sim.nodes and (nid, b) not in self.cut:
                self.sim.apply(('connect', nid, b))
                self.sim.apply(('connect', b, nid))

    def isolate(self, nid):
        """cut node nid off (messages queue up nowhere: both directions dropped)"""
        for b in self.nids:
            if b != nid and b in self.sim.nodes:
                self.sim.apply(('drop', nid, b))
                self.sim.apply(('drop', b, nid))
        self.isolated = frozenset(set(self.isolated) | {nid})

    def rejoin(self, nid):
        self.isolated = frozenset(set(self.isolated) - {nid})
        for b in self.nids:
            if b != nid and b in self.sim.nodes:
                self.sim.apply(('connect', nid, b))
                self.sim.apply(('connect', b, nid))

    # -- results ------------------------------------------------------------------------------------------
    def model_log(self):
        if not self.glog:
            return []
        top = max(self.glog)
        out = []
        for i in range(2, top + 1):
            if i not in self.glog:
                self.anomalies.append('no node ever tried to apply index %d' % i)
                out.append(('other',))
            else:
                out.append(self.glog[i])
        return out

    def finish(self):
        SIM.Sim.uninstall()
        self.hook_cell[0] = None


# ------------------------------------------------------------------------------------------------
# the monitor: the property text on what the implementation did
# ------------------------------------------------------------------------------------------------

def monitor(c, final=True):
    """appends to c.problems; returns the list"""
    P = c.problems
    # (1) old and new code execute the same method for every entry; (5) nothing is executed twice
    #     by one process, and re-execution after a restart runs the same implementation
    for idx, lst in sorted(c.executed.items()):
        impls = set(e for _, _, e in lst)
        if len(impls) > 1:
            P.append('log index %d was executed as different methods: %r' % (idx, sorted(lst)))
        seen = set()
        for nid, ep, e in lst:
            if (nid, ep) in seen:
                P.append('node %d executed log index %d twice in one process lifetime' % (nid, idx))
            seen.add((nid, ep))
    for nid, idx, d in c.skipped:
        P.append('node %d counted log index %d (%r) as applied without executing anything' % (nid, idx, d))
    # (2) a call uses the newest implementation whose version is not above the enabled version
    by_cid = {}
    for idx, lst in c.executed.items():
        for nid, ep, e in lst:
            by_cid.setdefault(e[3], []).append((idx, nid, e))
    for cid, info in sorted(c.calls.items()):
        for idx, nid, e in by_cid.get(cid, []):
            want = (info['owner'], info['name'], info['expect_ver'], cid)
            if e != want:
                P.append('call %d (%s on owner %d, issued on node %d at enabled version %d) ran as %r on node %d, expected %r'
                         % (cid, info['name'], info['owner'], info['node'], info['enabled'], e, nid, want))
        if info['fid'] is None and cid in by_cid:
            P.append('call %d raised on the caller but was executed' % cid)
    # (3) is checked in Cluster.setver;  rejected requests never reach the log
    accepted = [s['v'] for s in c.setvers if s['code'] == 0]
    logged = [d[1] for _, d in sorted(c.glog.items()) if d[0] == 'ver']
    for v in logged:
        if v in accepted:
            accepted.remove(v)
        else:
            P.append('a VERSION %d entry is in the log without an accepted request' % v)
    # (4) a node that lacks an enabled version stops applying rather than misapplying:
    #     its state is exactly the executions of the entries in front of the version entry
    for nid, obj in c.sim.nodes.items():
        la = obj._SyncObj__raftLastApplied
        own = shape_max(c.shape(nid))
        # first version entry this code cannot apply
        bad = [i for i, d in sorted(c.glog.items()) if d[0] == 'ver' and d[1] > own]
        if obj.getCodeVersion() > own:
            P.append('node %d reports enabled version %d but its code only has version %d' % (nid, obj.getCodeVersion(), own))
        if bad:
            if la >= bad[0]:
                P.append('node %d (code version %d) applied past the VERSION %d entry at index %d (lastApplied %d)'
                         % (nid, own, c.glog[bad[0]][1], bad[0], la))
        # (6) ... on every node, also one that restarted or caught up from a snapshot taken after the
        #     switch: the version in force is the one of the last VERSION entry in the applied prefix
        exp_en = 0
        for i in range(2, la + 1):
            d = c.glog.get(i)
            if d is not None and d[0] == 'ver':
                exp_en = d[1]
        c.count('enabled_version_checks')
        if obj.getCodeVersion() != exp_en:
            P.append('node %d has applied the log up to index %d where the enabled version is %d, but it is at version %d'
                     % (nid, la, exp_en, obj.getCodeVersion()))
        # (5) the state is the executions of the applied prefix, in log order
        if final:
            exp = []
            ok = True
            for i in range(2, la + 1):
                d = c.glog.get(i)
                if d is None:
                    ok = False
                    break
                if d[0] == 'reg':
                    impls = set(e for _, _, e in c.executed.get(i, []))
                    if len(impls) != 1:
                        ok = False
                        break
                    exp.append(next(iter(impls)))
            if ok:
                c.count('state_is_applied_prefix_checks')
            if ok and [tuple(e) for e in obj.ghist] != exp:
                P.append('node %d: state %r is not the executions of its applied prefix %r' % (nid, obj.ghist, exp))
    return P


def v_trace_case(N, tag, c):
    """Gallina definitions + the check_trace call for everything cluster c recorded"""
    log = c.model_log()
    defs = 'Definition sh_%s_0 : shape := %s.\nDefinition sh_%s_1 : shape := %s.\n' % (
        tag, v_shape(N, c.codes[0]['shape']), tag, v_shape(N, c.codes[1]['shape']))
    refs = ['sh_%s_0' % tag, 'sh_%s_1' % tag]
    defs += 'Definition log_%s : list entry := [%s].\n' % (tag, '; '.join(v_entry(e) for e in log))
    defs += 'Definition evs_%s : list (event * expect) := [%s].\n' % (
        tag, ';\n  '.join(v_event(N, ev, refs) for ev in c.events))
    call = '(check_trace %s [%s] log_%s evs_%s)' % ('true' if c.custom else 'false', '; '.join(refs[c.initial_codes[n]] for n in c.nids), tag, tag)
    return defs, call
