"""Implementation side of the C19 correspondence: the REAL FastQueue / SyncObj._applyCommand /
AsyncResult / `replicated` wrapper on a real single-node SyncObj (autoTick=False, fake Transport,
patched clock), driven through a deterministic schedule of atomic actions.

A case is a set of caller threads (each with a program of calls: fire-and-forget, callback, sync)
plus the tick thread.  The schedule is generated on line from random.Random(seed): at every point
one enabled macro action is chosen; the harness executes it on the implementation and records
(a) the atomic model actions it corresponds to, (b) the observation of the implementation after it
(same encoding as Queue.Model.obs).  The Coq side (`check_case`) replays the atomic actions and
compares every observation.

How the interleaving is forced:
  * caller threads without sync calls are executed inline by the driver thread;
  * caller threads with at least one sync call are real threads: each waits for a job from the
    driver, calls `obj.add(...)`, and the driver blocks until an (instance-level) wrapper around
    `_applyCommand` reports that the put returned; a sync caller then sits in the real
    `asyncResult.event.wait(timeout)` until the driver's tick sets the event (or the real timeout
    of a "doomed" call expires); its result is consumed by the driver at the schedule position of
    the wake-up / timeout action;
  * the tick thread's work is done by the driver: `get n` = the real `_checkCommandsToApply()` cut
    by the (patched) clock after n dequeues, `tick n` = the real `doTick(0)` (commit + apply all
    pending with their callbacks, then up to n dequeues).

Nothing in /repo is edited; instrumentation = instance attributes `_applyCommand`,
`_checkCommandsToApply` (wrappers that call the real bound methods) and the module attribute
`pysyncobj.syncobj.monotonicTime`.
"""
import pickle
import random
import os
import sys
import threading
import traceback
try:
    import queue as _queue
except ImportError:                                   # pragma: no cover
    import Queue as _queue

REPO = (os.environ.get('VERIF_REPO') or '/repo')
if REPO not in sys.path:
    sys.path.insert(0, REPO)

KNONE, KASYNC, KSYNC = 0, 1, 2
KIND_V = {KNONE: 'KNone', KASYNC: 'KAsync', KSYNC: 'KSync'}
QUEUE_FULL = 1
DOOMED_TIMEOUT = 0.02       # real seconds: a sync call that the schedule lets time out
LONG_TIMEOUT = 60.0         # real seconds: never expected to expire
DRIVER_WAIT = 8.0          # real seconds the driver waits for a thread before declaring a hang


class HarnessStuck(Exception):
    pass


def load_impl():
    import pysyncobj.syncobj as S
    return S


class Clock(object):
    """Virtual clock.  While `budget` is armed, reads made by `_checkCommandsToApply` itself are
    counted: read 0 is startTime, reads 1..budget let the loop run, the next read jumps by
    `period` (the loop's time limit), exactly as real time would cut the loop."""

    def __init__(self):
        self.now = 1000.0
        self.budget = None
        self.reads = 0
        self.period = 0.125

    def __call__(self):
        if self.budget is not None and sys._getframe(1).f_code.co_name == '_checkCommandsToApply':
            k = self.reads
            self.reads += 1
            if k > self.budget:
                self.now += self.period
        return self.now


def make_class(S):
    from pysyncobj.transport import Transport

    class FakeTransport(Transport):
        def send(self, node, message):
            return False

    class Obj(S.SyncObj):
        def __init__(self, conf):
            super(Obj, self).__init__('a:1', [], conf, transportClass=FakeTransport)
            self.applied = []
            self.results = {}

        @S.replicated
        def add(self, x):
            r = x + 1000 * len(self.applied)
            self.applied.append(x)
            self.results.setdefault(x, []).append(r)
            return r

    return Obj


class Driver(object):
    """One real SyncObj under schedule control."""

    def __init__(self, S, max_size, batch=True):
        from pysyncobj import SyncObjConf
        self.S = S
        self.clock = Clock()
        self.old_clock = S.monotonicTime
        S.monotonicTime = self.clock
        conf = SyncObjConf(autoTick=False, commandsQueueSize=max_size, appendEntriesUseBatch=batch,
                           appendEntriesPeriod=self.clock.period, raftMinTimeout=0.5, raftMaxTimeout=1.5)
        self.obj = make_class(S)(conf)
        self.putdone = _queue.Queue()
        self.escaped = []
        real_apply = self.obj._applyCommand
        real_check = self.obj._checkCommandsToApply

        def apply_wrapper(command, callback, commandType=None):
            try:
                return real_apply(command, callback, commandType)
            finally:
                self.putdone.put(callback)

        def check_wrapper():
            self.clock.reads = 0
            try:
                return real_check()
            finally:
                self.clock.budget = None

        self.obj._applyCommand = apply_wrapper
        self.obj._checkCommandsToApply = check_wrapper
        # become leader of the one-node cluster
        self.clock.now += 10
        for _ in range(3):
            self.clock.budget = 0
            self.obj.doTick(0)
        assert self.obj._isLeader()
        self.q = self.obj._SyncObj__commandsQueue._FastQueue__queue

    def close(self):
        try:
            self.obj.destroy()
        finally:
            self.S.monotonicTime = self.old_clock

    # ---- observations of the implementation's state ----
    @staticmethod
    def payload_of(command):
        cmd = pickle.loads(command[1:])
        return cmd[1][0]

    def queue_payloads(self):
        return [self.payload_of(c) for c, _ in list(self.q)]

    def pending_payloads(self):
        o = self.obj
        last = o._SyncObj__raftLastApplied
        res = []
        for command, idx, term in o._SyncObj__raftLog[:]:
            if idx > last and command[:1] == b'\x00':
                res.append(self.payload_of(command))
        return res

    # ---- tick thread ----
    def get(self, n):
        self.clock.budget = n
        try:
            self.obj._checkCommandsToApply()
        except Exception:
            self.escaped.append(traceback.format_exc())

    def tick(self, n):
        self.clock.budget = n
        try:
            self.obj.doTick(0)
        except Exception:
            self.escaped.append(traceback.format_exc())


def opt(v):
    return 0 if v is None else v + 1


class CaseRun(object):
    """Executes one generated case.  After run(): .table, .groups, .problems, .meta."""

    def __init__(self, S, seed, params=None):
        self.S = S
        self.seed = seed
        rng = self.rng = random.Random(seed)
        p = params or {}
        self.nthreads = p.get('nthreads', rng.choice([2, 2, 3, 3, 4]))
        self.max_size = p.get('max_size', rng.choice([0, 0, 1, 1, 2, 3, 5]))
        self.batch = p.get('batch', rng.random() < 0.75)
        self.progs = p.get('progs')
        if self.progs is None:
            self.progs = []
            style = rng.choice(['mixed', 'mixed', 'sync', 'async'])
            for i in range(self.nthreads):
                n = rng.randrange(1, 5)
                prog = []
                for k in range(n):
                    if style == 'sync':
                        kind = KSYNC
                    elif style == 'async':
                        kind = rng.choice([KASYNC, KASYNC, KNONE])
                    else:
                        kind = rng.choice([KSYNC, KSYNC, KASYNC, KASYNC, KNONE])
                    prog.append((100 * (i + 1) + k, kind, kind == KSYNC and rng.random() < 0.2))
                self.progs.append(prog)
        self.burst = rng.random() < 0.5      # callers favoured over the tick thread: fills the queue

    # -- threads --
    def _worker(self, i):
        obj = self.drv.obj
        while True:
            job = self.jobs[i].get()
            if job is None:
                return
            payload, kind, timeout, cid = job
            rep = None
            try:
                if kind == KSYNC:
                    rep = ('ret', obj.add(payload, sync=True, timeout=timeout))
                elif kind == KASYNC:
                    obj.add(payload, callback=self._mkcb(cid))
                else:
                    obj.add(payload)
            except self.S.SyncObjException as e:
                rep = ('timeout', None) if e.errorCode == 'Timeout' else ('raise', e.errorCode)
            except BaseException:
                rep = ('crash', traceback.format_exc())
                self.drv.escaped.append(rep[1])
            if kind == KSYNC:
                self.reports[i].put(rep)

    def _mkcb(self, cid):
        def cb(res, err):
            self.cb_log.append((cid, res, err))
        return cb

    # -- observation, same layout as Queue.Model.obs --
    def observe(self):
        d = self.drv
        o = []
        qp = [self.cid_of[p] for p in d.queue_payloads()]
        o += [len(qp)] + qp
        pp = [self.cid_of[p] for p in d.pending_payloads()]
        o += [len(pp)] + pp
        o += [len(d.obj.applied)] + list(d.obj.applied)
        o += [len(self.cb_log)]
        for cid, res, err in self.cb_log:
            o += [cid, opt(res), err]
        o += [len(self.outcomes)]
        for tid, cid, code, val in self.outcomes:
            o += [tid, cid, code, val]
        for cid in range(self.next_id):
            ar = self.ars.get(cid)
            if ar is not None and ar.event.is_set():
                o += [cid, opt(ar.result), opt(ar.error)]
        for i in range(self.nthreads):
            w = self.waiting[i]
            o += [2, w['cid']] if w else [0, 0]
        o += [self.n_accepted, self.n_rejected]
        return o

    def _group(self, label, acts):
        self.groups.append((acts, self.observe()))
        self.labels.append(label)

    # -- macro actions --
    def do_put(self, i):
        d = self.drv
        payload, kind, doomed = self.progs[i][self.pc[i]]
        self.pc[i] += 1
        cid = self.next_id
        self.next_id += 1
        self.cid_of[payload] = cid
        self.calls[cid] = {'tid': i, 'payload': payload, 'kind': kind, 'doomed': doomed}
        before = len(d.q)
        timeout = DOOMED_TIMEOUT if doomed else LONG_TIMEOUT
        if self.threaded[i]:
            self.jobs[i].put((payload, kind, timeout, cid))
        else:
            try:
                if kind == KASYNC:
                    d.obj.add(payload, callback=self._mkcb(cid))
                else:
                    d.obj.add(payload)
            except BaseException:
                d.escaped.append(traceback.format_exc())
        try:
            cb = d.putdone.get(timeout=DRIVER_WAIT)
        except _queue.Empty:
            raise HarnessStuck('the put of thread %d did not return within %.0f s' % (i, DRIVER_WAIT))
        accepted = len(d.q) == before + 1
        self.calls[cid]['accepted'] = accepted
        if accepted:
            self.n_accepted += 1
        else:
            self.n_rejected += 1
        if kind == KSYNC:
            self.ars[cid] = cb.__self__            # the AsyncResult whose onResult is the callback
            self.waiting[i] = {'cid': cid, 'doomed': doomed}
        acts = ['ACaller %d' % i] * (1 if accepted else 2)
        self._group('put t%d %s %s' % (i, KIND_V[kind], 'ok' if accepted else 'FULL'), acts)

    def do_finish(self, i, act):
        """wake-up or timeout of thread i: consume the real thread's report"""
        w = self.waiting[i]
        try:
            rep = self.reports[i].get(timeout=DRIVER_WAIT)
        except _queue.Empty:
            raise HarnessStuck('sync call %d of thread %d did not leave event.wait within %.0f s although its event is set or its timeout expired' % (w['cid'], i, DRIVER_WAIT))
        kind, val = rep
        if kind == 'ret':
            out = (i, w['cid'], 0, opt(val))
        elif kind == 'raise':
            out = (i, w['cid'], 1, opt(val) if (val is None or isinstance(val, int)) else 999999)
        elif kind == 'timeout':
            out = (i, w['cid'], 2, 0)
        else:
            out = (i, w['cid'], 3, 0)
        self.outcomes.append(out)
        self.raw_outcomes.append((i, w['cid'], kind, val))
        self.waiting[i] = None
        self._group('%s t%d -> %s' % (act, i, kind), ['%s %d' % (act, i)])

    def model_tick_actions(self, n, apply_first):
        acts = []
        if apply_first:
            for p in self.drv.pending_payloads():
                k = self.calls[self.cid_of[p]]['kind']
                acts += ['ATickApply'] * (4 if k == KSYNC else 1)
        qlen = len(self.drv.q)
        acts += ['ATickGet'] * min(n, qlen)
        return acts, (n > qlen)

    def do_get(self, n):
        acts, empty = self.model_tick_actions(n, False)
        if empty:
            acts.append('ATickGet')            # get_nowait raises Queue.Empty
        self.drv.get(n)
        self._group('get %d' % n, acts)

    def do_tick(self, n):
        acts, empty = self.model_tick_actions(n, True)
        if empty and n > 0:
            acts.append('ATickGet')
        self.drv.tick(n)
        self._group('tick %d' % n, acts)

    # -- the run --
    def enabled(self):
        rng = self.rng
        acts = []
        doomed_waiting = False
        for i in range(self.nthreads):
            w = self.waiting[i]
            if w is None:
                if self.pc[i] < len(self.progs[i]):
                    acts.append((6.0 if self.burst else 3.0, ('put', i)))
                else:
                    acts.append((0.05, ('idle', i)))
            else:
                is_set = self.ars[w['cid']].event.is_set()
                if is_set:
                    acts.append((4.0, ('wake', i)))
                    acts.append((0.3, ('timeout_set', i)))
                else:
                    acts.append((0.3, ('blocked', i)))
                    if w['doomed']:
                        doomed_waiting = True
                        acts.append((3.0, ('timeout', i)))
        acts.append((1.5, ('get', rng.choice([1, 1, 1, 2, 3]))))
        if not doomed_waiting:
            acts.append((1.0 if self.burst else 2.5, ('tick', rng.choice([0, 0, 1, 1, 2, 5]))))
        return acts

    def quiescent(self):
        return (all(self.pc[i] >= len(self.progs[i]) and self.waiting[i] is None for i in range(self.nthreads))
                and not self.drv.q and not self.drv.pending_payloads())

    def run(self, max_steps=80):
        self.drv = Driver(self.S, self.max_size, self.batch)
        n = self.nthreads
        self.pc = [0] * n
        self.waiting = [None] * n
        self.next_id = 0
        self.cid_of = {}
        self.calls = {}
        self.ars = {}
        self.cb_log = []
        self.outcomes = []
        self.raw_outcomes = []
        self.groups = []
        self.labels = []
        self.n_accepted = self.n_rejected = 0
        self.threaded = [any(k == KSYNC for _, k, _ in prog) for prog in self.progs]
        self.jobs = [_queue.Queue() for _ in range(n)]
        self.reports = [_queue.Queue() for _ in range(n)]
        self.threads = []
        for i in range(n):
            if self.threaded[i]:
                t = threading.Thread(target=self._worker, args=(i,))
                t.daemon = True
                t.start()
                self.threads.append(t)
        self.aborted = None
        try:
            steps = 0
            while not self.quiescent():
                acts = self.enabled()
                if steps >= max_steps:
                    # drain: finish what is enabled, otherwise tick
                    pref = [a for a in acts if a[1][0] in ('wake', 'timeout', 'put')]
                    act = pref[0][1] if pref else ('tick', 100)
                else:
                    tot = sum(w for w, _ in acts)
                    x = self.rng.random() * tot
                    for w, a in acts:
                        x -= w
                        if x <= 0:
                            break
                    act = a
                steps += 1
                if steps > max_steps + 400:
                    raise HarnessStuck('case does not drain: some call is never completed')
                kind = act[0]
                if kind == 'put':
                    self.do_put(act[1])
                elif kind in ('wake', 'blocked', 'idle'):
                    if kind == 'wake':
                        self.do_finish(act[1], 'ACaller')
                    else:
                        self._group('%s t%d' % (kind, act[1]), ['ACaller %d' % act[1]])
                elif kind in ('timeout', 'timeout_set'):
                    self.do_finish(act[1], 'ATimeout')
                elif kind == 'get':
                    self.do_get(act[1])
                else:
                    self.do_tick(act[1])
            # two more ticks: nothing may change any more
            self.do_tick(3)
            self.do_get(1)
        except HarnessStuck as e:
            # a caller thread did not come back: the case ends here (the groups recorded so far are
            # still compared with the model); reported by the monitor below
            self.aborted = str(e)
        finally:
            for i in range(n):
                if self.threaded[i]:
                    self.jobs[i].put(None)
            for t in self.threads:
                t.join(1.0 if self.aborted else DRIVER_WAIT)
            self.drv.close()
        self.problems = monitor(self.calls, self.drv.obj.applied, self.drv.obj.results, self.cb_log,
                                self.raw_outcomes, self.drv.escaped, drained=not self.aborted)
        if self.aborted:
            self.problems.insert(0, self.aborted)
        self.table = [(i, [(p, k) for p, k, _ in prog]) for i, prog in enumerate(self.progs)]
        self.meta = {'seed': self.seed, 'nthreads': n, 'max_size': self.max_size, 'batch': self.batch,
                     'progs': [[list(c) for c in prog] for prog in self.progs], 'labels': self.labels,
                     'aborted': self.aborted, 'accepted': self.n_accepted, 'rejected': self.n_rejected,
                     'outcomes': [list(map(str, o)) for o in self.raw_outcomes]}
        return self


def monitor(calls, applied, results, cb_log, outcomes, escaped, drained=True, reported_put_errors=None):
    """The property on the implementation, nothing more:
    every call applied exactly once or reported as failed (never both, never twice), each callback
    fired once, each sync call returned the result of its own command or raised the failure reason
    or 'Timeout'.  calls: cid -> {tid, payload, kind, doomed}; results: payload -> [values returned
    by the replicated method for that payload]; outcomes: (tid, cid, 'ret'|'raise'|'timeout'|'crash', v)."""
    problems = []
    for tb in escaped:
        problems.append('exception escaped: %s' % tb.strip().split('\n')[-1])
    cbs = {}
    for cid, res, err in cb_log:
        cbs.setdefault(cid, []).append((res, err))
    outs = {}
    for tid, cid, kind, val in outcomes:
        outs.setdefault(cid, []).append((tid, kind, val))
    for cid, c in sorted(calls.items()):
        n_app = applied.count(c['payload'])
        who = 'call %d (thread %d, arg %d, %s)' % (cid, c['tid'], c['payload'], KIND_V[c['kind']])
        if n_app > 1:
            problems.append('%s applied %d times' % (who, n_app))
        failed = None           # failure reason reported to the caller
        if c['kind'] == KASYNC:
            l = cbs.get(cid, [])
            if len(l) > 1:
                problems.append('%s: callback fired %d times: %r' % (who, len(l), l))
            if drained and len(l) == 0:
                problems.append('%s: callback never fired' % who)
            for res, err in l[:1]:
                if err != 0:
                    failed = err
                    if res is not None:
                        problems.append('%s: failed callback carries a result %r' % (who, res))
                elif n_app == 1 and res != results[c['payload']][0]:
                    problems.append('%s: callback result %r is not the result of its own command %r'
                                    % (who, res, results[c['payload']][0]))
        elif c['kind'] == KSYNC:
            l = outs.get(cid, [])
            if len(l) > 1:
                problems.append('%s: finished %d times' % (who, len(l)))
            if drained and len(l) == 0:
                problems.append('%s: sync call never returned' % who)
            for tid, kind, val in l[:1]:
                if tid != c['tid']:
                    problems.append('%s: result delivered to thread %d' % (who, tid))
                if kind == 'ret':
                    if n_app != 1 or val != results[c['payload']][0]:
                        problems.append('%s: returned %r, its own command returned %r' %
                                        (who, val, results.get(c['payload'])))
                elif kind == 'raise':
                    failed = val
                    if val in (0, None):
                        problems.append('%s: raised SyncObjException(%r)' % (who, val))
                elif kind == 'timeout':
                    failed = 'Timeout'
                    if not c.get('doomed') and not c.get('may_timeout'):
                        problems.append('%s: raised Timeout although its timeout was not reached' % who)
                else:
                    problems.append('%s: ended with %r' % (who, val))
        if failed is not None and failed != 'Timeout' and n_app != 0:
            problems.append('%s reported failed (%r) but applied' % (who, failed))
        if failed is None and drained and n_app != 1:
            if c['kind'] == KNONE and c.get('accepted') is False:
                pass        # fire-and-forget call on a full queue: no channel to report on (property silent)
            else:
                problems.append('%s neither applied nor reported failed (applied %d times)' % (who, n_app))
    if len(applied) != len(set(applied)):
        problems.append('some command applied twice: %r' % (applied,))
    return problems


# ---- Gallina text of a case ----
def v_case(name, run):
    tbl = '[' + '; '.join('(%d, [%s])' % (i, '; '.join('(%d, %s)' % (p, KIND_V[k]) for p, k in prog))
                          for i, prog in run.table) + ']'
    gs = '[' + ';\n  '.join('([%s], [%s])' % ('; '.join(a), '; '.join(str(x) for x in o))
                            for a, o in run.groups) + ']'
    return ('Definition t_%s : list (N * list call) := %s.\n'
            'Definition g_%s : list (list action * list N) := %s.\n' % (name, tbl, name, gs),
            '(check_case %d %d t_%s g_%s)' % (run.max_size, run.nthreads, name, name))


# ---- real multi-thread stress (search aid; run in a subprocess: real clock, auto-tick thread) ----
def stress(seed, nthreads, ncalls, max_size, batch, budget_s):
    import time
    S = load_impl()
    from pysyncobj import SyncObjConf
    rng = random.Random(seed)
    Obj = make_class(S)
    conf = SyncObjConf(autoTick=True, commandsQueueSize=max_size, appendEntriesUseBatch=batch,
                       autoTickPeriod=0.005, appendEntriesPeriod=0.02, raftMinTimeout=0.1, raftMaxTimeout=0.2)
    obj = Obj(conf)
    t_end = time.time() + budget_s
    while not obj._isLeader() and time.time() < t_end:
        time.sleep(0.01)
    calls = {}
    cb_log = []
    outcomes = []
    escaped = []
    lock = threading.Lock()
    plans = []
    cid = 0
    for i in range(nthreads):
        plan = []
        for k in range(ncalls):
            kind = rng.choice([KSYNC, KSYNC, KASYNC, KASYNC, KNONE])
            payload = 100000 * (i + 1) + k
            plan.append((cid, payload, kind, rng.random() < 0.3))
            calls[cid] = {'tid': i, 'payload': payload, 'kind': kind, 'doomed': False, 'may_timeout': True}
            cid += 1
        plans.append(plan)
    start = threading.Event()

    def mkcb(c):
        def cb(res, err):
            cb_log.append((c, res, err))        # list.append is atomic under the GIL
        return cb

    def worker(i):
        start.wait()
        for c, payload, kind, pause in plans[i]:
            try:
                if kind == KSYNC:
                    outcomes.append((i, c, 'ret', obj.add(payload, sync=True, timeout=5.0)))
                elif kind == KASYNC:
                    obj.add(payload, callback=mkcb(c))
                else:
                    obj.add(payload)
            except S.SyncObjException as e:
                outcomes.append((i, c, 'timeout' if e.errorCode == 'Timeout' else 'raise',
                                 None if e.errorCode == 'Timeout' else e.errorCode))
            except BaseException:
                escaped.append(traceback.format_exc())
            if pause:
                time.sleep(0.0005)

    ths = [threading.Thread(target=worker, args=(i,)) for i in range(nthreads)]
    for t in ths:
        t.daemon = True
        t.start()
    start.set()
    for t in ths:
        t.join(max(0.1, t_end - time.time()))
    hung = [t for t in ths if t.is_alive()]
    # let the tick thread drain what was accepted
    q = obj._SyncObj__commandsQueue._FastQueue__queue
    drained = False
    while time.time() < t_end + 3 and not hung:
        n_cb_expected = sum(1 for c in calls.values() if c['kind'] == KASYNC)
        if not q and len(cb_log) >= n_cb_expected and obj._SyncObj__raftLastApplied == obj._SyncObj__raftCommitIndex \
                and obj._SyncObj__raftCommitIndex == obj._SyncObj__raftLog[-1][1]:
            drained = True
            break
        time.sleep(0.02)
    applied = list(obj.applied)
    results = dict(obj.results)
    obj.destroy()
    # a fire-and-forget call has no report channel: mark those that were not applied as "rejected"
    for c in calls.values():
        if c['kind'] == KNONE and applied.count(c['payload']) == 0:
            c['accepted'] = False
    # not drained within the wall-clock budget (loaded machine): only the safety part of the monitor applies
    problems = monitor(calls, applied, results, list(cb_log), list(outcomes), escaped, drained=drained)
    n_full = sum(1 for _, _, e in cb_log if e == QUEUE_FULL) + sum(1 for o in outcomes if o[2] == 'raise')
    return {'problems': problems, 'drained': drained, 'calls': len(calls), 'applied': len(applied), 'queue_full': n_full,
            'timeouts': sum(1 for o in outcomes if o[2] == 'timeout')}


if __name__ == '__main__':
    import json
    a = sys.argv[1:]
    if a and a[0] == 'stress':
        seed, nth, ncalls, max_size, batch, budget = int(a[1]), int(a[2]), int(a[3]), int(a[4]), a[5] == '1', float(a[6])
        print(json.dumps(stress(seed, nth, ncalls, max_size, batch, budget)))
    else:
        S = load_impl()
        r = CaseRun(S, int(a[0]) if a else 1).run()
        print(json.dumps(r.meta, indent=1))
        print(r.problems)
        for (acts, o), l in zip(r.groups, r.labels):
            print(l, acts, o)
