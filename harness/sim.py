"""Deterministic simulation of real SyncObj objects under virtual time with a fake transport.

No repo hook is needed: the clock and RNG are module attributes of pysyncobj.syncobj, the
transport is a constructor argument, private state is read through name mangling.

Events (tuples; the Coq model's `event` has the same constructors, see coq/Raft/Model.v):
  ('tick', n, now, rnd, budget)        n._onTick(0)
  ('deliver', a, b, now, rnd)          head of channel a->b handed to b
  ('drop', a, b)                       a notices the loss of its connection to b
  ('lose', a, b, k)                    last k messages queued a->b are lost
  ('connect', a, b)                    a notices a (new) connection to b
  ('submit', n, cid, size, cb, flags)  replicated call on n (cb: callback id or 0 = none)
  ('admin', n, add?, x, cb)            addNodeToCluster / removeNodeFromCluster on n
  ('setver', n, v, cb)
  ('compact', n)                       forceLogCompaction()
  ('kill', n) / ('restart', n, now, rnd)
Node ids are small ints; voter k has address 'n<k>:1'; a read-only node r is seen by a voter as Node('r<r>').
"""
import os
import pickle as _pickle
import sys
from collections import deque

REPO = (os.environ.get('VERIF_REPO') or '/repo')
if REPO not in sys.path:
    sys.path.insert(0, REPO)

import pysyncobj.syncobj as S                      # noqa: E402
from pysyncobj.transport import Transport          # noqa: E402
from pysyncobj.node import Node, TCPNode           # noqa: E402
from pysyncobj.config import SyncObjConf, FAIL_REASON  # noqa: E402

import logging as _logging
_logging.getLogger('pysyncobj').setLevel(_logging.CRITICAL + 1)   # handler errors are observed, not logged

MASK = (1 << 63) - 1
RO_BASE = 100          # nids >= RO_BASE are read-only nodes


def hnums(nums, acc=7):
    for x in nums:
        acc = (acc * 1000003 + x + 1) & MASK
    return acc


def L(xs):
    """length-prefixed flattening"""
    out = [0]
    n = 0
    for x in xs:
        n += 1
        if isinstance(x, (list, tuple)):
            out.extend(x)
        else:
            out.append(x)
    out[0] = n
    return out


def opt(x):
    return 0 if x is None else x + 1


def addr(nid):
    return 'n%d:1' % nid if nid < RO_BASE else 'r%d' % nid


def nid_of(x):
    if x is None:
        return None
    if isinstance(x, Node):
        x = x.id
    if x.startswith('n'):
        return int(x[1:].split(':')[0])
    return int(x[1:])


class UserError(Exception):
    pass


class CallbackRefused(Exception):
    """raised by the simulated application's own onStateChanged hook (not by a replicated method)"""


class AwkwardError(Exception):
    """a user exception that does not survive a pickle round trip (its constructor needs an argument that
    Exception.__reduce__ does not record): anything that stores exception OBJECTS in replicated state trips over it"""
    def __init__(self, msg):
        Exception.__init__(self)
        self.msg = msg


# MemoryError / RecursionError: conditions a library might be tempted to treat as "of the node, not of the command" - a
# command whose method raises them on every replica is stepped over like any other (C12)
RAISED = (ValueError, KeyError, IndexError, UserError, AssertionError, StopIteration, AttributeError, OSError, AwkwardError,
          MemoryError, RecursionError)


class KillNow(BaseException):
    """raised by a storage hook: the process dies before executing this primitive"""


_HOOKED = [False]


def install_storage_hooks():
    """Wrap the storage primitives (journal record/header write, .meta tmp write + rename, dump tmp write + rename)
    so that a simulation can stop a step after the w-th primitive.  Wrappers live in this process only."""
    if _HOOKED[0]:
        return
    _HOOKED[0] = True
    import pysyncobj.journal as J
    import pysyncobj.serializer as SER

    def prim(kind):
        sim = SimTransport.sim
        if sim is None:
            return
        if sim.dying:
            raise KillNow()          # the process is dead: nothing it still tries to write reaches the disk
        sim.prim_count += 1
        if sim.in_delete_to:
            sim.prim_in_delete += 1
        sim.prim_log.append(kind + (':in_delete_to' if sim.in_delete_to else ''))
        # kill_at = w: die before primitive w+1 of the step; kill_at = 1000+w: before primitive w+1 inside the journal head drop
        if sim.kill_at is not None and ((sim.kill_at < 1000 and sim.prim_count > sim.kill_at) or
                                        (sim.kill_at >= 1000 and sim.in_delete_to and sim.prim_in_delete > sim.kill_at - 1000)):
            sim.kill_info = {'at': sim.kill_at, 'next_primitive': kind, 'in_delete_to': bool(sim.in_delete_to),
                             'done': list(sim.prim_log[:-1])}
            sim.dying = True
            sim.freeze_disk()
            raise KillNow()

    orig_write = J.ResizableFile.write

    def write(self, offset, values):
        prim('journal_write')
        return orig_write(self, offset, values)
    J.ResizableFile.write = write

    orig_store = J.MetaStorer.storeMeta

    def storeMeta(self, meta):
        prim('meta_tmp_write')
        return orig_store(self, meta)
    J.MetaStorer.storeMeta = storeMeta

    class _Shutil(object):
        def __getattr__(self, name):
            import shutil
            return getattr(shutil, name)

        def move(self, a, b):
            prim('meta_rename')
            import shutil
            r = shutil.move(a, b)
            prim('after_meta_rename')
            return r
    J.shutil = _Shutil()

    orig_del_to = J.FileJournal.deleteEntriesTo

    def deleteEntriesTo(self, entryTo):
        sim = SimTransport.sim
        sim.in_delete_to += 1
        try:
            return orig_del_to(self, entryTo)
        finally:
            sim.in_delete_to -= 1
    J.FileJournal.deleteEntriesTo = deleteEntriesTo

    orig_replace = SER.atomicReplace

    def atomicReplace(a, b):
        prim('dump_rename')
        r = orig_replace(a, b)
        prim('after_dump_rename')      # dying here: the name points at whatever has reached the file so far
        return r
    SER.atomicReplace = atomicReplace

    class _Gzip(object):
        def __getattr__(self, name):
            import gzip
            return getattr(gzip, name)

        def GzipFile(self, *a, **k):
            import gzip
            if k.get('mode') == 'wb' and k.get('fileobj') is not None and getattr(k['fileobj'], 'name', None):
                prim('dump_tmp_write')
            return gzip.GzipFile(*a, **k)
    SER.gzip = _Gzip()


class _Rand(object):
    """stand-in for the `random` module inside pysyncobj.syncobj"""

    def __init__(self, sim):
        self.sim = sim

    def random(self):
        self.sim.rand_reads += 1
        return self.sim.rnd


class SimTransport(Transport):
    sim = None
    pending_nid = None

    def __init__(self, syncObj, selfNode, otherNodes):
        super(SimTransport, self).__init__(syncObj, selfNode, otherNodes)
        self.sim = SimTransport.sim
        self.nid = SimTransport.pending_nid
        self.connected = set()       # nids this endpoint believes it is connected to
        self.members = set(nid_of(n) for n in otherNodes)
        self.tlog = []               # addNode / dropNode calls of the current step

    def _node_for(self, nid):
        return TCPNode(addr(nid)) if nid < RO_BASE else Node(addr(nid))

    def send(self, node, message):
        dst = nid_of(node)
        if dst not in self.connected:
            return False
        self.sim.on_send(self.nid, dst, message)
        return True

    def addNode(self, node):
        x = nid_of(node)
        self.members.add(x)
        self.tlog.append((1, x))

    def dropNode(self, node):
        x = nid_of(node)
        self.members.discard(x)
        self.tlog.append((2, x))
        self.sim.on_drop_node(self.nid, x)


class SimMixin(object):
    """Mixed in front of whatever SyncObj subclass the simulation runs: tells the simulated clock
    when __sendAppendEntries is executing (its loop is only bounded by wall-clock time)."""

    def _SyncObj__sendAppendEntries(self):
        sim = SimTransport.sim
        sim.in_send += 1
        sim.skip = 2
        sim.delta_reads = 0
        sim.call_jumped = False
        try:
            S.SyncObj._SyncObj__sendAppendEntries(self)
        finally:
            sim.in_send -= 1


def make_app_class(maxver=0):
    """The replicated object: history of applied command ids.  op returns the position.  maxver > 0 adds a replicated
    method of that code version, so that the node supports setCodeVersion up to maxver (the method id of `op` stays 0)."""
    from pysyncobj import SyncObj, replicated

    class App(SyncObj):
        def __init__(self, *a, **k):
            super(App, self).__init__(*a, **k)
            self.history = []       # after SyncObj.__init__, so that it is part of every snapshot
            n = getattr(SimTransport.sim, 'cfg', {}).get('ballast', 0)
            if n:
                # constant incompressible user data: makes snapshots larger than any I/O buffer
                import hashlib
                out, h = [], b'ballast'
                while sum(len(x) for x in out) < n:
                    h = hashlib.sha256(h).digest()
                    out.append(h)
                self.ballast = b''.join(out)[:n]


        @replicated
        def op(self, cid, pad, raises):
            if raises:
                # whatever a user method may raise: the library's own handlers (KeyError for an unknown method id,
                # IndexError, ...) must not mistake it for one of theirs
                raise RAISED[cid % len(RAISED)]('cmd %d raises' % cid)
            self.history.append(cid)
            return len(self.history)

    if maxver > 0:
        # the decorator registers `vmark_v1` in the namespace of the class body it is used in
        class App1(App):
            @replicated(ver=1)
            def vmark(self):
                return None
        App1.__name__ = 'App'
        return App1
    return App


class Sim(object):
    """cfg keys: voters [nids], ro [nids], period, tmin, tspan (power of two), fallback, batch, chunk,
    use_batch, dyn, min_entries, min_time, queue, journal (None|'file'), dump (None|'file'), wait_leader"""

    def __init__(self, cfg, workdir=None):
        self.cfg = dict(cfg)
        self.workdir = workdir
        if workdir is not None:
            import shutil
            shutil.rmtree(workdir, ignore_errors=True)     # never start from files of an earlier run
            os.makedirs(workdir, exist_ok=True)
        self.now = 0.0
        self.rnd = 0.0
        self.t_jump = None
        self.budget = 30
        self.in_send = 0
        self.skip = 0
        self.delta_reads = 0
        self.jumped = 0
        self.call_jumped = False
        self.rand_reads = 0
        self.nodes = {}
        self.chan = {}
        self.sent = []          # (src, dst, msg) of the current step
        self.fired = []         # (cb, res, err) of the current step
        self.roles = []         # onStateChanged calls of the current step
        self.cmds = {}          # cid -> info
        self.cmd_bytes = {}     # command bytes -> cid (for REGULAR)
        # cfg['codever'] (default 1): the code version every node's class supports; cfg['oldcode'] = [nids] run a class that
        # only has version 0 (mixed old/new code: such a node refuses setCodeVersion(1) and snapshots taken after the switch)
        self.App = make_app_class(cfg.get('codever', 1))
        self.App_old = make_app_class(0)
        self.dead = set()
        self.prim_count = 0
        self.prim_in_delete = 0
        self.dying = False
        self.prim_log = []
        self.kill_at = None
        self.kill_info = None
        self.in_delete_to = 0
        self.abandoned = None
        self._install()

    # ---- environment patches ------------------------------------------------------------
    def _install(self):
        S.monotonicTime = self._clock
        S.random = _Rand(self)

    @staticmethod
    def uninstall():
        import random as _r
        from pysyncobj.monotonic import monotonic
        S.monotonicTime = monotonic
        S.random = _r

    def _clock(self):
        if self.in_send:
            if self.skip > 0:
                self.skip -= 1
            else:
                self.delta_reads += 1
                if self.delta_reads > self.budget and not self.call_jumped:
                    self.call_jumped = True
                    self.jumped += 1
                    self.now = self.now + self.cfg['period'] + 1.0
        return self.now

    def _state_changed(self, nid, old, new):
        """conf.onStateChanged.  cfg['state_cb_raises'] = nodes whose callback raises when they stop being leader (a hook
        that publishes the role somewhere that is unavailable just then): what the application's callback does must not
        change what the node IS"""
        self.roles.append((nid, old, new))
        if nid in self.cfg.get('state_cb_raises', ()) and old == 2 and new != 2:
            raise CallbackRefused('role hook of node %d is unavailable' % nid)

    def conf_for(self, nid):
        c = self.cfg
        kw = dict(autoTick=False, appendEntriesPeriod=float(c['period']), raftMinTimeout=float(c['tmin']),
                  raftMaxTimeout=float(c['tmin'] + c['tspan']), leaderFallbackTimeout=float(c['fallback']),
                  connectionTimeout=float(c['tmin'] + c['tspan']) + 1000.0,
                  appendEntriesBatchSizeBytes=c['batch'], logCompactionBatchSize=c['chunk'],
                  appendEntriesUseBatch=c.get('use_batch', True), dynamicMembershipChange=c.get('dyn', False),
                  logCompactionMinEntries=c.get('min_entries', 10 ** 9), logCompactionMinTime=float(c.get('min_time', 10 ** 9)),
                  commandsQueueSize=c.get('queue', 1000), commandsWaitLeader=c.get('wait_leader', True),
                  useFork=bool(c.get('fork')), onStateChanged=lambda o, n, nid=nid: self._state_changed(nid, o, n))
        if c.get('custom') and nid < RO_BASE:
            # user-supplied serializer functions: the application stores its own state next to the Raft data
            def ser(fileName, data, nid=nid):
                with open(fileName, 'wb') as f:
                    _pickle.dump((list(self.nodes[nid].history), data), f, 2)

            def deser(fileName, nid=nid):
                with open(fileName, 'rb') as f:
                    hist, data = _pickle.load(f)
                self.nodes[nid].history = list(hist)
                return data
            kw['serializer'] = ser
            kw['deserializer'] = deser
        if c.get('journal') == 'file' and nid < RO_BASE:
            kw['journalFile'] = os.path.join(self.workdir, 'journal_%d' % nid)
        if c.get('dump') == 'file' and nid < RO_BASE:
            kw['fullDumpFile'] = os.path.join(self.workdir, 'dump_%d' % nid)
        return SyncObjConf(**kw)

    def start(self, nid, others, now, rnd):
        """create (or re-create after a kill) node nid"""
        self.now = float(now)
        self.rnd = rnd
        SimTransport.sim = self
        SimTransport.pending_nid = nid
        me = addr(nid) if nid < RO_BASE else None
        base = self.App_old if (nid in self.cfg.get('oldcode', ()) and self.App is not None and hasattr(self, 'App_old')
                                and self.App.__name__ == 'App') else self.App
        cls = base if issubclass(base, SimMixin) else type('Sim' + base.__name__, (SimMixin, base), {})
        obj = cls(me, [addr(o) for o in others], self.conf_for(nid), transportClass=SimTransport)
        self.nodes[nid] = obj
        self.dead.discard(nid)
        for k in list(self.chan):
            if nid in k:
                self.chan[k].clear()
        return obj

    def tr(self, nid):
        return self.nodes[nid]._SyncObj__transport

    # ---- transport callbacks ------------------------------------------------------------
    def freeze_disk(self):
        """the stepped process dies now: remember its files as the operating system sees them (read through fresh
        descriptors: what still sits in the dying process's userspace buffers is not part of it)"""
        self.frozen = {}
        if self.workdir is None:
            return
        for f in os.listdir(self.workdir):
            p = os.path.join(self.workdir, f)
            if os.path.isfile(p):
                with open(p, 'rb') as fh:
                    self.frozen[f] = fh.read()

    def thaw_disk(self):
        """after the dead process's frames have unwound (closing files flushes buffers post mortem): put back what
        was on disk at the moment of death"""
        frozen, self.frozen = getattr(self, 'frozen', None), None
        if frozen is None or self.workdir is None:
            return
        for f in os.listdir(self.workdir):
            p = os.path.join(self.workdir, f)
            if os.path.isfile(p) and f not in frozen:
                os.unlink(p)
        for f, data in frozen.items():
            p = os.path.join(self.workdir, f)
            try:
                cur = open(p, 'rb').read()
            except IOError:
                cur = None
            if cur != data:
                with open(p, 'wb') as fh:
                    fh.write(data)

    def on_send(self, src, dst, msg):
        if self.dying:
            return      # (a bare `except:` in the code under test may swallow KillNow: the dead process sends nothing)
        self.sent.append((src, dst, msg))
        self.chan.setdefault((src, dst), deque()).append(_pickle.dumps(msg, 2))

    def on_drop_node(self, a, x):
        t = self.tr(a) if a in self.nodes else None
        if t is not None:
            t.connected.discard(x)
        self.chan.setdefault((x, a), deque()).clear()

    # ---- command table ---------------------------------------------------------------------
    def register_cmd(self, cid, size, raises=False):
        pad = b'x' * size
        self.cmds[cid] = {'pad': pad, 'raises': raises}
        return pad

    def cid_of_command(self, command):
        """command bytes as stored in the log -> (kind, cid); (9, 0, 0) for bytes that are no command this harness ever
        submitted (a damaged journal can hand back anything: the monitors then see an entry nobody stored)"""
        try:
            return self._cid_of_command(command)
        except Exception:
            return (9, 0, 0)

    def _cid_of_command(self, command):
        t = command[0] if isinstance(command[0], int) else ord(command[0])
        if t == 1:
            return (1, 0, 0)
        if t == 0:
            c = _pickle.loads(command[1:])
            if isinstance(c, tuple) and len(c) >= 2:
                return (0, c[1][0], 1 if (len(c[1]) > 2 and c[1][2]) else 0)
            return (0, 0, 0)
        if t == 2:
            req = _pickle.loads(command[1:])
            return (2, (1 if req[0] == 'add' else 2), nid_of(req[1]))
        if t == 3:
            return (3, _pickle.loads(command[1:]), 0)
        return (9, 0, 0)

    # ---- events -----------------------------------------------------------------------------
    def begin(self, now=None, rnd=None, budget=None):
        self.sent, self.fired, self.roles = [], [], []
        self.exc = 0
        self.delta_reads = 0
        self.jumped = 0
        self.call_jumped = False
        self.rand_reads = 0
        if now is not None:
            self.now = float(now)
            self.t_jump = float(now) + self.cfg['period'] + 1.0
        if rnd is not None:
            self.rnd = rnd / float(self.cfg['tspan'])
        self.budget = 30 if budget is None else budget
        self.prim_count = 0
        self.prim_in_delete = 0
        self.prim_log = []
        self.kill_info = None
        self.abandoned = None
        for o in self.nodes.values():
            o._SyncObj__transport.tlog = []

    def _cb(self, cb):
        if not cb:
            return None
        return lambda res, err, cb=cb: self.fired.append((cb, res, err))

    def apply(self, ev):
        """returns the stepped node id (or None)"""
        k = ev[0]
        try:
            if k == 'tick':
                _, n, now, rnd, budget = ev
                self.begin(now, rnd, budget)
                self.step_nid = n
                self.nodes[n]._onTick(0.0)
            elif k in ('tickkill', 'deliverkill'):
                # like tick / deliver, but the process dies before its (w+1)-th storage primitive of this step
                install_storage_hooks()
                if k == 'tickkill':
                    _, n, now, rnd, w = ev
                    self.begin(now, rnd, None)
                    self.step_nid = n
                else:
                    _, a, b, now, rnd, w = ev
                    self.begin(now, rnd)
                    self.step_nid = n = b
                self.kill_at = w
                SimTransport.sim = self
                try:
                    if k == 'tickkill':
                        self.nodes[n]._onTick(0.0)
                    else:
                        raw = self.chan[(a, b)].popleft()
                        t = self.tr(b)
                        t._onMessageReceived(t._node_for(a), _pickle.loads(raw))
                except KillNow:
                    pass
                except Exception:
                    if not self.dying:
                        raise
                finally:
                    self.kill_at = None
                    if self.dying:
                        self.dying = False
                        self.abandoned = self.nodes[n]
                        self.kill(n, destroy=False)
                        self.step_nid = None
                        import gc
                        gc.collect()          # writers still referenced by the dead frames close (and flush) now
                        self.thaw_disk()
            elif k == 'deliver':
                _, a, b, now, rnd = ev
                self.begin(now, rnd)
                self.step_nid = b
                raw = self.chan[(a, b)].popleft()
                msg = _pickle.loads(raw)
                t = self.tr(b)
                t._onMessageReceived(t._node_for(a), msg)
            elif k == 'drop':
                _, a, b = ev
                self.begin()
                self.step_nid = a
                t = self.tr(a)
                t.connected.discard(b)
                self.chan.setdefault((b, a), deque()).clear()
                if b >= RO_BASE:
                    t._onReadonlyNodeDisconnected(t._node_for(b))
                else:
                    t._onNodeDisconnected(t._node_for(b))
            elif k == 'lose':
                _, a, b, kk = ev
                self.begin()
                self.step_nid = None
                q = self.chan.setdefault((a, b), deque())
                for _i in range(min(kk, len(q))):
                    q.pop()
            elif k == 'connect':
                _, a, b = ev
                self.begin()
                self.step_nid = a
                t = self.tr(a)
                if not (b in self.nodes and a in self.tr(b).connected):
                    self.chan.setdefault((a, b), deque()).clear()
                    self.chan.setdefault((b, a), deque()).clear()
                t.connected.add(b)
                if b >= RO_BASE:
                    t._onReadonlyNodeConnected(t._node_for(b))
                else:
                    t._onNodeConnected(t._node_for(b))
            elif k == 'submit':
                _, n, cid, size, cb, raises = ev
                self.begin()
                self.step_nid = n
                pad = self.register_cmd(cid, size, raises)
                self.nodes[n].op(cid, pad, raises, callback=self._cb(cb))
            elif k == 'admin':
                _, n, add, x, cb = ev
                self.begin()
                self.step_nid = n
                if add:
                    self.nodes[n].addNodeToCluster(addr(x), callback=self._cb(cb))
                else:
                    self.nodes[n].removeNodeFromCluster(addr(x), callback=self._cb(cb))
            elif k == 'setver':
                _, n, v, cb = ev
                self.begin()
                self.step_nid = n
                self.nodes[n].setCodeVersion(v, callback=self._cb(cb))
            elif k == 'compact':
                _, n = ev
                self.begin()
                self.step_nid = n
                self.nodes[n].forceLogCompaction()
            elif k == 'kill':
                _, n = ev
                self.begin()
                self.step_nid = None
                self.kill(n)
            elif k == 'restart':
                _, n, others, now, rnd = ev
                self.begin(now, rnd)
                self.step_nid = n
                self.start(n, others, now, rnd / float(self.cfg['tspan']))
            else:
                raise ValueError('unknown event %r' % (ev,))
        except Exception as e:          # an exception escaping a handler is an observable outcome
            self.exc = exc_code(e)
            self.exc_repr = repr(e)
        return self.step_nid

    def kill(self, n, destroy=True):
        obj = self.nodes.pop(n, None)
        self.dead.add(n)
        if obj is not None and destroy:
            try:
                obj._SyncObj__raftLog._destroy()
            except Exception:
                pass
        elif obj is not None:
            self.zombies = getattr(self, 'zombies', [])
            self.zombies.append(obj)      # keeps the mmap alive: an executed store stays visible, nothing is flushed or closed
        for k in list(self.chan):
            if n in k:
                self.chan[k].clear()
        for m, o in self.nodes.items():
            pass

    # ---- observation --------------------------------------------------------------------------
    def entry_enc(self, e):
        kind, a, b = self.cid_of_command(e[0])
        return [kind, a, b, len(e[0]), e[1], e[2]]

    def cb_enc(self, cb):
        if cb is None:
            return [0, 0, 0]
        if isinstance(cb, tuple):
            return [2, nid_of(cb[0]), cb[1]]
        # local user callback: find its id through the closure default
        d = getattr(cb, '__defaults__', None)
        return [1, d[0] if d else 0, 0]

    def msg_enc(self, m):
        t = m['type']
        if t == 'request_vote':
            return [1, m['term'], m['last_log_index'], m['last_log_term']]
        if t == 'response_vote':
            return [2, m['term']]
        if t == 'append_entries':
            if 'prevLogIdx' in m:
                prev = [0, 0] if m['prevLogIdx'] is None else [m['prevLogIdx'] + 1, m['prevLogTerm'] + 1]
                if m.get('transmission') is not None:
                    lab = {'start': 1, 'process': 2, 'finish': 3}[m['transmission']]
                    return [4, m['term'], m['commit_index']] + prev + [lab, len(m['data'])]
                return [3, m['term'], m['commit_index']] + prev + L([self.entry_enc(e) for e in m['entries']])
            s = m.get('serialized')
            if s is None:
                return [5, m['term'], m['commit_index'], 0]
            if s is False:
                return [5, m['term'], m['commit_index'], 1]
            return [5, m['term'], m['commit_index'], 2, len(s[0]), 1 if s[1] else 0, 1 if s[2] else 0]
        if t == 'apply_command':
            kind, a, b = self.cid_of_command(m['command'])
            return [6, kind, a, b, len(m['command']), opt(m.get('request_id'))]
        if t == 'apply_command_response':
            if m.get('error') is not None:
                return [7, m['request_id'], 0, m['error']]
            return [7, m['request_id'], 1, m['log_idx'], m['log_term']]
        if t == 'next_node_idx':
            return [8, m.get('term', 0), m['next_node_idx'], 1 if m['reset'] else 0, 1 if m['success'] else 0]
        return [9]

    missing_attrs = set()

    def node_state(self, n):
        """canonical state of node n as a flat list of non-negative ints (see coq/Raft/Obs.v)"""
        o = self.nodes[n]
        def g(name):
            # scalar bookkeeping fields a refactoring may rename or drop: the observation then carries a marker (the
            # digest differs from the model's, so the correspondence reports it) and the trace goes on under the monitors
            try:
                return getattr(o, '_SyncObj__' + name)
            except AttributeError:
                if name in TOLERATED_MISSING:
                    self.missing_attrs.add(name)
                    return MISSING
                raise
        log = g('raftLog')
        ser = g('serializer')
        sg = lambda name: getattr(ser, '_Serializer__' + name)
        ti = lambda x: int(x)
        pairs = lambda d, f=(lambda v: v): sorted([nid_of(k), f(v)] for k, v in d.items())
        out = [g('raftState'), g('raftCurrentTerm'), opt(nid_of(g('votedForNodeId'))), g('votesCount'),
               opt(nid_of(g('raftLeader'))), ti(g('raftElectionDeadline')),
               g('raftCommitIndex'), g('raftLastApplied')]
        out += L([self.entry_enc(e) for e in log[:]])
        out += L(sorted(nid_of(x) for x in g('otherNodes')))
        out += L(sorted(nid_of(x) for x in g('readonlyNodes')))
        out += L(sorted(nid_of(x) for x in g('connectedNodes')))
        out += L(sorted(g('transport').connected))
        out += L(pairs(g('raftNextIndex')))
        out += L(pairs(g('raftMatchIndex')))
        out += L(pairs(g('lastResponseTime'), ti))
        out += [opt(g('leaderCommitIndex')), 1 if g('onReadyCalled') else 0, opt(g('changeClusterIDx')),
                opt(g('noopIDx')), ti(g('newAppendEntriesTime'))]
        q = list(getattr(g('commandsQueue'), '_FastQueue__queue'))
        out += L([list(self.cid_of_command(c)) + [len(c)] + self.cb_enc(cb) for c, cb in q])
        wc = g('commandsWaitingCommit')
        # (a value that is one (term, callback) pair instead of a list of them is observed as a one-element list: the
        # shape of a private table is not what is compared)
        lst = lambda v: v if isinstance(v, list) else [v]
        out += L([[idx] + L([[t] + self.cb_enc(cb) for t, cb in lst(wc[idx])]) for idx in sorted(wc) if wc[idx]])
        out += [g('commandsLocalCounter')]
        wr = g('commandsWaitingReply')
        out += L([[k] + self.cb_enc(wr[k]) for k in sorted(wr)])
        out += [len(g('recvTransmission')), 1 if g('forceLogCompaction') else 0, ti(g('lastSerializedTime')),
                opt(g('lastSerializedEntry'))]
        pid = sg('pid')
        out += [{0: 0, -1: 1, -2: 2}.get(pid, 3), sg('currentID')]
        tr = sg('transmissions')
        out += L(sorted([nid_of(k), v['transmitted']] for k, v in tr.items()))
        inc = sg('incomingTransmissionFile')
        out += [0 if inc is None else 1 + (len(inc) if isinstance(inc, bytes) else inc.tell())]
        out += L(list(o.history))
        out += [g('enabledCodeVersion'), 1 if g('needLoadDumpFile') else 0, getattr(o, '_SyncObj__journalReplayIdx', 0)]
        return out

    def outs(self):
        """canonical outputs of the last step"""
        per = {}
        for s, d, m in self.sent:
            per.setdefault(d, []).append(self.msg_enc(m))
        out = L([[d] + L([[len(x)] + x for x in per[d]]) for d in sorted(per)])
        out += L([[cb, 0 if res is None else (res + 1 if isinstance(res, int) else 1), err if err is not None else 99]
                  for cb, res, err in self.fired])
        out += L([[o, n] for _, o, n in self.roles])
        tl = self.tr(self.step_nid).tlog if (self.step_nid in self.nodes) else []
        # within a run of notifications of the same kind the order is a set iteration order: sort each run
        canon, run = [], []
        for x in tl:
            if run and run[0][0] != x[0]:
                canon += sorted(run)
                run = []
            run.append(tuple(x))
        canon += sorted(run)
        out += L([list(x) for x in canon])
        out += [self.exc, self.jumped]
        return out

    def observe(self):
        n = self.step_nid
        st = self.node_state(n) if (n is not None and n in self.nodes) else []
        return st, self.outs()

    def digest(self):
        st, ou = self.observe()
        return hnums(ou, hnums(st))

    def queue_len(self, a, b):
        return len(self.chan.get((a, b), ()))


MISSING = 987654321
TOLERATED_MISSING = ('noopIDx', 'changeClusterIDx', 'leaderCommitIndex', 'onReadyCalled', 'newAppendEntriesTime',
                     'forceLogCompaction', 'lastSerializedTime', 'lastSerializedEntry', 'commandsLocalCounter', 'votesCount',
                     'enabledCodeVersion', 'needLoadDumpFile')


def exc_code(e):
    name = type(e).__name__
    return {'ValueError': 1, 'KeyError': 2, 'IndexError': 3, 'AssertionError': 4, 'TypeError': 5,
            'EOFError': 6, 'UnpicklingError': 7, 'error': 8, 'Exception': 9, 'AttributeError': 10}.get(name, 11)
