"""Implementation side of the C14 correspondence: the real pysyncobj.transport.TCPTransport with
`TcpConnection` / `TcpServer` / `monotonicTime` (module attributes of pysyncobj.transport) and the DNS
resolver replaced by fakes, driven by abstract connection events under virtual time.

A *case* is (self address | read-only, connectionRetryTime, registered utility commands, initial
nodes, event list).  Running it yields, per event, the canonical observation the Coq model
(coq/Transport/Model.v: obs_full) must reproduce: every callback / dial / send / disconnect in order,
followed by the whole registry (_nodes/_nodeAddrToNode, _connections, _unknownConnections,
_readonlyNodes + counter, _lastConnectAttempt, state / callbacks of every connection object ever
created).  Only a 40-bit checksum of that observation goes into the generated .v file (Coq reads
numerals slowly); the model computes the same checksum (Model.v: obs).  The un-hashed observation is
kept in Impl.full for debugging.  While it runs, a monitor that only uses what the harness itself
did (which address it dialled / named on which connection object, which nodes it added and
dropped) checks the property text on the implementation.

Time: integer ticks of 1/1024 s (floats k/1024 are exact, so Python's float comparisons equal the
model's integer comparisons).  Addresses: strings from a per-case pool, handed to the model as their
rank in Python's string order.
"""
import random
import os
import sys

REPO = (os.environ.get('VERIF_REPO') or '/repo')
if REPO not in sys.path:
    sys.path.insert(0, REPO)

TICKS = 1024.0
DISCONNECTED, CONNECTING, CONNECTED = 0, 1, 2

CMDS = ['status', 'add', 'remove', 'set_version', 'zzz', 'frob']

ADDRESS_POOLS = [
    ['10.0.0.1:4321', '10.0.0.2:4321', '10.0.0.10:4321', '10.0.0.3:80', '10.0.0.3:9', '9.9.9.9:1000'],
    ['a:1', 'b:1', 'B:1', 'a:10', 'a:2', 'localhost:4000'],
    ['node-1:7000', 'node-10:7000', 'node-2:7000', 'Node-1:7000', 'node-1:700', 'node-1:70000'],
    ['[::1]:5000', '127.0.0.1:5000', 'host:5000', 'host:05000', 'hosT:5000', '~:1'],
]


def load_impl():
    import pysyncobj.transport as TR
    import pysyncobj.node as ND
    import pysyncobj.config as CF
    return TR, ND, CF


HMOD = 1099511627689   # 2^40 - 87, as in coq/Transport/Model.v


def reg_hash(reg):
    """the checksum coq/Transport/Model.v: hash_ll computes over obs_full"""
    acc = 0
    for l in reg:
        for x in l:
            acc = (acc * 1000003 + x + 12345) % HMOD
        acc = (acc * 1000003 - 1 + 12345) % HMOD
    return acc


class Clock(object):
    def __init__(self, ticks=1000):
        self.ticks = ticks

    def __call__(self):
        return self.ticks / TICKS


class World(object):
    """Everything the fakes need to know about the current case."""
    current = None

    def __init__(self, pool):
        self.pool = sorted(pool)            # Python's string order is the oracle for address ranks
        self.rank = {a: i for i, a in enumerate(self.pool)}
        self.clock = Clock()
        self.conns = []                     # FakeConn objects by id
        self.log = []                       # outputs of the event being executed (encoded)
        self.refuse = set()                 # ranks whose connect() fails now
        self.send_fault = False
        self.util_raise = False
        self.server = None
        self.specs = {}                     # id(message object) -> (kind, k)
        self.keep = []                      # keeps injected objects alive
        self.current_conn = None            # connection object being processed by the harness
        self.pending_util = {}              # cid -> list of utility continuations
        self.mon = None

    def emit(self, *xs):
        xs = list(xs)
        self.log.append(xs + [0] * (6 - len(xs)))


class FakeResolver(object):
    """host -> ip.  A refused address resolves to None half of the time (connect() then returns
    False before touching the socket), which the model treats exactly like a refused connect."""

    def resolve(self, host):
        w = World.current
        if host in w.dns_fail:
            return None
        return host


class FakeConn(object):
    """Stand-in for tcp_connection.TcpConnection: the state machine the transport relies on
    (constructor with/without socket, connect, disconnect + callback discipline, the
    CONNECTING -> CONNECTED step of __processConnection), no bytes."""

    def __init__(self, poller, onMessageReceived=None, onConnected=None, onDisconnected=None,
                 socket=None, timeout=10.0, sendBufferSize=2 ** 13, recvBufferSize=2 ** 13, keepalive=None):
        w = World.current
        self.w = w
        self.cid = len(w.conns)
        w.conns.append(self)
        self.sendRandKey = None
        self.recvRandKey = None
        self.recvLastTimestamp = 0
        self.encryptor = None
        self.state = CONNECTED if socket is not None else DISCONNECTED
        self.incoming = socket is not None
        self._onMsg = onMessageReceived
        self._onConn = onConnected
        self._onDisc = onDisconnected
        self.dialled = None                 # address string of the last connect() (monitor)

    def setOnConnectedCallback(self, cb):
        self._onConn = cb

    def setOnMessageReceivedCallback(self, cb):
        self._onMsg = cb

    def setOnDisconnectedCallback(self, cb):
        self._onDisc = cb

    def connect(self, host, port):
        w = self.w
        addr = w.dial_addr               # set by the Node.ip shim: the node whose ip was just resolved
        r = w.rank.get(addr, -1)
        if host is None:
            w.emit(6, self.cid, r, 0)
            return False
        self.state = DISCONNECTED
        ahost, aport = addr.rsplit(':', 1)
        if (host, port) != (ahost, int(aport)):
            w.emit(6, self.cid, -2, 0)   # dialled something else than the node's address: never matches the model
        if r in w.refuse:
            w.emit(6, self.cid, r, 0)
            return False
        self.state = CONNECTING
        self.dialled = addr
        w.emit(6, self.cid, r, 1)
        return True

    def send(self, message):
        w = self.w
        w.emit(7, self.cid, *w.enc_payload(message))
        if w.mon is not None:
            w.mon.on_conn_send(self, message)
        if w.send_fault:
            w.send_fault = False
            self._close()

    def fileno(self):
        return 1000 + self.cid

    def _close(self):
        need = self._onDisc is not None and self.state != DISCONNECTED
        self.sendRandKey = None
        self.recvRandKey = None
        self.recvLastTimestamp = 0
        self.state = DISCONNECTED
        if need:
            self._onDisc()

    def disconnect(self):                # called by the transport
        self.w.emit(8, self.cid)
        self._close()

    def getSendBufferSize(self):
        return 0

    # ---- events injected by the harness -------------------------------------------------
    def ev_connected(self):
        """__processConnection on a CONNECTING object whose socket became writable without error."""
        if self.state != CONNECTING:
            return
        if self._onConn is not None:
            self._onConn()
        if self.state == DISCONNECTED:
            return
        self.state = CONNECTED

    def ev_message(self, m):
        """one iteration of the parse loop of __processConnection"""
        if self.state != CONNECTED:
            return
        if self._onMsg is not None:
            self._onMsg(m)

    def ev_closed(self):
        """reset / EOF / SO_ERROR / read timeout noticed by the object: its own disconnect()"""
        self._close()


class FakeServer(object):
    def __init__(self, poller, host, port, onNewConnection, sendBufferSize=2 ** 13, recvBufferSize=2 ** 13,
                 connectionTimeout=3.5, keepalive=None):
        self.onNewConnection = onNewConnection
        self.bound = False
        World.current.server = self
        self.args = (host, port)

    def bind(self):
        self.bound = True

    def unbind(self):
        self.bound = False


class FakeSyncObj(object):
    def __init__(self, conf):
        self.conf = conf
        self.encryptor = None
        self._poller = object()
        self.tick_callbacks = []

    def addOnTickCallback(self, cb):
        self.tick_callbacks.append(cb)


_saved = {}


def install(world, TR, ND):
    World.current = world
    world.dns_fail = set()
    world.dial_addr = None
    if not _saved:
        _saved['conn'] = TR.TcpConnection
        _saved['server'] = TR.TcpServer
        _saved['clock'] = TR.monotonicTime
        _saved['resolver'] = ND.globalDnsResolver
        _saved['ip'] = ND.TCPNode.ip
    TR.TcpConnection = FakeConn
    TR.TcpServer = FakeServer
    TR.monotonicTime = world.clock
    resolver = FakeResolver()
    ND.globalDnsResolver = lambda: resolver
    orig_ip = _saved['ip']

    def ip(self):
        # the real property body runs (globalDnsResolver().resolve(host)); we only note whose ip was asked for
        World.current.dial_addr = self.address
        return orig_ip.fget(self)
    ND.TCPNode.ip = property(ip)


def uninstall(TR, ND):
    if _saved:
        TR.TcpConnection = _saved['conn']
        TR.TcpServer = _saved['server']
        TR.monotonicTime = _saved['clock']
        ND.globalDnsResolver = _saved['resolver']
        ND.TCPNode.ip = _saved['ip']
    World.current = None


# ---------------------------------------------------------------------------------------------
# monitor: the property text on the implementation, from the harness' own bookkeeping only
# ---------------------------------------------------------------------------------------------
class Monitor(object):
    def __init__(self, world):
        self.w = world
        self.members = set()          # addresses currently added
        self.ever = set()             # addresses ever added
        self.named = {}               # cid -> address | 'readonly' named by the accepted handshake
        self.ro_of = {}               # cid -> id of the read-only Node created for it
        self.notif = {}               # node key -> cid of the outstanding "connected" notification
        self.superseded = set()       # cids whose registration for their node was replaced by a later handshake
        self.superseded_by_add = set()  # cids orphaned by a second addNode of the same node (unguarded application)
        self.current_for = {}         # node key -> cid that most recently became "the" connection of the node
        self.spoofed = set()          # node keys for which a peer we dial also dialled us (or a double add happened)
        self.problems = []            # (kind, text)
        self.known_quirk = []         # records explained by the stale-connection quirk (candidate finding)
        self.handshake_msg = None
        self.last_send = None

    def key(self, node):
        from pysyncobj.node import TCPNode
        if node is None:
            return None
        if isinstance(node, TCPNode):
            return ('M', node.address)
        return ('R', node.id)

    def bad(self, kind, text):
        self.problems.append((kind, text))

    # callbacks of the transport ------------------------------------------------------------
    def node_connected(self, node, readonly):
        w = self.w
        c = w.current_conn
        k = self.key(node)
        if k is None:
            return
        if c is None:
            self.bad('notification', 'connected notification for %r outside any connection event' % (k,))
            return
        if c.incoming and c.dialled is None:
            m = self.handshake_msg
            if readonly:
                if m != 'readonly':
                    self.bad('attribution', 'read-only node announced on connection %d whose message was %r' % (c.cid, m))
                self.named[c.cid] = 'readonly'
                # ... and not one an EARLIER read-only connection of this transport carried: the application addresses its
                # answers to Node(id) (a forwarded command still queued when its client went away is answered later), so a
                # re-used id delivers the answer meant for a dead client to another one
                for o_cid, o_id in self.ro_of.items():
                    if o_cid != c.cid and o_id == node.id:
                        self.bad('readonly-id-reuse', 'read-only connection %d was given the id %r that read-only connection %d '
                                 'carried before: an answer still owed to the earlier client reaches the new one'
                                 % (c.cid, node.id, o_cid))
                        break
                self.ro_of[c.cid] = node.id
                # every read-only connection is a node of its own: its id must not be one a live connection carries
                for o in self.w.conns:
                    if o.cid != c.cid and self.ro_of.get(o.cid) == node.id and \
                            getattr(self, 'states_before', {}).get(o.cid) == CONNECTED:
                        self.bad('readonly-id', 'read-only connection %d was given the id %r of read-only connection %d, which is '
                                 'still connected (answers for one reach the other, the older connection is closed as superseded)'
                                 % (c.cid, node.id, o.cid))
            else:
                if not isinstance(m, str) or m != node.address:
                    self.bad('attribution', 'node %r announced on connection %d whose handshake named %r' % (k, c.cid, m))
                if node.address not in self.members:
                    self.bad('non-member', 'handshake naming %r accepted while it is not a member' % (node.address,))
                self.named[c.cid] = node.address
        else:
            if readonly or c.dialled != node.address:
                self.bad('attribution', 'node %r announced on connection %d which dialled %r' % (k, c.cid, c.dialled))
        old = self.current_for.get(k)
        if old is not None and old != c.cid:
            self.superseded.add(old)
        self.current_for[k] = c.cid
        self.notif[k] = c.cid

    def node_disconnected(self, node):
        self.notif.pop(self.key(node), None)

    def delivered(self, node, message):
        w = self.w
        c = w.current_conn
        k = self.key(node)
        if c is None or k is None:
            self.bad('attribution', 'message delivered as from %r outside any connection event' % (k,))
            return
        if c.cid in self.superseded:
            self.bad('superseded', 'message delivered as from %r on connection %d, which a newer connection of that node superseded'
                     % (k, c.cid))
        if k[0] == 'M':
            who = c.dialled if c.dialled is not None else self.named.get(c.cid)
            if c.dialled is not None and c.cid in self.named and self.named[c.cid] != c.dialled:
                who = None
            if who != k[1]:
                self.bad('attribution', 'message on connection %d (handshake %r, dialled %r) delivered as from %r'
                         % (c.cid, self.named.get(c.cid), c.dialled, k[1]))
            if k[1] not in self.ever:
                self.bad('non-member', 'message delivered as from %r which was never a member' % (k[1],))
            elif k[1] not in self.members:
                rec = 'message delivered as from removed node %r on connection %d' % (k[1], c.cid)
                if c.cid in self.superseded_by_add:
                    # only reachable when the application adds a node it already has (SyncObj never does)
                    self.known_quirk.append(rec)
                else:
                    self.bad('removed-node', rec)
        else:
            if self.named.get(c.cid) != 'readonly' or self.ro_of.get(c.cid) != k[1]:
                self.bad('attribution', 'message on connection %d delivered as from read-only node %r' % (c.cid, k[1]))

    def on_conn_send(self, conn, message):
        self.last_send = (conn, message)

    # actions of the harness ----------------------------------------------------------------
    def added(self, addr):
        k = ('M', addr)
        if addr in self.members:
            for c in self.w.conns:
                if c.dialled == addr or self.named.get(c.cid) == addr:
                    self.superseded_by_add.add(c.cid)
            self.spoofed.add(k)           # double add: the registered object is replaced by a fresh one
            old = self.current_for.pop(k, None)
            if old is not None:
                self.superseded_by_add.add(old)
            self.notif.pop(k, None)
        self.members.add(addr)
        self.ever.add(addr)

    def dropped(self, key):
        if key[0] == 'M':
            self.members.discard(key[1])
        self.notif.pop(key, None)
        self.current_for.pop(key, None)

    def check_send(self, key, msg_obj, fault, result, conn_states_before):
        """send() must be truthful in both directions w.r.t. the notifications the application got"""
        c_id = self.notif.get(key)
        sent_on = None
        if self.last_send is not None and self.last_send[1] is msg_obj:
            sent_on = self.last_send[0]
        if result:
            if sent_on is None:
                self.bad('send', 'send to %r returned True but nothing was handed to a connection' % (key,))
            else:
                if sent_on.state != CONNECTED:
                    self.bad('send', 'send to %r returned True on connection %d which is not CONNECTED' % (key, sent_on.cid))
                who = sent_on.dialled if sent_on.dialled is not None else self.named.get(sent_on.cid)
                if key[0] == 'M' and who != key[1]:
                    self.bad('send', 'send to %r went to connection %d of %r' % (key, sent_on.cid, who))
                if key[0] == 'R' and self.ro_of.get(sent_on.cid) != key[1]:
                    self.bad('send', 'send to read-only %r went to connection %d' % (key, sent_on.cid))
            if c_id is None and key not in self.spoofed:
                self.bad('notification', 'send to %r succeeded although no connected notification is outstanding' % (key,))
        if c_id is not None and not fault and conn_states_before.get(c_id) == CONNECTED and not result:
            self.bad('notification', 'connected notification for %r on connection %d (still CONNECTED) but send returned False'
                     % (key, c_id))


# ---------------------------------------------------------------------------------------------
# the implementation under test
# ---------------------------------------------------------------------------------------------
class Impl(object):
    def __init__(self, TR, ND, CF, world, self_addr, retry_ticks, utils, initial):
        self.TR, self.ND, self.CF = TR, ND, CF
        self.w = world
        w = world
        w.mon = Monitor(w)
        self.mon = w.mon
        self.self_addr = self_addr
        w.self_addr = self_addr
        w.enc_payload = self.enc_payload
        self.obs = []          # per event: checksum of (outputs, then the registry) = what the model must reproduce
        self.outs = []         # per event: the encoded outputs
        self.full = []         # per event: outputs + the full canonical registry (debugging / witnesses)
        self.raised = []
        conf = CF.SyncObjConf(connectionRetryTime=retry_ticks / TICKS, connectionTimeout=3.5)
        self.syncobj = FakeSyncObj(conf)
        impl = self

        class ObservedTransport(TR.TCPTransport):
            def addNode(self, node):
                # the constructor calls addNode for every initial node: observe each as one AddNode event
                impl.w.log = []
                impl.mon.added(node.address)
                TR.TCPTransport.addNode(self, node)
                impl._observe(self, sort_outs=False)

        selfNode = ND.TCPNode(self_addr) if self_addr is not None else None
        self.t = ObservedTransport(self.syncobj, selfNode, [ND.TCPNode(a) for a in initial])
        t = self.t
        t.setOnNodeConnectedCallback(self._cb_connected)
        t.setOnNodeDisconnectedCallback(self._cb_disconnected)
        t.setOnReadonlyNodeConnectedCallback(self._cb_ro_connected)
        t.setOnReadonlyNodeDisconnectedCallback(self._cb_ro_disconnected)
        t.setOnMessageReceivedCallback(self._cb_message)
        for cmd in utils:
            t.setOnUtilityMessageCallback(CMDS[cmd], self._make_util(cmd))

    # ---- encoders -----------------------------------------------------------------------
    def enc_node(self, node):
        if node is None:
            return [2, 0]
        if isinstance(node, self.ND.TCPNode):
            return [0, self.w.rank.get(node.address, -1)]
        return [1, int(node.id)]

    def enc_payload(self, p):
        if isinstance(p, tuple) and len(p) == 2 and p[0] == 'snd':
            return [2, p[1]]
        if p == 'readonly':
            return [1, 0]
        if isinstance(p, str) and p in self.w.rank:
            return [0, self.w.rank[p]]
        if p == 'boom':
            return [3, 0]
        if (isinstance(p, str) and (p.startswith('SUCCESS') or p.startswith('FAIL'))) or (isinstance(p, tuple) and p[:1] == ('res',)):
            return [4, 0]
        return [9, 9]

    def enc_spec(self, obj):
        return list(self.w.specs.get(id(obj), (9, 9)))

    # ---- callbacks ----------------------------------------------------------------------
    def _cb_connected(self, node):
        self.w.emit(1, *self.enc_node(node))
        self.mon.node_connected(node, False)

    def _cb_disconnected(self, node):
        self.w.emit(2, *self.enc_node(node))
        self.mon.node_disconnected(node)

    def _cb_ro_connected(self, node):
        self.w.emit(3, *self.enc_node(node))
        self.mon.node_connected(node, True)

    def _cb_ro_disconnected(self, node):
        self.w.emit(4, *self.enc_node(node))
        self.mon.node_disconnected(node)

    def _cb_message(self, node, message):
        c = self.w.current_conn
        self.w.emit(5, c.cid if c is not None else -1, *(self.enc_node(node) + self.enc_spec(message)))
        self.mon.delivered(node, message)

    def _make_util(self, cmd):
        def cb(args, callback):
            w = self.w
            c = w.current_conn
            w.emit(9, c.cid if c is not None else -1, cmd)
            if w.util_raise:
                w.util_raise = False
                raise Exception('boom')
            w.pending_util.setdefault(c.cid, []).append(callback)
        return cb

    # ---- registry snapshot --------------------------------------------------------------
    def _bind_of(self, conn):
        cb = conn._onMsg
        f = getattr(cb, 'func', None)
        name = getattr(f, '__name__', None)
        if name == '_onMessageReceived':
            return self.enc_node(cb.args[0])
        if name == '_onIncomingMessageReceived' and cb.args[0] is conn:
            return [2, 0]
        return [7, 7]

    def registry(self, t):
        w = self.w
        nodes = sorted(w.rank.get(n.address, -1) for n in t._nodes)
        table = sorted(w.rank.get(a, -1) for a in t._nodeAddrToNode)
        consistent = (nodes == table and all(t._nodeAddrToNode[a].address == a for a in t._nodeAddrToNode)
                      and not t._preventConnectNodes and t._selfIsReadonlyNode == (self.self_addr is None))
        if not consistent:
            nodes = [-9] + nodes
        conn_ids = {id(c): c.cid for c in w.conns}
        connections = sorted(self.enc_node(n) + [conn_ids.get(id(c), -1)] for n, c in t._connections.items())
        unknown = sorted(conn_ids.get(id(c), -1) for c in t._unknownConnections)
        ro = sorted(int(n.id) for n in t._readonlyNodes)
        last = sorted([w.rank.get(n.address, -1), int(round(v * TICKS))] for n, v in t._lastConnectAttempt.items())
        conns = []
        for c in w.conns:
            conns += [c.state, 1 if c._onConn is not None else 0] + self._bind_of(c)
        return [[100] + nodes,
                [101] + [x for e in connections for x in e],
                [102] + unknown,
                [103] + ro,
                [104, getattr(t, '_readonlyNodesCounter', -1)],
                [105] + [x for e in last for x in e],
                [106] + conns,
                [107, len(w.conns)]]

    def _observe(self, t, sort_outs):
        outs = [list(o) for o in self.w.log]
        if sort_outs:
            outs.sort()
        reg = self.registry(t)
        self.full.append(outs + reg)
        self.outs.append(outs)
        self.obs.append(reg_hash(outs + reg))
        self.w.log = []

    # ---- message objects ----------------------------------------------------------------
    def make_msg(self, spec, rng):
        kind, k = spec
        w = self.w
        if kind == 0:
            obj = w.pool[k]
        elif kind == 1:
            obj = 'readonly'
        elif kind == 2:
            obj = [CMDS[k]] + rng.choice([[], ['x'], ['10.0.0.9:1', 2]])
        elif kind == 3:
            obj = []
        elif kind == 4:
            obj = rng.choice([lambda: {'type': 'append_entries', 'k': k}, lambda: {k}, lambda: bytearray(b'ab'),
                              lambda: [['status'], k], lambda: [{}], lambda: {}])()
        else:
            obj = rng.choice([lambda: ('m', k), lambda: 'junk%d' % k, lambda: k + 100000, lambda: None,
                              lambda: b'readonly', lambda: 2.5 + k, lambda: ('readonly',), lambda: 'READONLY',
                              lambda: 'zz:%d' % k, lambda: frozenset([k]), lambda: ''])()
        w.specs[id(obj)] = (kind, k)
        w.keep.append(obj)
        return obj

    # ---- one event ----------------------------------------------------------------------
    def apply(self, ev, rng):
        """ev = (now_ticks, refuse_ranks, act).  Returns nothing; appends the observation."""
        now, refuse, act = ev
        w = self.w
        t = self.t
        w.clock.ticks = now
        w.refuse = set(refuse)
        # half of the refusals are DNS failures (host None), the rest are socket errors
        w.dns_fail = set(w.pool[r].rsplit(':', 1)[0] for r in refuse if rng.random() < 0.3)
        w.dns_fail -= set(w.pool[r].rsplit(':', 1)[0] for r in range(len(w.pool)) if r not in w.refuse)
        w.log = []
        w.current_conn = None
        w.send_fault = False
        w.util_raise = False
        self.mon.states_before = dict((c.cid, c.state) for c in w.conns)
        kind = act[0]
        try:
            if kind == 'tick':
                for cb in self.syncobj.tick_callbacks:
                    cb()
            elif kind == 'outconn':
                c = w.conns[act[1]]
                w.current_conn = c
                c.ev_connected()
            elif kind == 'incoming':
                c = FakeConn(self.syncobj._poller, socket=object())
                w.current_conn = c
                w.server.onNewConnection(c)
            elif kind == 'msg':
                c = w.conns[act[1]]
                w.current_conn = c
                obj = self.make_msg(act[2], rng)
                self.mon.handshake_msg = obj
                w.util_raise = bool(act[3])
                c.ev_message(obj)
            elif kind == 'closed':
                c = w.conns[act[1]]
                w.current_conn = c
                c.ev_closed()
            elif kind == 'add':
                # observation is taken inside ObservedTransport.addNode
                t.addNode(self.ND.TCPNode(w.pool[act[1]]))
                return
            elif kind == 'drop':
                n = act[1]
                node = self.ND.TCPNode(w.pool[n[1]]) if n[0] == 0 else self.ND.Node(str(n[1]))
                key = ('M', w.pool[n[1]]) if n[0] == 0 else ('R', str(n[1]))
                self.mon.dropped(key)
                t.dropNode(node)
            elif kind == 'send':
                n = act[1]
                node = self.ND.TCPNode(w.pool[n[1]]) if n[0] == 0 else self.ND.Node(str(n[1]))
                key = ('M', w.pool[n[1]]) if n[0] == 0 else ('R', str(n[1]))
                obj = ('snd', act[2])
                w.send_fault = bool(act[3])
                before = {c.cid: c.state for c in w.conns}
                self.mon.last_send = None
                res = t.send(node, obj)
                fault_used = bool(act[3]) and not w.send_fault
                w.send_fault = False
                w.emit(10, 1 if res else 0)
                self.mon.check_send(key, obj, fault_used, bool(res), before)
            elif kind == 'utilreply':
                c = w.conns[act[1]]
                w.current_conn = c
                pend = w.pending_util.get(c.cid)
                if pend:
                    cb = pend.pop(0)
                    flavour = rng.randrange(3)
                    if flavour == 0:
                        cb(('res', 1), None)
                    elif flavour == 1:
                        cb(None, self.CF.FAIL_REASON.SUCCESS)
                    else:
                        cb(None, self.CF.FAIL_REASON.REQUEST_DENIED)
                else:
                    # no continuation outstanding: exercise _utilityCallback directly
                    t._utilityCallback(('res', 2), None, conn=c, args=['STATUS'])
            else:
                raise ValueError(kind)
        except Exception as e:
            code = {TypeError: 1, IndexError: 2, AssertionError: 3}.get(type(e), 9)
            w.emit(11, code)
            self.raised.append((len(self.obs), repr(e)))
        w.current_conn = None
        self._observe(t, sort_outs=(kind == 'tick'))


# ---------------------------------------------------------------------------------------------
# case generation: random fault sequences, decided on-line from the fake world's state
# ---------------------------------------------------------------------------------------------
def gen_and_run(seed, TR, ND, CF, n_events=None):
    """Generates one case and runs it on the implementation.  Returns a dict with the model inputs
    (self rank, retry, utils, events), the expected observations, the monitor's records and
    statistics."""
    rng = random.Random(seed)
    pool = list(rng.choice(ADDRESS_POOLS))
    world = World(pool)
    install(world, TR, ND)
    try:
        return _gen_and_run(rng, seed, world, TR, ND, CF, n_events)
    finally:
        uninstall(TR, ND)


def _gen_and_run(rng, seed, world, TR, ND, CF, n_events):
    pool = world.pool
    n_pool = len(pool)
    readonly_self = rng.random() < 0.15
    self_rank = None if readonly_self else rng.randrange(n_pool)
    retry = rng.choice([0, 512, 1024, 5120, 5120])
    utils = sorted(rng.sample(range(4), rng.randrange(0, 5)))
    others = [r for r in range(n_pool) if r != self_rank]
    initial = rng.sample(others, rng.randrange(0, min(4, len(others)) + 1))
    unguarded = rng.random() < 0.08          # the application also calls addNode/dropNode SyncObj would not
    spoofing = rng.random() < 0.15           # peers we dial may also dial us (misbehaving / both sides reconnect)
    impl = Impl(TR, ND, CF, world, None if readonly_self else pool[self_rank], retry, utils,
                [pool[r] for r in initial])
    now = world.clock.ticks
    events = [(now, [], ('add', r)) for r in initial]
    tags = ['add'] * len(initial)
    members = list(initial)
    n = n_events if n_events is not None else rng.randrange(5, 60)
    next_mid = 1
    stats = {}

    def bump(k):
        stats[k] = stats.get(k, 0) + 1

    plan = []          # scripted continuation of a fault scenario: list of (dt | None, fn() -> (act, tag, refuse|None) | None)

    def newest_unknown():
        u = [c for c in world.conns if c in impl.t._unknownConnections and c.state == CONNECTED]
        return u[-1] if u else None

    def sc_stale_replaced():
        """half-open / stale connection replaced by a new incoming one (optionally followed by dropNode)"""
        cands = [r_ for r_ in members if self_rank is not None and pool[self_rank] < pool[r_]]
        if not cands or self_rank is None:
            return []
        a = rng.choice(cands)
        box = {}

        def hs(first):
            def f():
                c = newest_unknown()
                if c is None or a not in members:
                    return None
                holder = impl.t._connections.get(ND.TCPNode(pool[a]))
                tag = 'handshake_member'
                if holder is not None:
                    tag = 'handshake_replaces_live_connection' if holder.state == CONNECTED else 'handshake_replaces_dead_connection'
                if first:
                    box['old'] = c.cid
                return ('msg', c.cid, (0, a), 0), tag, None
            return f

        def old_msg():
            if 'old' not in box:
                return None
            return ('msg', box['old'], (rng.choice([4, 5]), rng.randrange(5)), 0), 'message_on_superseded_connection', None

        def old_close():
            if 'old' not in box:
                return None
            return ('closed', box['old']), 'superseded_connection_closed', None

        def drop():
            if a not in members:
                return None
            return ('drop', (0, a)), 'drop_node', None

        inc = lambda: (('incoming',), 'incoming_new', None)
        seq = [(None, inc), (None, hs(True)), (rng.choice([None, 3584]), inc), (None, hs(False))]
        tail = rng.choice([[old_msg], [drop, old_msg], [old_close], [drop, old_msg, old_close], [old_msg, drop, old_msg]])
        return seq + [(None, f) for f in tail]

    def sc_refuse_retry():
        """refused connects, then ticks just before / at / after the retry time"""
        def tk(refuse_all):
            def f():
                return ('tick',), ('tick_with_refusals' if refuse_all else 'tick'), (list(range(n_pool)) if refuse_all else [])
            return f
        r_ = max(retry, 1)
        return [(None, tk(True)), (r_ - 1, tk(rng.random() < 0.5)), (1, tk(False)), (r_, tk(False))]

    def sc_blackhole():
        """dial succeeds, nothing ever answers; the object gives up after the timeout; next ticks re-dial"""
        def tk():
            return ('tick',), 'tick', []

        def give_up():
            cs = [c for c in world.conns if c.state == CONNECTING]
            if not cs:
                return None
            return ('closed', rng.choice(cs).cid), 'blackhole_connect_timeout', None
        return [(None, tk), (3584, give_up), (None, tk), (max(retry, 1), tk)]

    def sc_both_sides():
        """a peer we dial also dials us (simultaneous reconnect from both sides / misbehaving peer)"""
        cands = [r_ for r_ in members if self_rank is not None and pool[self_rank] > pool[r_]]
        if not cands:
            return []
        a = rng.choice(cands)
        box = {}

        def tk():
            return ('tick',), 'tick', []

        def hs():
            c = newest_unknown()
            if c is None or a not in members:
                return None
            impl.mon.spoofed.add(('M', pool[a]))
            box['in'] = c.cid
            return ('msg', c.cid, (0, a), 0), 'handshake_both_sides_dial', None

        def out_ok():
            cs = [c for c in world.conns if c.state == CONNECTING]
            if not cs:
                return None
            return ('outconn', rng.choice(cs).cid), 'outgoing_connected', None

        def close_in():
            if 'in' not in box:
                return None
            return ('closed', box['in']), 'reset', None

        def snd():
            return ('send', (0, a), 900 + rng.randrange(50), 0), 'send', None
        inc = lambda: (('incoming',), 'incoming_new', None)
        seq = [(None, tk), (None, inc), (None, hs)]
        seq += [(None, f) for f in rng.choice([[out_ok, snd, close_in, tk, out_ok, snd], [close_in, tk, out_ok, snd], [out_ok, close_in, snd]])]
        return seq

    def sc_readonly_peer():
        box = {}

        def hs():
            c = newest_unknown()
            if c is None:
                return None
            box['c'] = c.cid
            box['k'] = getattr(impl.t, '_readonlyNodesCounter', -1)
            return ('msg', c.cid, (1, 0), 0), 'handshake_readonly', None

        def m():
            if 'c' not in box:
                return None
            return ('msg', box['c'], (4, rng.randrange(5)), 0), 'message', None

        def snd():
            if 'k' not in box:
                return None
            return ('send', (1, box['k']), 800 + rng.randrange(50), 0), 'send', None

        def cl():
            if 'c' not in box:
                return None
            return ('closed', box['c']), 'reset', None
        if self_rank is None:
            return []
        inc = lambda: (('incoming',), 'incoming_new', None)
        return [(None, inc), (None, hs), (None, m), (None, snd), (None, cl), (None, snd)]

    def sc_readonly_rejoin():
        """several read-only nodes on one voter; one that is not the newest leaves, another one joins while the others
        are still connected: every live read-only connection keeps an id of its own"""
        box = {'cs': []}

        def hs():
            c = newest_unknown()
            if c is None:
                return None
            box['cs'].append(c.cid)
            return ('msg', c.cid, (1, 0), 0), 'handshake_readonly', None

        def cl_first():
            if len(box['cs']) < 2:
                return None
            return ('closed', box['cs'][0]), 'reset', None

        def m_last():
            if not box['cs']:
                return None
            return ('msg', box['cs'][-1], (4, rng.randrange(5)), 0), 'message', None

        def m_mid():
            if len(box['cs']) < 3:
                return None
            return ('msg', box['cs'][1], (4, rng.randrange(5)), 0), 'message', None
        if self_rank is None:
            return []
        inc = lambda: (('incoming',), 'incoming_new', None)
        seq = []
        for _ in range(rng.choice([2, 3, 3])):
            seq += [(None, inc), (None, hs)]
        seq += [(None, cl_first), (None, inc), (None, hs), (None, m_last), (None, m_mid)]
        return seq

    def sc_utility():
        box = {}

        def um():
            c = newest_unknown()
            if c is None:
                return None
            box['c'] = c.cid
            cmd = rng.randrange(len(CMDS))
            return ('msg', c.cid, (2, cmd), 1 if rng.random() < 0.3 else 0), ('utility_message' if cmd in utils else 'handshake_unregistered_list'), None

        def rep():
            if 'c' not in box:
                return None
            return ('utilreply', box['c']), 'utility_reply', None
        if self_rank is None:
            return []
        inc = lambda: (('incoming',), 'incoming_new', None)
        return [(None, inc), (None, um), (None, rep)]

    scenarios = [sc_stale_replaced, sc_stale_replaced, sc_refuse_retry, sc_blackhole, sc_both_sides, sc_readonly_peer, sc_readonly_rejoin, sc_utility]

    for _ in range(n):
        forced = None
        if not plan and rng.random() < 0.10:
            sc = rng.choice(scenarios)
            if sc is not sc_both_sides or spoofing:
                plan = list(sc())
        if plan and rng.random() < 0.75:
            dt, fn = plan.pop(0)
            got = fn()
            if got is not None:
                if dt is not None:
                    now += dt
                forced = got
        act = tag = None
        refuse = []
        if forced is None:
            # clock: mostly small steps, sometimes around the retry time, rarely backwards never
            r = rng.random()
            if r < 0.5:
                now += rng.choice([0, 1, 10, 51])
            elif r < 0.8:
                now += rng.choice([retry // 2, retry - 1, retry, retry + 1, 512]) if retry else rng.choice([0, 1, 100])
                now = max(now, events[-1][0] if events else now)
            else:
                now += rng.choice([3584, 5120, 10240])
            conns = world.conns
            t = impl.t
            live = [c for c in conns if c.state != DISCONNECTED]
            connecting = [c for c in conns if c.state == CONNECTING]
            connected = [c for c in conns if c.state == CONNECTED]
            unknown = [c for c in conns if c in t._unknownConnections]
            bound_in = [c for c in connected if c.incoming and c not in t._unknownConnections]
            refuse = [a for a in range(n_pool) if rng.random() < 0.25] if rng.random() < 0.4 else []
            dialled_by_us = [r_ for r_ in members if self_rank is None or pool[self_rank] > pool[r_]]
            dialling_us = [r_ for r_ in members if self_rank is not None and pool[self_rank] < pool[r_]]
            choice = rng.random()
            act = None
            tag = None
            if choice < 0.16:
                act, tag = ('tick',), 'tick'
            elif choice < 0.26 and connecting:
                c = rng.choice(connecting)
                act, tag = ('outconn', c.cid), 'outgoing_connected'
            elif choice < 0.31 and connecting:
                c = rng.choice(connecting)
                act, tag = ('closed', c.cid), rng.choice(['refused_async', 'blackhole_connect_timeout'])
            elif choice < 0.41 and self_rank is not None:
                act, tag = ('incoming',), 'incoming_new'
            elif choice < 0.56 and unknown:
                c = rng.choice(unknown)
                r2 = rng.random()
                if r2 < 0.45 and dialling_us:
                    a = rng.choice(dialling_us)
                    holder = t._connections.get(ND.TCPNode(pool[a]))
                    if holder is not None and holder.state == CONNECTED:
                        tag = 'handshake_replaces_live_connection'      # half-open / stale connection replaced
                    elif holder is not None:
                        tag = 'handshake_replaces_dead_connection'
                    else:
                        tag = 'handshake_member'
                    act = ('msg', c.cid, (0, a), 0)
                elif r2 < 0.55 and spoofing and dialled_by_us:
                    a = rng.choice(dialled_by_us)
                    act, tag = ('msg', c.cid, (0, a), 0), 'handshake_both_sides_dial'
                    impl.mon.spoofed.add(('M', pool[a]))
                elif r2 < 0.65:
                    act, tag = ('msg', c.cid, (1, 0), 0), 'handshake_readonly'
                elif r2 < 0.75:
                    nm = [a for a in range(n_pool) if a not in members]
                    if nm:
                        act, tag = ('msg', c.cid, (0, rng.choice(nm)), 0), 'handshake_non_member_address'
                    else:
                        act, tag = ('msg', c.cid, (5, rng.randrange(5)), 0), 'handshake_garbage'
                elif r2 < 0.83:
                    act, tag = ('msg', c.cid, (5, rng.randrange(5)), 0), 'handshake_garbage'
                elif r2 < 0.93:
                    cmd = rng.randrange(len(CMDS))
                    ur = 1 if rng.random() < 0.3 else 0
                    act = ('msg', c.cid, (2, cmd), ur)
                    tag = 'utility_message' if cmd in utils else 'handshake_unregistered_list'
                elif r2 < 0.96:
                    act, tag = ('msg', c.cid, (3, 0), 0), 'handshake_empty_list'
                else:
                    act, tag = ('msg', c.cid, (4, rng.randrange(5)), 0), 'handshake_unhashable'
            elif choice < 0.70 and connected:
                stale = [c for c in connected if c.cid in impl.mon.superseded]
                c = rng.choice(stale) if stale and rng.random() < 0.4 else rng.choice(connected)
                kind = rng.choice([5, 5, 5, 4, 4, 0, 1, 2, 3])
                k = rng.randrange(n_pool) if kind == 0 else (rng.randrange(len(CMDS)) if kind == 2 else rng.randrange(5))
                if kind in (1, 3):
                    k = 0
                if c in unknown and kind not in (5,):
                    kind, k = 5, rng.randrange(5)
                act = ('msg', c.cid, (kind, k), 0)
                tag = 'message_on_superseded_connection' if c.cid in impl.mon.superseded else 'message'
            elif choice < 0.80 and live:
                stale = [c for c in connected if c.cid in impl.mon.superseded]
                c = rng.choice(stale) if stale and rng.random() < 0.3 else rng.choice(live)
                act = ('closed', c.cid)
                tag = rng.choice(['reset', 'silent_until_timeout']) if c.state == CONNECTED else 'refused_async'
            elif choice < 0.85:
                cands = [r_ for r_ in range(n_pool) if r_ != self_rank and r_ not in members]
                if unguarded and rng.random() < 0.5:
                    cands = list(range(n_pool))
                if cands:
                    a = rng.choice(cands)
                    act, tag = ('add', a), ('add_node' if a not in members and a != self_rank else 'add_node_unguarded')
            elif choice < 0.89:
                ro_ids = sorted(int(x.id) for x in t._readonlyNodes)
                if unguarded and rng.random() < 0.5:
                    tgt = rng.choice([(0, rng.randrange(n_pool)), (1, rng.randrange(3))])
                    act, tag = ('drop', tgt), 'drop_node_unguarded'
                elif members and (not ro_ids or rng.random() < 0.8):
                    act, tag = ('drop', (0, rng.choice(members))), 'drop_node'
                elif ro_ids and unguarded:
                    act, tag = ('drop', (1, rng.choice(ro_ids))), 'drop_readonly_node'
            elif choice < 0.97:
                ro_keys = [(1, int(x.id)) for x in t._connections if not isinstance(x, ND.TCPNode)]
                r2 = rng.random()
                if r2 < 0.7 and members:
                    tgt = (0, rng.choice(members))
                elif r2 < 0.85 and ro_keys:
                    tgt = rng.choice(ro_keys)
                else:
                    tgt = rng.choice([(0, rng.randrange(n_pool)), (1, rng.randrange(3))])
                fault = 1 if rng.random() < 0.2 else 0
                act, tag = ('send', tgt, next_mid, fault), ('send_fault' if fault else 'send')
                next_mid += 1
            else:
                cands = [c for c in conns if world.pending_util.get(c.cid)] or ([c for c in conns if c.incoming] if rng.random() < 0.3 else [])
                if cands:
                    act, tag = ('utilreply', rng.choice(cands).cid), 'utility_reply'
        else:
            act, tag, fr = forced
            refuse = fr if fr is not None else []
        if act is None:
            act, tag = ('tick',), 'tick'
        if act[0] in ('incoming', 'outconn', 'add', 'utilreply'):
            refuse = []          # these handlers cannot reach connect(): keep the literals small
        if act[0] == 'tick' and refuse:
            tag = 'tick_with_refusals'
        ev = (now, refuse, act)
        events.append(ev)
        tags.append(tag)
        bump(tag)
        impl.apply(ev, rng)
        if act[0] == 'add' and act[1] not in members:
            members.append(act[1])
        if act[0] == 'drop' and act[1][0] == 0 and act[1][1] in members:
            members.remove(act[1][1])
    mon = impl.mon
    problems = list(mon.problems)
    n_deliv = sum(1 for o in impl.outs for x in o if x[0] == 5)
    n_dials = sum(1 for o in impl.outs for x in o if x[0] == 6)
    n_notif = sum(1 for o in impl.outs for x in o if x[0] in (1, 2, 3, 4))
    return {
        'seed': seed, 'pool': pool, 'self': self_rank, 'retry': retry, 'utils': utils,
        'events': events, 'tags': tags, 'expected': impl.obs, 'outs': impl.outs, 'raised': impl.raised,
        'problems': problems, 'known_quirk': list(mon.known_quirk), 'stats': stats,
        'unguarded': unguarded, 'spoofing': spoofing,
        'n_deliv': n_deliv, 'n_dials': n_dials, 'n_notif': n_notif, 'n_conns': len(world.conns),
    }


def run_script(TR, ND, CF, pool, self_addr, retry, utils, initial, events, seed=0):
    """Runs a fully expanded case (used by witnesses and replays)."""
    world = World(pool)
    install(world, TR, ND)
    try:
        rng = random.Random(seed)
        impl = Impl(TR, ND, CF, world, self_addr, retry, utils, initial)
        for ev in events:
            impl.apply(ev, rng)
        return impl
    finally:
        uninstall(TR, ND)


def script_case(name, TR, ND, CF, pool, self_addr, retry, utils, initial, events, tags=None):
    """A fully expanded case as a dict of the same shape gen_and_run returns."""
    pool_sorted = sorted(pool)
    impl = run_script(TR, ND, CF, pool, self_addr, retry, utils, initial, events)
    rank = {a: i for i, a in enumerate(pool_sorted)}
    t0 = events[0][0] if events else 0
    all_events = [(t0, [], ('add', rank[a])) for a in initial] + list(events)
    mon = impl.mon
    obs = impl.outs
    return {
        'seed': name, 'pool': pool_sorted, 'self': None if self_addr is None else rank[self_addr], 'retry': retry,
        'utils': list(utils), 'events': all_events, 'tags': (['add'] * len(initial)) + (tags or ['scripted'] * len(events)),
        'expected': impl.obs, 'outs': impl.outs, 'raised': impl.raised, 'problems': list(mon.problems), 'known_quirk': list(mon.known_quirk),
        'stats': {}, 'unguarded': False, 'spoofing': False,
        'n_deliv': sum(1 for o in obs for x in o if x[0] == 5),
        'n_dials': sum(1 for o in obs for x in o if x[0] == 6),
        'n_notif': sum(1 for o in obs for x in o if x[0] in (1, 2, 3, 4)),
        'n_conns': len(impl.w.conns),
    }


T0 = 1000
SCRIPTS = {
    # FX-C14-1: b dials us twice (the first connection went stale), then b is dropped; messages on either
    # old connection must not be delivered (before the repair the superseded one kept delivering as from b)
    'superseded_then_drop': dict(
        pool=['a:1', 'b:1', 'c:1'], self_addr='a:1', retry=5120, utils=[], initial=['b:1'],
        events=[(T0, [], ('incoming',)), (T0, [], ('msg', 0, (0, 1), 0)),
                (T0, [], ('incoming',)), (T0, [], ('msg', 1, (0, 1), 0)),
                (T0, [], ('msg', 0, (5, 6), 0)),
                (T0, [], ('drop', (0, 1))), (T0, [], ('msg', 0, (5, 7), 0)), (T0, [], ('msg', 1, (5, 8), 0))]),
    # witness of C14_unknown_rejected_refuted: unhashable / malformed first messages raise instead of disconnecting
    'malformed_first_message': dict(
        pool=['a:1', 'b:1', 'c:1'], self_addr='a:1', retry=5120, utils=[0], initial=['b:1'],
        events=[(T0, [], ('incoming',)), (T0, [], ('msg', 0, (2, 4), 0)), (T0, [], ('msg', 0, (4, 1), 0)),
                (T0, [], ('msg', 0, (3, 0), 0)), (T0, [], ('msg', 0, (0, 1), 0)), (T0, [], ('msg', 0, (5, 9), 0))]),
    # witness of C14_no_delivery_after_drop_unguarded_refuted: an application that adds a node twice
    'double_add_then_drop': dict(
        pool=['a:1', 'b:1', 'c:1'], self_addr='b:1', retry=5120, utils=[], initial=['a:1'],
        events=[(T0, [], ('tick',)), (T0, [], ('outconn', 0)), (T0 + 1, [], ('add', 0)),
                (T0 + 2, [], ('drop', (0, 0))), (T0 + 3, [], ('msg', 0, (5, 7), 0))]),
    # a peer we dial also dials us: our outgoing object is superseded (and now disconnected); the re-dial then uses
    # the incoming object, which has no onConnected callback
    'both_sides_dial': dict(
        pool=['a:1', 'b:1', 'c:1'], self_addr='c:1', retry=5120, utils=[], initial=['b:1'],
        events=[(T0, [], ('tick',)), (T0, [], ('outconn', 0)), (T0, [], ('incoming',)), (T0, [], ('msg', 1, (0, 1), 0)),
                (T0, [], ('msg', 0, (5, 1), 0)), (T0 + 1, [], ('closed', 1)), (T0 + 6000, [], ('tick',)),
                (T0 + 6000, [], ('outconn', 1)), (T0 + 6001, [], ('send', (0, 1), 5, 0))]),
}


def run_named_script(name, TR, ND, CF):
    sc = SCRIPTS[name]
    return script_case(name, TR, ND, CF, sc['pool'], sc['self_addr'], sc['retry'], sc['utils'], sc['initial'], sc['events'])


# ---------------------------------------------------------------------------------------------
# rendering as Gallina
# ---------------------------------------------------------------------------------------------
def v_z(x):
    return '(%d)' % x if x < 0 else '%d' % x


def v_zlist(xs):
    return '[' + ';'.join(v_z(x) for x in xs) + ']'


def v_node(n):
    return '(Member %s)' % v_z(n[1]) if n[0] == 0 else '(RO %d%%N)' % n[1]


def v_msg(spec):
    kind, k = spec
    return {0: '(MAddr %s)' % v_z(k), 1: 'MReadonly', 2: '(MList %d%%N)' % k, 3: 'MEmptyList',
            4: '(MUnhashable %d%%N)' % k, 5: '(MOther %d%%N)' % k}[kind]


def v_bool(b):
    return 'true' if b else 'false'


def v_act(a):
    k = a[0]
    if k == 'tick':
        return 'Tick'
    if k == 'outconn':
        return '(OutConnected %d%%N)' % a[1]
    if k == 'incoming':
        return 'IncomingNew'
    if k == 'msg':
        return '(Message %d%%N %s %s)' % (a[1], v_msg(a[2]), v_bool(a[3]))
    if k == 'closed':
        return '(Closed %d%%N)' % a[1]
    if k == 'add':
        return '(AddNode %s)' % v_z(a[1])
    if k == 'drop':
        return '(DropNode %s)' % v_node(a[1])
    if k == 'send':
        return '(Send %s %d%%N %s)' % (v_node(a[1]), a[2], v_bool(a[3]))
    if k == 'utilreply':
        return '(UtilReply %d%%N)' % a[1]
    raise ValueError(k)


def v_event(ev):
    return '(mkEv %s %s %s)' % (v_z(ev[0]), v_zlist(ev[1]), v_act(ev[2]))


def v_case(name, case):
    evs = '[' + ';\n  '.join(v_event(e) for e in case['events']) + ']'
    exp = v_zlist(case['expected'])
    self_v = 'None' if case['self'] is None else '(Some %s)' % v_z(case['self'])
    utils_v = '[' + ';'.join('%d%%N' % u for u in case['utils']) + ']'
    defs = ('Definition ev_%s : list event := %s.\n'
            'Definition ex_%s : list Z := %s.\n' % (name, evs, name, exp))
    call = '(check_case %s %s %s ev_%s ex_%s)' % (self_v, v_z(case['retry']), utils_v, name, name)
    return defs, call
