"""Correspondence harness for pysyncobj/poller.py (model: coq/Poller/Model.v).

The real SelectPoller / PollPoller run against a fake `select` module (the kernel is an oracle: four readiness bits
per descriptor - readable 1, writable 2, error 4, hang-up 8).  Callbacks are scripted: when called they record the
dispatch and then subscribe / unsubscribe descriptors, as TcpConnection.connect() / disconnect() do from inside a
handler.  A case is a list of events (operations from outside a round, poll rounds); its observation - the dispatches
of every event, whether an exception left poll(), the final tables - is compared with the model's."""
import os
import random
import sys

REPO = (os.environ.get('VERIF_REPO') or '/repo')


def load_impl():
    if REPO not in sys.path:
        sys.path.insert(0, REPO)
    import importlib
    import pysyncobj.poller as P
    importlib.reload(P)
    return P


class FakePoll(object):
    def __init__(self, fs):
        self.fs = fs
        self.reg = {}

    def register(self, fd, mask):
        self.reg[fd] = mask

    def unregister(self, fd):
        del self.reg[fd]

    def poll(self, timeout):
        out = []
        S = self.fs
        for fd, m in self.reg.items():
            r = S.ready.get(fd, 0)
            e = 0
            if m & S.POLLIN and r & 1:
                e |= S.POLLIN
            if m & S.POLLOUT and r & 2:
                e |= S.POLLOUT
            if r & 4:
                e |= S.POLLERR
            if r & 8:
                e |= S.POLLHUP
            if e:
                out.append((fd, e))
        return out


class FakeSelect(object):
    POLLIN, POLLPRI, POLLOUT, POLLERR, POLLHUP = 1, 2, 4, 8, 16

    def __init__(self):
        self.ready = {}
        self.last_order = []
        self.polls = []

    def select(self, r, w, x, timeout=None):
        rd = self.ready
        rl = [f for f in r if rd.get(f, 0) & (1 | 8)]
        wl = [f for f in w if rd.get(f, 0) & 2]
        xl = [f for f in x if rd.get(f, 0) & 4]
        self.last_order = list(set(rl + wl + xl))      # the expression poller.py iterates over
        return rl, wl, xl

    def poll(self):
        p = FakePoll(self)
        self.polls.append(p)
        return p


def gen_case(seed):
    rng = random.Random(seed)
    kind = 'select' if rng.random() < 0.5 else 'poll'
    fds = rng.sample(range(3, 12), rng.randrange(2, 6))
    ncb = rng.randrange(1, 5)

    def rop(nested):
        if rng.random() < (0.45 if nested else 0.7):
            return ('sub', rng.choice(fds), rng.randrange(1, ncb + 1), rng.choice([1, 3, 5, 7, 7, 7, 5, 0, 2, 15]))
        return ('unsub', rng.choice(fds))
    scripts = {}
    for c in range(1, ncb + 1):
        scripts[c] = [rop(True) for _ in range(rng.choice([0, 0, 1, 1, 2, 3]))]
    events = []
    for f in fds:
        if rng.random() < 0.8:
            events.append(('op', ('sub', f, rng.randrange(1, ncb + 1), rng.choice([5, 7, 5, 7, 1]))))
    for _ in range(rng.randrange(3, 12)):
        if rng.random() < 0.6:
            rd = dict((f, rng.choice([0, 1, 1, 2, 3, 4, 8, 9, 5, 15])) for f in fds if rng.random() < 0.8)
            events.append(('poll', rd))
        else:
            events.append(('op', rop(False)))
    return {'seed': seed, 'kind': kind, 'scripts': scripts, 'events': events}


def run_impl(P, case):
    """-> observation (per event: (dispatches, exception?), final interest, final callback table) and the select orders"""
    fake = FakeSelect()
    old = P.select
    P.select = fake
    try:
        p = P.SelectPoller() if case['kind'] == 'select' else P.PollPoller()
        log = []
        cbs = {}

        def cb_of(c):
            if c not in cbs:
                def cb(descr, event, c=c):
                    log.append((c, descr, event))
                    for o in case['scripts'].get(c, []):
                        apply(o)
                cb.cbid = c
                cbs[c] = cb
            return cbs[c]

        def apply(o):
            if o[0] == 'sub':
                p.subscribe(o[1], cb_of(o[2]), o[3])
            else:
                p.unsubscribe(o[1])
        outs = []
        orders = []
        escaped = None
        for ev in case['events']:
            del log[:]
            if ev[0] == 'op':
                apply(ev[1])
                outs.append(([], False))
                orders.append(None)
                continue
            fake.ready = dict(ev[1])
            fake.last_order = []
            try:
                p.poll(0.0)
                exc = False
            except Exception as e:
                exc = True
                escaped = repr(e)
            orders.append(list(fake.last_order))
            outs.append((list(log), exc))
            if exc:
                break
        if case['kind'] == 'select':
            R = getattr(p, '_SelectPoller__descrsRead')
            W = getattr(p, '_SelectPoller__descrsWrite')
            E = getattr(p, '_SelectPoller__descrsError')
            interest = sorted((f, (1 if f in R else 0) | (2 if f in W else 0) | (4 if f in E else 0)) for f in R | W | E)
            table = getattr(p, '_SelectPoller__descrToCallbacks')
        else:
            S = fake
            interest = [(f, (1 if m & S.POLLIN else 0) | (2 if m & S.POLLOUT else 0) | (4 if m & S.POLLERR else 0))
                        for f, m in fake.polls[0].reg.items()]
            table = getattr(p, '_PollPoller__descrToCallbacks')
        table = sorted((f, c.cbid) for f, c in table.items())
        return {'outs': outs, 'interest': interest, 'table': table, 'orders': orders, 'escaped': escaped}
    finally:
        P.select = old


def v_op(o):
    if o[0] == 'sub':
        return '(Sub %d %d %d)' % (o[1], o[2], o[3])
    return '(Unsub %d)' % o[1]


def v_case(case, obs):
    scripts = '; '.join('(%d, [%s])' % (c, '; '.join(v_op(o) for o in s)) for c, s in sorted(case['scripts'].items()))
    evs = []
    for ev, order in zip(case['events'], obs['orders']):
        if ev[0] == 'op':
            evs.append('EOp %s' % v_op(ev[1]))
        else:
            evs.append('EPoll [%s] [%s]' % ('; '.join('(%d, %d)' % kv for kv in sorted(ev[1].items())),
                                            '; '.join(str(f) for f in (order or []))))
    return '(observe %s New [%s] [%s])' % ('KSelect' if case['kind'] == 'select' else 'KPoll', scripts, '; '.join(evs))


def canon_model(kind, v):
    outs, interest, table = v
    outs = [([tuple(d) for d in ds], bool(e)) for ds, e in outs]
    interest = [tuple(x) for x in interest]
    if kind == 'select':
        interest = sorted(interest)
    return outs, interest, sorted(tuple(x) for x in table)


def canon_impl(obs):
    return ([([tuple(d) for d in ds], e) for ds, e in obs['outs']], [tuple(x) for x in obs['interest']], obs['table'])


def problems_of(case, obs):
    """monitor: nothing escapes poll(); a callback runs only for a descriptor it is the registered callback of"""
    out = []
    if obs['escaped']:
        out.append('%s poller: %s escaped poll() (case %d)' % (case['kind'], obs['escaped'], case['seed']))
    return out
