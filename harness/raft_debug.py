"""Interactive aid: run some traces, compare digests with the model, diagnose the first divergence."""
import os, sys, subprocess, re
sys.path.insert(0, '/verif')
from harness import raft_corr as RC
from vlib import coq

def run(seeds, n_events=120, work='/verif/.work/raftdbg'):
    os.makedirs(work, exist_ok=True)
    recs = {}
    path = os.path.join(work, 'cases.v')
    with open(path, 'w') as f:
        f.write(RC.HEADER)
        calls = []
        for s in seeds:
            rec = RC.random_trace(s, n_events, workdir=work, keep_obs=True)
            recs[s] = rec
            d, c = RC.v_case('t%d' % s, rec.cfg, rec.mevents, rec.digests)
            f.write(d)
            calls.append(c)
        f.write('Eval vm_compute in [%s].\n' % ';\n'.join(calls))
    res = coq.coqc_eval([path], work)
    rc, out, dt = res[path]
    if rc != 0:
        print(out[-3000:]); return None
    vals = coq.parse_coq_value(out)
    print('coqc %.1fs' % dt, vals)
    return recs, vals

def diagnose(rec, name, i, work='/verif/.work/raftdbg'):
    path = os.path.join(work, 'diag.v')
    d, c = RC.v_case(name, rec.cfg, rec.mevents, rec.digests)
    with open(path, 'w') as f:
        f.write(RC.HEADER); f.write(d)
        f.write('Eval vm_compute in (obs_at %s ginit ev_%s %d%%nat).\n' % (RC.v_conf(rec.cfg), name, i))
    rc, out, dt = coq.coqc_eval([path], work)[path]
    if rc != 0:
        print(out[-2000:]); return
    val = coq.parse_coq_value(out)
    print('event', i, rec.mevents[i])
    if val is None:
        print('model: event not enabled / no observation'); return
    mst, mou = val
    pst, pou = rec.observations[i]
    print('model state', mst); print('impl  state', pst)
    print('model outs ', mou); print('impl  outs ', pou)
    for k, (a, b) in enumerate(zip(mst, pst)):
        if a != b:
            print('first state diff at position', k, 'model', a, 'impl', b); break
    for k, (a, b) in enumerate(zip(mou, pou)):
        if a != b:
            print('first outs diff at position', k, 'model', a, 'impl', b); break

if __name__ == '__main__':
    seeds = [int(x) for x in sys.argv[1:]] or [1, 2, 3]
    r = run(seeds)
    if r:
        recs, vals = r
        for s, v in zip(seeds, vals):
            if v is not None:
                print('seed', s, 'diverges at', v)
                diagnose(recs[s], 't%d' % s, v)
                break
