"""Development aid: run the scripted scenarios on the implementation and the Coq model.
python raft_scen_batch.py [names...]"""
import os, sys
sys.path.insert(0, '/verif')
from harness import raft_corr as RC, raft_scenarios as RS
from harness.raft_monitor import Monitor
from vlib import coq

WORK = '/verif/.work/scenbatch'

def main(names):
    os.makedirs(WORK, exist_ok=True)
    files, info = [], []
    for i, name in enumerate(names):
        mon = Monitor()
        rec = RS.run(name, workdir=os.path.join(WORK, 'w_' + name), listeners=[mon])
        for p in getattr(rec, 'convergence', []):
            mon.rec('C05', p)
        print(name, 'records', mon.records[:3], 'attributed', [a[0] for a in mon.attributed[:3]], 'model', rec.model_ok)
        if not rec.model_ok:
            continue
        d, c = RC.v_case('s%d' % i, rec.cfg, rec.mevents, rec.digests)
        path = os.path.join(WORK, 'cases_%d.v' % i)
        with open(path, 'w') as f:
            f.write(RC.HEADER + d + 'Eval vm_compute in [%s].\n' % c)
        files.append(path); info.append(name)
    out = coq.coqc_eval(files, WORK, jobs=8)
    for path, name in zip(files, info):
        rc, txt, dt = out[path]
        if rc != 0:
            print('COQC FAILED', name, txt[-600:]); continue
        print(name, 'first diverging step:', coq.parse_coq_value(txt))

if __name__ == '__main__':
    main(sys.argv[1:] or RS.NAMES)
