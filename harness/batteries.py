"""Implementation side of the C15 correspondence.

* regenerate(): run the translator on /repo/pysyncobj/batteries.py -> coq/Batteries/Gen.v (fail closed).
* Impl: a real battery object, replicated methods called with _doApply=True, plain ones directly;
  contents read through the name-mangled attributes.
* Ref: the Python builtin the battery mimics (int, list, dict, set, deque + maxsize, sorted multiset +
  maxsize) driven by the same public operations -- this is the property text, used as the runtime
  monitor (battery vs builtin, no model involved) and as the CPython side of the Spec.v correspondence.
* generators over tiny domains; literals for the Coq cases.
"""
import bisect
import collections
import heapq
import itertools
import json
import os
import random
import sys

REPO = (os.environ.get('VERIF_REPO') or '/repo')
VERIF = os.path.dirname(os.path.dirname(os.path.abspath(__file__)))
if REPO not in sys.path:
    sys.path.insert(0, REPO)
if VERIF not in sys.path:
    sys.path.insert(0, VERIF)

CLASSES = ['ReplCounter', 'ReplList', 'ReplDict', 'ReplSet', 'ReplQueue', 'ReplPriorityQueue']
SRC = os.path.join(REPO, 'pysyncobj', 'batteries.py')
GEN = os.path.join(VERIF, 'coq', 'Batteries', 'Gen.v')
ERRS = ('TypeError', 'IndexError', 'ValueError', 'KeyError', 'AssertionError', 'AttributeError')


# ---- translator ----------------------------------------------------------------------------------
def regenerate():
    """Returns (ok, message, tables).  Gen.v is rewritten only when its text changes; when the
    translator rejects the source a Gen.v that cannot compile is written (fail closed)."""
    from translate import py2v
    from vlib import coq
    try:
        text, tables = py2v.translate_source(open(SRC).read())
    except py2v.Untranslatable as e:
        _reject(coq, py2v, str(e))
        return False, str(e), None
    except SyntaxError as e:
        msg = 'untranslatable construct at batteries.py:%s (syntax error)' % e.lineno
        _reject(coq, py2v, msg)
        return False, msg, None
    coq.write_if_changed(GEN, text)
    return True, 'translated %d classes, %d methods' % (len(tables), sum(len(t['methods']) for t in tables)), tables


def _reject(coq, py2v, msg):
    """Fail closed: a Gen.v that cannot compile, and no stale Gen.vo for anything to load."""
    coq.write_if_changed(GEN, py2v.failed_text(msg))
    for ext in ('.vo', '.vos', '.vok', '.glob'):
        try:
            os.remove(GEN[:-2] + ext)
        except OSError:
            pass


def load_impl():
    import pysyncobj.batteries as B
    return B


def introspect_tables(B):
    """Method tables read off the live classes (used only when the translator rejected the source, so
    that the monitor battery-vs-builtin can still run)."""
    import inspect
    tables = []
    for c in CLASSES:
        k = getattr(B, c)
        obj = k()
        fields = [a for a in vars(obj) if a.startswith('_%s__' % c)]
        meths = []
        for name, f in vars(k).items():
            if name == '__init__' or not callable(f) or name.endswith(('_v0', '_v1', '_v2')):
                continue
            try:
                ps = [p for p in inspect.signature(getattr(f, '__wrapped__', f)).parameters.values()][1:]
            except (TypeError, ValueError):
                continue
            meths.append({'name': name, 'params': [p.name for p in ps],
                          'required': len([p for p in ps if p.default is inspect.Parameter.empty]),
                          'defaults': [p.default for p in ps if p.default is not inspect.Parameter.empty],
                          'replicated': bool(getattr(f, 'replicated', False)), 'ver': getattr(f, 'ver', 0), 'line': 0})
        tables.append({'class': c, 'line': 0, 'fields': fields, 'init': {}, 'methods': meths})
    return tables


# ---- values -----------------------------------------------------------------------------------------
def canon(v):
    """Copy of an observed value in canonical form (views -> lists, containers copied)."""
    if v is None or isinstance(v, (bool, int)):
        return v
    if isinstance(v, list):
        return list(v)
    if isinstance(v, collections.deque):
        return collections.deque(v)
    if isinstance(v, dict):
        return dict(v)
    if isinstance(v, (set, frozenset)):
        return set(v)
    if type(v).__name__ in ('dict_keys', 'dict_values'):
        return list(v)
    if type(v).__name__ == 'dict_items':
        return dict(list(v))
    raise ValueError('value outside the modelled universe: %r' % (v,))


def fresh(v):
    """A fresh copy of an argument (reset() stores its argument by reference)."""
    return canon(v)


def same(a, b):
    """Observational equality: same type and same contents (dicts also in the same insertion order)."""
    if type(a) is not type(b):
        return False
    if isinstance(a, dict):
        return list(a.items()) == list(b.items()) and all(same(x, y) for x, y in zip(a.values(), b.values()))
    if isinstance(a, (list, collections.deque)):
        return len(a) == len(b) and all(same(x, y) for x, y in zip(a, b))
    if isinstance(a, set):
        return len(a) == len(b) and sorted(a, key=repr) == sorted(b, key=repr) and all(type(x) is int for x in a | b)
    return a == b


def is_int(v):
    return type(v) is int


def v_val(v):
    """Python value -> Gallina pyval literal."""
    if v is None:
        return 'VNone'
    if v is True:
        return '(VBool true)'
    if v is False:
        return '(VBool false)'
    if type(v) is int:
        return '(VInt (%d))' % v
    if isinstance(v, list) and all(is_int(x) for x in v):
        return '(VList [%s])' % '; '.join('(%d)' % x for x in v)
    if isinstance(v, collections.deque) and all(is_int(x) for x in v):
        return '(VDeque [%s])' % '; '.join('(%d)' % x for x in v)
    if isinstance(v, dict) and all(is_int(k) and is_int(x) for k, x in v.items()):
        return '(VDict [%s])' % '; '.join('((%d), (%d))' % (k, x) for k, x in v.items())
    if isinstance(v, (set, frozenset)) and all(is_int(x) for x in v):
        return '(VSet [%s])' % '; '.join('(%d)' % x for x in sorted(v))
    raise ValueError('value outside the modelled universe: %r' % (v,))


def v_obs(o):
    if o[0] == 'ok':
        return '(ORes %s)' % v_val(o[1])
    if o[1] not in ERRS:
        raise ValueError('exception kind outside the model: %r' % (o[1],))
    return '(OErr %s)' % o[1]


def enc(v):
    """JSON encoding of a value (replay files)."""
    if v is None or isinstance(v, (bool, int)):
        return v
    if isinstance(v, list):
        return {'t': 'list', 'v': list(v)}
    if isinstance(v, collections.deque):
        return {'t': 'deque', 'v': list(v)}
    if isinstance(v, dict):
        return {'t': 'dict', 'v': [[k, x] for k, x in v.items()]}
    if isinstance(v, (set, frozenset)):
        return {'t': 'set', 'v': sorted(v)}
    return {'t': 'repr', 'v': repr(v)}


def dec(j):
    if isinstance(j, dict):
        t = j['t']
        if t == 'list':
            return list(j['v'])
        if t == 'deque':
            return collections.deque(j['v'])
        if t == 'dict':
            return dict((k, x) for k, x in j['v'])
        if t == 'set':
            return set(j['v'])
        raise ValueError(j)
    return j


def outcome(f):
    """Run f(); -> ('ok', canonical result) | ('err', exception class name)."""
    try:
        r = f()
    except Exception as e:      # noqa - the property is about which exception escapes
        return ('err', type(e).__name__)
    return ('ok', canon(r))


# ---- the implementation ---------------------------------------------------------------------------------
class Impl(object):
    def __init__(self, B, table, init_args):
        self.table = table
        self.meths = dict((m['name'], m) for m in table['methods'])
        self.obj = getattr(B, table['class'])(*[fresh(a) for a in init_args])

    def fields(self):
        return [canon(getattr(self.obj, f)) for f in self.table['fields']]

    def step(self, name, args):
        m = self.meths[name]
        f = getattr(self.obj, name)
        a = [fresh(x) for x in args]
        if m['replicated']:
            return outcome(lambda: f(*a, _doApply=True))
        return outcome(lambda: f(*a))


# ---- the builtins the batteries mimic (= the property, = CPython side of Spec.v) -------------------------
class ArityError(TypeError):
    pass


def _arity(args, lo, hi=None):
    hi = lo if hi is None else hi
    if not (lo <= len(args) <= hi):
        raise ArityError('wrong number of arguments')


class RefCounter(object):
    """int"""
    def __init__(self):
        self.v = int()

    def fields(self):
        return [self.v]

    def step(self, name, args, orc=None):
        if name == 'set':
            _arity(args, 1)
            self.v = args[0]
            return self.v
        if name == 'add':
            _arity(args, 1)
            self.v = self.v + args[0]
            return self.v
        if name == 'sub':
            _arity(args, 1)
            self.v = self.v - args[0]
            return self.v
        if name == 'inc':
            _arity(args, 0)
            self.v = self.v + 1
            return self.v
        if name == 'get':
            _arity(args, 0)
            return self.v
        raise AttributeError(name)


class RefList(object):
    """list"""
    def __init__(self):
        self.l = []

    def fields(self):
        return [list(self.l)]

    def step(self, name, args, orc=None):
        l = self.l
        if name == 'reset':
            _arity(args, 1)
            assert isinstance(args[0], list)
            self.l = args[0]
            return None
        if name in ('set', '__setitem__'):
            _arity(args, 2)
            l[args[0]] = args[1]
            return None
        if name == 'append':
            _arity(args, 1)
            return l.append(args[0])
        if name == 'extend':
            _arity(args, 1)
            return l.extend(args[0])
        if name == 'insert':
            _arity(args, 2)
            return l.insert(args[0], args[1])
        if name == 'remove':
            _arity(args, 1)
            return l.remove(args[0])
        if name == 'pop':
            _arity(args, 0, 1)
            if not args or args[0] is None:      # position=None is "no position"
                return l.pop()
            return l.pop(args[0])
        if name == 'sort':
            _arity(args, 0, 1)
            return l.sort(reverse=args[0]) if args else l.sort()
        if name == 'index':
            _arity(args, 1)
            return l.index(args[0])
        if name == 'count':
            _arity(args, 1)
            return l.count(args[0])
        if name in ('get', '__getitem__'):
            _arity(args, 1)
            return l[args[0]]
        if name == '__len__':
            _arity(args, 0)
            return len(l)
        if name == 'rawData':
            _arity(args, 0)
            return l
        raise AttributeError(name)


class RefDict(object):
    """dict"""
    def __init__(self):
        self.d = {}

    def fields(self):
        return [dict(self.d)]

    def step(self, name, args, orc=None):
        d = self.d
        if name == 'reset':
            _arity(args, 1)
            assert isinstance(args[0], dict)
            self.d = args[0]
            return None
        if name in ('set', '__setitem__'):
            _arity(args, 2)
            d[args[0]] = args[1]
            return None
        if name == 'setdefault':
            _arity(args, 2)
            return d.setdefault(args[0], args[1])
        if name == 'update':
            _arity(args, 1)
            return d.update(args[0])
        if name == 'pop':
            _arity(args, 1, 2)
            # documented: "return default if key not exist", default=None
            return d.pop(args[0], args[1] if len(args) == 2 else None)
        if name == 'clear':
            _arity(args, 0)
            return d.clear()
        if name == '__getitem__':
            _arity(args, 1)
            return d[args[0]]
        if name == 'get':
            _arity(args, 1, 2)
            return d.get(*args)
        if name == '__len__':
            _arity(args, 0)
            return len(d)
        if name == '__contains__':
            _arity(args, 1)
            return args[0] in d
        if name == 'keys':
            _arity(args, 0)
            return d.keys()
        if name == 'values':
            _arity(args, 0)
            return d.values()
        if name == 'items':
            _arity(args, 0)
            return d.items()
        if name == 'rawData':
            _arity(args, 0)
            return d
        raise AttributeError(name)


class RefSet(object):
    """set; pop() removes the element the battery removed when that is a member (set.pop is free to
    choose), otherwise its own choice (and the monitor then reports the difference)."""
    def __init__(self):
        self.s = set()

    def fields(self):
        return [set(self.s)]

    def step(self, name, args, orc=None):
        s = self.s
        if name == 'reset':
            _arity(args, 1)
            assert isinstance(args[0], set)
            self.s = args[0]
            return None
        if name == 'add':
            _arity(args, 1)
            return s.add(args[0])
        if name == 'remove':
            _arity(args, 1)
            return s.remove(args[0])
        if name == 'discard':
            _arity(args, 1)
            return s.discard(args[0])
        if name == 'pop':
            _arity(args, 0)
            if orc is not None and type(orc) is int and orc in s:
                s.remove(orc)
                return orc
            return s.pop()
        if name == 'clear':
            _arity(args, 0)
            return s.clear()
        if name == 'update':
            _arity(args, 1)
            return s.update(args[0])
        if name == 'rawData':
            _arity(args, 0)
            return s
        if name == '__len__':
            _arity(args, 0)
            return len(s)
        if name == '__contains__':
            _arity(args, 1)
            return args[0] in s
        raise AttributeError(name)


class RefQueue(object):
    """FIFO deque bounded by maxsize; maxsize 0 = unbounded; put -> False when full; get(default) ->
    default when empty."""
    def __init__(self, maxsize=0):
        self.maxsize = maxsize
        self.q = collections.deque()

    def fields(self):
        return [self.maxsize, collections.deque(self.q)]

    def _full(self):
        return self.maxsize > 0 and len(self.q) >= self.maxsize

    def _put(self, x):
        self.q.append(x)

    def _get(self):
        return self.q.popleft()

    def step(self, name, args, orc=None):
        if name in ('qsize', '__len__'):
            _arity(args, 0)
            return len(self.q)
        if name == 'empty':
            _arity(args, 0)
            return len(self.q) == 0
        if name == 'full':
            _arity(args, 0)
            return self._full()
        if name == 'put':
            _arity(args, 1)
            if self._full():
                return False
            self._put(args[0])
            return True
        if name == 'get':
            _arity(args, 0, 1)
            if len(self.q) == 0:
                return args[0] if args else None
            return self._get()
        raise AttributeError(name)


class RefPriorityQueue(RefQueue):
    """bounded multiset: a sorted list; get removes the minimum.  Contents are observed sorted."""
    def __init__(self, maxsize=0):
        self.maxsize = maxsize
        self.q = []

    def fields(self):
        return [self.maxsize, list(self.q)]

    def _put(self, x):
        bisect.insort_left(self.q, x)

    def _get(self):
        return self.q.pop(0)


REFS = {'ReplCounter': RefCounter, 'ReplList': RefList, 'ReplDict': RefDict, 'ReplSet': RefSet,
        'ReplQueue': RefQueue, 'ReplPriorityQueue': RefPriorityQueue}


def ref_outcome(ref, name, args, orc=None):
    def f():
        try:
            return ref.step(name, [fresh(a) for a in args], orc)
        except ArityError:
            raise TypeError('arity')
    return outcome(f)


# ---- generators over tiny domains --------------------------------------------------------------------------
def g_elem(rng):
    return rng.randrange(4)


def g_intlist(rng, n=4):
    return [g_elem(rng) for _ in range(rng.randrange(n))]


def g_pos(rng):
    r = rng.random()
    if r < 0.8:
        return rng.randint(-3, 3)
    if r < 0.9:
        return rng.choice([-7, 7, 4, -4])
    return rng.choice([None, True, False, [0]])


def g_lookup(rng, kind):
    """argument of an operation that only LOOKS an element up"""
    r = rng.random()
    if r < 0.85:
        return g_elem(rng)
    if r < 0.93:
        return None
    if kind == 'set':
        return rng.choice([{1}, set(), [1], {1: 1}])
    if kind == 'dict':
        return rng.choice([[1], {1}, {1: 1}, collections.deque()])
    return rng.choice([[1], {1}, {}])


def g_any(rng):
    return rng.choice([None, None, 0, 1, 2, 3, -1, True, False, [], [1], {2: 3}, {1}])


def gen_args(rng, cls, name, fallback_params):
    """Arguments for one call (positional; default-argument forms included)."""
    r = rng.random
    if cls == 'ReplCounter':
        if name == 'set':
            return [rng.choice([rng.randint(-3, 3)] * 6 + [None, True, False])]
        if name in ('add', 'sub'):
            return [rng.choice([rng.randint(-3, 3)] * 8 + [None, True, [1], {1}])]
        return []
    if cls == 'ReplList':
        if name == 'reset':
            return [g_intlist(rng, 5) if r() < 0.8 else rng.choice([None, 3, {1: 2}, {1}, collections.deque([1])])]
        if name in ('set', '__setitem__'):
            return [g_pos(rng), g_elem(rng)]
        if name == 'append':
            return [g_elem(rng)]
        if name == 'extend':
            return [g_intlist(rng) if r() < 0.75 else rng.choice([None, 2, True, {1: 2, 0: 3}, collections.deque([3, 1]), set(), {}])]
        if name == 'insert':
            return [g_pos(rng), g_elem(rng)]
        if name in ('remove', 'index', 'count'):
            return [g_lookup(rng, 'list')]
        if name == 'pop':
            return [] if r() < 0.35 else [g_pos(rng) if r() < 0.85 else None]
        if name == 'sort':
            return [] if r() < 0.4 else [rng.choice([True, False, True, False, 0, 1, 2, None, [1]])]
        if name in ('get', '__getitem__'):
            return [g_pos(rng)]
        return []
    if cls == 'ReplDict':
        def key_store():
            return g_elem(rng) if r() < 0.92 else rng.choice([[1], {1}, {}])
        if name == 'reset':
            return [dict((g_elem(rng), g_elem(rng)) for _ in range(rng.randrange(4))) if r() < 0.8
                    else rng.choice([None, 3, [1], {1}])]
        if name in ('set', '__setitem__'):
            return [key_store(), g_elem(rng)]
        if name == 'setdefault':
            return [key_store(), g_elem(rng)]
        if name == 'update':
            return [dict((g_elem(rng), g_elem(rng)) for _ in range(rng.randrange(4))) if r() < 0.75
                    else rng.choice([None, 3, [], [1], {1}, set(), True])]
        if name == 'pop':
            return [g_lookup(rng, 'dict')] if r() < 0.5 else [g_lookup(rng, 'dict'), g_any(rng)]
        if name == 'get':
            return [g_lookup(rng, 'dict')] if r() < 0.5 else [g_lookup(rng, 'dict'), g_any(rng)]
        if name in ('__getitem__', '__contains__'):
            return [g_lookup(rng, 'dict')]
        return []
    if cls == 'ReplSet':
        if name == 'reset':
            return [set(g_intlist(rng, 5)) if r() < 0.8 else rng.choice([None, 3, [1], {1: 1}, collections.deque([1])])]
        if name == 'add':
            return [rng.randrange(10) if r() < 0.92 else rng.choice([[1], {1}, {}])]
        if name in ('remove', 'discard', '__contains__'):
            return [rng.randrange(10) if r() < 0.6 else g_lookup(rng, 'set')]
        if name == 'update':
            return [set(rng.randrange(10) for _ in range(rng.randrange(4))) if r() < 0.5
                    else rng.choice([g_intlist(rng), None, 3, {1: 2, 5: 0}, collections.deque([7, 1]), True])]
        return []
    if cls in ('ReplQueue', 'ReplPriorityQueue'):
        if name == 'put':
            return [rng.randrange(6)]
        if name == 'get':
            return [] if r() < 0.6 else [g_any(rng)]
        return []
    return [g_elem(rng) for _ in fallback_params]


# method weights: mutators more often than getters
def gen_case(rng, table):
    """-> (init_args, [(name, args)])"""
    cls = table['class']
    init_args = []
    if cls in ('ReplQueue', 'ReplPriorityQueue'):
        init_args = [] if rng.random() < 0.3 else [rng.randrange(3)]
    meths = table['methods']
    weights = [3 if m['replicated'] else 1 for m in meths]
    n = rng.choice([3, 6, 10, 16, 24])
    ops = []
    for _ in range(n):
        m = rng.choices(meths, weights)[0]
        args = gen_args(rng, cls, m['name'], m['params'])
        if rng.random() < 0.02:       # wrong number of arguments
            args = args + [0] * (len(m['params']) - len(args) + 1) if rng.random() < 0.5 else args[:max(0, m['required'] - 1)]
            if m['required'] <= len(args) <= len(m['params']):
                args = [0] * (len(m['params']) + 1)
        ops.append((m['name'], args))
    return init_args, ops


# ---- running one case: implementation and builtin in lockstep ------------------------------------------------
def cmp_contents(cls, impl_fields, ref_fields):
    if cls == 'ReplPriorityQueue':
        a = list(impl_fields)
        if isinstance(a[1], list) and all(is_int(x) for x in a[1]):
            a[1] = sorted(a[1])
        return len(a) == len(ref_fields) and all(same(x, y) for x, y in zip(a, ref_fields))
    return len(impl_fields) == len(ref_fields) and all(same(x, y) for x, y in zip(impl_fields, ref_fields))


def snapshot_copy(B, table, init_args, impl):
    """A fresh instance that loads the pickled _serialize() data of impl (what a replica restored from a
    snapshot is)."""
    import pickle
    rep = Impl(B, table, init_args)
    rep.obj._deserialize(pickle.loads(pickle.dumps(impl.obj._serialize(), 2)))
    return rep


def run_case(B, table, init_args, ops, snap_at=None):
    """Returns dict: impl_steps [(name,args,orc,obs,fields)], ref_steps (same shape), init fields, problems
    (monitor records: battery differs from the builtin, or a replica restored from a snapshot taken before
    op number snap_at differs from the original), d14 (a ReplSet.pop that differed between the two replicas
    although their contents were equal: known finding D14, not a problem)."""
    cls = table['class']
    impl = Impl(B, table, init_args)
    ref = REFS[cls](*init_args)
    rep = None
    out = {'cls': cls, 'init_args': init_args, 'impl_init': impl.fields(), 'ref_init': ref.fields(),
           'impl_steps': [], 'ref_steps': [], 'problems': [], 'd14': None, 'snap_at': snap_at, 'replica_steps': 0}
    if not cmp_contents(cls, out['impl_init'], out['ref_init']):
        out['problems'].append({'step': -1, 'what': 'contents after construction %r, builtin %r' % (out['impl_init'], out['ref_init'])})
    if sorted(impl.obj._serialize().keys()) != sorted(table['fields']):
        out['problems'].append({'step': -1, 'what': '_serialize() keys %r, instance attributes %r'
                                % (sorted(impl.obj._serialize().keys()), sorted(table['fields']))})
    for i, (name, args) in enumerate(ops):
        if snap_at is not None and i == snap_at:
            rep = snapshot_copy(B, table, init_args, impl)
            if not all(same(x, y) for x, y in zip(rep.fields(), impl.fields())):
                out['problems'].append({'step': i, 'what': 'replica restored from the snapshot holds %r, original %r'
                                        % (rep.fields(), impl.fields())})
                break
        before = impl.fields()
        o = impl.step(name, args)
        orc = o[1] if (cls == 'ReplSet' and name == 'pop' and o[0] == 'ok' and type(o[1]) is int) else None
        ro = ref_outcome(ref, name, args, orc)
        fi, fr = impl.fields(), ref.fields()
        rorc = ro[1] if (cls == 'ReplSet' and name == 'pop' and ro[0] == 'ok' and type(ro[1]) is int) else None
        out['impl_steps'].append((name, args, orc or 0, o, fi))
        out['ref_steps'].append((name, args, rorc or 0, ro, fr))
        if o[0] != ro[0] or (o[0] == 'err' and o[1] != ro[1]) or (o[0] == 'ok' and not same(o[1], ro[1])):
            out['problems'].append({'step': i, 'op': [name, [enc(a) for a in args]],
                                    'what': '%s.%s%r -> %r, builtin -> %r' % (cls, name, tuple(args), o, ro)})
            break
        if not cmp_contents(cls, fi, fr):
            out['problems'].append({'step': i, 'op': [name, [enc(a) for a in args]],
                                    'what': 'after %s.%s%r contents %r, builtin %r' % (cls, name, tuple(args), fi, fr)})
            break
        if rep is not None:
            o2 = rep.step(name, args)
            f2 = rep.fields()
            out['replica_steps'] += 1
            agree = (o2[0] == o[0] and (o2[1] == o[1] if o[0] == 'err' else same(o2[1], o[1]))
                     and all(same(x, y) for x, y in zip(f2, fi)))
            if not agree:
                if (cls == 'ReplSet' and name == 'pop' and o[0] == 'ok' and o2[0] == 'ok' and isinstance(before[0], set)
                        and o[1] in before[0] and o2[1] in before[0] and o[1] != o2[1]):
                    out['d14'] = {'step': i, 'contents': sorted(before[0]), 'original_pops': o[1], 'restored_pops': o2[1]}
                    rep = None          # the replicas legitimately differ from here on (known finding D14)
                else:
                    out['problems'].append({'step': i, 'op': [name, [enc(a) for a in args]],
                                            'what': 'replica restored from a snapshot before op %d: %s.%s%r -> %r, contents %r; '
                                                    'original -> %r, contents %r' % (snap_at, cls, name, tuple(args), o2, f2, o, fi)})
                    break
    return out


# ---- Coq literals ------------------------------------------------------------------------------------------------
SPEC = {'ReplCounter': ('spec_counter', 'spec_counter_fields'), 'ReplList': ('spec_list', 'spec_list_fields'),
        'ReplDict': ('spec_dict', 'spec_dict_fields'), 'ReplSet': ('spec_set', 'spec_set_fields'),
        'ReplQueue': ('spec_queue', 'spec_queue_fields'), 'ReplPriorityQueue': ('spec_pqueue', 'spec_pqueue_fields')}


def v_steps(cls, steps):
    items = []
    for name, args, orc, o, fields in steps:
        items.append('((%s_m_%s, [%s], (%d)), %s, [%s])' % (
            cls, name, '; '.join(v_val(a) for a in args), orc, v_obs(o), '; '.join(v_val(f) for f in fields)))
    return '[' + ';\n   '.join(items) + ']'


def v_case_gen(r):
    """check_case of the generated model against the implementation's observations"""
    cls = r['cls']
    return 'check_case B_%s [%s] [%s]\n  %s' % (cls, '; '.join(v_val(a) for a in r['init_args']),
                                                '; '.join(v_val(f) for f in r['impl_init']), v_steps(cls, r['impl_steps']))


def spec_init(cls, init_args):
    if cls == 'ReplCounter':
        return 'spec_counter_init'
    if cls in ('ReplList', 'ReplDict', 'ReplSet'):
        return '[]'
    return '((%d), [])' % (init_args[0] if init_args else 0)


def v_case_spec(r):
    """check_spec of the reference spec against the CPython builtin's observations"""
    cls = r['cls']
    call, fields = SPEC[cls]
    return 'check_spec %s %s %s\n  %s' % (call, fields, spec_init(cls, r['init_args']), v_steps(cls, r['ref_steps']))


# ---- small-scope enumeration (search aid) ---------------------------------------------------------------------------
SMALL = {
    'ReplCounter': [('set', [2]), ('set', [None]), ('add', [1]), ('sub', [2]), ('inc', []), ('get', []), ('add', [None])],
    'ReplList': [('append', [0]), ('append', [1]), ('pop', []), ('pop', [0]), ('pop', [-1]), ('pop', [1]), ('pop', [None]),
                 ('insert', [0, 2]), ('insert', [-1, 1]), ('remove', [0]), ('set', [0, 3]), ('set', [-1, 2]), ('sort', []),
                 ('sort', [True]), ('extend', [[1, 0]]), ('reset', [[2, 1]]), ('index', [1]), ('count', [0]), ('get', [0]),
                 ('__getitem__', [-1]), ('__setitem__', [1, 0]), ('__len__', []), ('rawData', [])],
    'ReplDict': [('set', [0, 1]), ('set', [1, 2]), ('__setitem__', [0, 3]), ('setdefault', [0, 2]), ('setdefault', [2, 0]),
                 ('update', [{1: 0, 3: 3}]), ('pop', [0]), ('pop', [1, 7]), ('pop', [None]), ('clear', []), ('__getitem__', [0]),
                 ('get', [1]), ('get', [2, 5]), ('__len__', []), ('__contains__', [0]), ('keys', []), ('values', []),
                 ('items', []), ('reset', [{2: 2}]), ('rawData', [])],
    'ReplSet': [('add', [0]), ('add', [1]), ('add', [8]), ('remove', [0]), ('remove', [1]), ('discard', [0]), ('discard', [8]),
                ('pop', []), ('clear', []), ('update', [{1, 2}]), ('update', [[0, 8]]), ('reset', [{3}]), ('__len__', []),
                ('__contains__', [0]), ('rawData', [])],
    'ReplQueue': [('put', [0]), ('put', [1]), ('get', []), ('get', [7]), ('full', []), ('empty', []), ('qsize', []), ('__len__', [])],
    'ReplPriorityQueue': [('put', [0]), ('put', [1]), ('put', [2]), ('get', []), ('get', [7]), ('full', []), ('empty', []),
                          ('qsize', []), ('__len__', [])],
}


def enumerate_small(B, tables, depth, limit_per_class=None):
    """All op sequences up to `depth` over SMALL, battery vs builtin.  Yields problem records."""
    n = 0
    for t in tables:
        cls = t['class']
        names = set(m['name'] for m in t['methods'])
        alphabet = [o for o in SMALL[cls] if o[0] in names]
        inits = [[]] if cls not in ('ReplQueue', 'ReplPriorityQueue') else [[], [0], [1], [2]]
        k = 0
        for init_args in inits:
            for d in range(1, depth + 1):
                for seq in itertools.product(alphabet, repeat=d):
                    if limit_per_class and k >= limit_per_class:
                        break
                    k += 1
                    r = run_case(B, t, init_args, list(seq))
                    if r['problems']:
                        yield {'cls': cls, 'init': init_args, 'ops': [[nm, [enc(a) for a in args]] for nm, args in seq],
                               'problems': r['problems']}
        n += k
    enumerate_small.count = n
