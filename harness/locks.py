"""Implementation side of the C16 correspondence.

(a) table level: the real `_ReplLockManagerImpl` driven with `_doApply=True` on random command
    logs (few locks, few clients, integer times, deliberately out-of-order time stamps, expiries
    exactly at autoUnlock and autoUnlock +- 1); every return value and the whole
    `_ReplLockManagerImpl__locks` dict (items in dict order) after every op are recorded.
(b) client level: real `ReplLockManager` objects, constructed by the real constructor with
    `pysyncobj.batteries.threading` replaced by a stand-in (no thread is started; the body of
    `_autoAcquireThread` is called by the harness, one iteration at a time), `pysyncobj.batteries.time`
    replaced by a fake clock, and the consumer's `_syncObj` replaced by a fake that records every
    replicated command the wrapper issues.  The harness is the cluster: it decides when (and in
    which order) a command is committed, when each replica applies it, when a command is lost.

Monitors (the property text, on the implementation): exclusion on every single replica table at
every probe, exclusion across replicas whenever the provisos of C16_mutual_exclusion hold, late
acquire => told False and the lock is gone once the release is applied, foreign release is a
no-op, an expired lock is obtainable.
"""
import pickle
import random
import sys
import threading as _real_threading

import os
REPO = (os.environ.get('VERIF_REPO') or '/repo')
if REPO not in sys.path:
    sys.path.insert(0, REPO)


def load_impl():
    import pysyncobj.batteries as B
    return B


LOCKS_ATTR = '_ReplLockManagerImpl__locks'


def table_items(impl):
    return [(k, v[0], v[1]) for k, v in getattr(impl, LOCKS_ATTR).items()]


def ret_code(r):
    if r is None:
        return 0
    if r is True:
        return 1
    if r is False:
        return 2
    return 9     # not a value the model knows: forces a divergence


# ---------------------------------------------------------------------------------------------
# (a) table-level cases
# ---------------------------------------------------------------------------------------------

def call_cmd(impl, cmd):
    """cmd = ('acq', L, C, t) | ('pro', C, t) | ('rel', L, C); returns the return code (3 = exception)"""
    try:
        if cmd[0] == 'acq':
            return ret_code(impl.acquire(cmd[1], cmd[2], cmd[3], _doApply=True)), None
        if cmd[0] == 'pro':
            return ret_code(impl.prolongate(cmd[1], cmd[2], _doApply=True)), None
        if cmd[0] == 'rel':
            return ret_code(impl.release(cmd[1], cmd[2], _doApply=True)), None
    except Exception as e:           # KeyError etc.: an outcome, compared with the model's Raise
        return 3, repr(e)
    raise ValueError(cmd)


def holders(impl, L, clients, now):
    return [c for c in clients if impl.isAcquired(L, c, now)]


def run_table_case(seed, B):
    rng = random.Random(seed)
    U = rng.choice([0, 1, 2, 3, 4, 5, 7, 8, 10, 16])
    n_locks = rng.choice([1, 1, 2, 3])
    n_clients = rng.choice([2, 2, 3, 4])
    locks = list(range(n_locks))
    clients = list(range(1, n_clients + 1))
    impl = B._ReplLockManagerImpl(U)
    now = rng.choice([0, 50, 100])
    ops, expected, problems = [], [], []
    kinds = {}
    n_ops = rng.randrange(4, 40)
    # snapshot replica: at step snap_at the table is serialised the way SyncObj snapshots a consumer
    # (pickle of _serialize()), restored into a fresh object, and from then on fed the same commands
    snap_at = rng.randrange(0, n_ops)
    restored = None
    for step in range(n_ops):
        if step == snap_at:
            try:
                data = pickle.loads(pickle.dumps(impl._serialize()))
                restored = B._ReplLockManagerImpl(U)
                restored._deserialize(data)
            except Exception as e:
                problems.append('snapshot of the lock table at step %d failed: %r' % (step, e))
                restored = None
            if restored is not None and table_items(restored) != table_items(impl):
                problems.append('replica restored from a snapshot taken at step %d has table %r, the original has %r'
                                % (step, table_items(restored), table_items(impl)))
            kinds['snapshot_nonempty' if getattr(impl, LOCKS_ATTR) else 'snapshot_empty'] = 1
        r = rng.random()
        if r < 0.45:
            now += rng.choice([0, 0, 1, 1, 1, 2, 3, max(U - 1, 0), U, U + 1, 2 * U + 1])
        # time stamp of the next command: the common clock, an older reading (delayed command),
        # or exactly at / next to the expiry boundary of some existing lease
        tab = getattr(impl, LOCKS_ATTR)
        k = rng.random()
        if k < 0.55 or not tab:
            t = now
        elif k < 0.75:
            t = now - rng.choice([1, 2, 3, U, U + 1, 2 * U])
        else:
            lt = rng.choice(sorted(v[1] for v in tab.values()))
            t = lt + U + rng.choice([-1, 0, 0, 1])
        r = rng.random()
        L = rng.choice(locks)
        C = rng.choice(clients)
        before = dict(tab)
        if r < 0.40:
            op = ('acq', L, C, t)
        elif r < 0.65:
            op = ('pro', C, t)
        elif r < 0.80:
            op = ('rel', L, C)
        else:
            op = ('probe', L, C, t)
        kinds[op[0]] = kinds.get(op[0], 0) + 1
        if op[0] == 'probe':
            try:
                rc, exc = ret_code(impl.isAcquired(L, C, t)), None
            except Exception as e:
                rc, exc = 3, repr(e)
            # monitor: at one instant at most one client holds a given lock on this table
            for L2 in locks:
                hs = holders(impl, L2, clients, t)
                if len(hs) > 1:
                    problems.append('lock %r held by %r at the same instant %r on one table' % (L2, hs, t))
            if dict(getattr(impl, LOCKS_ATTR)) != before:
                problems.append('isAcquired changed the table')
            if restored is not None:
                # monitor: the two replicas are at the same log position; at this instant no two
                # different clients may each see the lock as theirs, one on each replica
                for L2 in locks:
                    h1 = holders(impl, L2, clients, t)
                    h2 = holders(restored, L2, clients, t)
                    clash = [(a, b) for a in h1 for b in h2 if a != b]
                    if clash:
                        problems.append('lock %r at instant %r: client %r holds it on the original replica and client %r '
                                        'on the replica restored from a snapshot (step %d)' % (L2, t, clash[0][0], clash[0][1], snap_at))
        else:
            rc, exc = call_cmd(impl, op)
            if restored is not None:
                rc2, exc2 = call_cmd(restored, op)
                if rc2 != rc or table_items(restored) != table_items(impl):
                    problems.append('after %r the replica restored from a snapshot (step %d) returned %r / holds %r, the '
                                    'original returned %r / holds %r' % (op, snap_at, rc2, table_items(restored), rc, table_items(impl)))
            after = dict(getattr(impl, LOCKS_ATTR))
            if exc is not None:
                problems.append('replicated %s raised %s' % (op[0], exc))
            # monitor: a lock changes hands only through acquire by the new holder of an absent or expired lease
            for L2 in set(before) | set(after):
                hb, ha = before.get(L2), after.get(L2)
                if ha is not None and (hb is None or hb[0] != ha[0]):
                    legit = op[0] == 'acq' and L2 == L and ha[0] == C and (hb is None or t - hb[1] > U)
                    if not legit:
                        problems.append('after %r lock %r went from %r to %r: not an acquire of a free or expired lock by the new holder'
                                        % (op, L2, hb, ha))
            if op[0] == 'rel':
                h = before.get(L)
                if (h is None or h[0] != C) and after != before:
                    problems.append('release of %r by non-holder %r changed the table %r -> %r' % (L, C, before, after))
            if op[0] == 'acq':
                h = before.get(L)
                if h is not None and t - h[1] > U and rc != 1:
                    problems.append('lock %r expired (lease %r, now %r, U %r) but acquire by %r returned %r'
                                    % (L, h, t, U, C, rc))
                    kinds['expired_takeover_refused'] = kinds.get('expired_takeover_refused', 0) + 1
                if h is not None and t - h[1] > U and h[0] != C:
                    kinds['takeover'] = kinds.get('takeover', 0) + 1
                if h is not None and t - h[1] == U:
                    kinds['boundary_eq_U'] = kinds.get('boundary_eq_U', 0) + 1
        ops.append(op)
        expected.append((rc, table_items(impl)))
    return {'seed': seed, 'U': U, 'ops': ops, 'expected': expected, 'problems': problems, 'kinds': kinds}


def vZ(n):
    assert n == int(n)
    return '(%d)' % int(n)


def v_cmd(c):
    if c[0] == 'acq':
        return '(Acquire %s %s %s)' % (vZ(c[1]), vZ(c[2]), vZ(c[3]))
    if c[0] == 'pro':
        return '(Prolongate %s %s)' % (vZ(c[1]), vZ(c[2]))
    if c[0] == 'rel':
        return '(Release %s %s)' % (vZ(c[1]), vZ(c[2]))
    raise ValueError(c)


def v_table_case(case):
    ops = []
    for o in case['ops']:
        if o[0] == 'probe':
            ops.append('OProbe %s %s %s' % (vZ(o[1]), vZ(o[2]), vZ(o[3])))
        else:
            ops.append('OCmd ' + v_cmd(o))
    exp = []
    for rc, items in case['expected']:
        exp.append('(%s, [%s])' % (vZ(rc), '; '.join('(%s, (%s, %s))' % (vZ(k), vZ(c), vZ(t)) for k, c, t in items)))
    return 'check_table_case %s [%s] [%s]' % (vZ(case['U']), '; '.join(ops), '; '.join(exp))


# ---------------------------------------------------------------------------------------------
# (b) client-level scenarios
# ---------------------------------------------------------------------------------------------

class FakeTime(object):
    """stand-in for the `time` module inside pysyncobj.batteries"""

    def __init__(self):
        self.now = 0
        self.reads = []          # scripted next readings (the prolongation loop reads three times)
        self.sleeps_left = 0

    def time(self):
        if self.reads:
            return float(self.reads.pop(0))
        return float(self.now)

    def sleep(self, _x):
        if self.sleeps_left <= 0:
            raise ReferenceError('harness: end of this run of the prolongation loop')
        self.sleeps_left -= 1


class _FakeEvent(object):
    def set(self):
        pass

    def is_set(self):
        return True


class _FakeThread(object):
    def __init__(self, target=None, args=()):
        self.target, self.args = target, args

    def start(self):
        pass


class _FakeThreading(object):
    Thread = _FakeThread
    Event = _FakeEvent
    current_thread = staticmethod(_real_threading.current_thread)


class _MethodIds(object):
    def __getitem__(self, key):
        return key[1]


class FakeSyncObj(object):
    """what `replicated` needs from the SyncObj a consumer is attached to"""

    def __init__(self, world, cid):
        self.world, self.cid = world, cid
        self.leader = 'leader'
        self._methodToID = _MethodIds()

    def _getFuncName(self, key):
        return key[1] if isinstance(key, tuple) else key

    def _getLeader(self):
        return self.leader

    def _applyCommand(self, data, callback, _ctype=None):
        cmd = pickle.loads(data)
        if not isinstance(cmd, tuple):
            name, args, kwargs = cmd, (), {}
        elif len(cmd) == 2:
            name, args, kwargs = cmd[0], cmd[1], {}
        else:
            name, args, kwargs = cmd
        self.world.on_command(self.cid, name, tuple(args), dict(kwargs), callback)


def _sync_exc():
    from pysyncobj.syncobj import SyncObjException
    return SyncObjException


def install(B):
    saved = (B.time, B.threading)
    ft = FakeTime()
    B.time = ft
    B.threading = _FakeThreading
    return ft, saved


def uninstall(B, saved):
    B.time, B.threading = saved


def to_cmd(name, args):
    if name == 'acquire':
        return ('acq', args[0], args[1], args[2])
    if name == 'prolongate':
        return ('pro', args[0], args[1])
    if name == 'release':
        return ('rel', args[0], args[1])
    raise ValueError(name)


def enc_cmd(c):
    c = tuple(int(x) if not isinstance(x, str) else x for x in c)
    if c[0] == 'acq':
        return [1, c[1], c[2], c[3]]
    if c[0] == 'pro':
        return [2, c[1], c[2]]
    return [3, c[1], c[2]]


def intval(x):
    """times reach the impl as floats (fake time.time()); they are integer valued by construction"""
    if isinstance(x, float):
        assert x == int(x), x
        return int(x)
    return x


class World(object):
    def __init__(self, B, ft, U, n_clients):
        self.B, self.ft, self.U = B, ft, U
        self.clients = list(range(1, n_clients + 1))
        self.mgr, self.so, self.applied = {}, {}, {}
        for c in self.clients:
            m = B.ReplLockManager(U, selfID=c)
            so = FakeSyncObj(self, c)
            m._consumer()._syncObj = so
            self.mgr[c], self.so[c], self.applied[c] = m, so, 0
        self.log = []            # committed: dict(cmd, origin, callback, rid, late_release)
        self.pending = []        # issued, not committed
        self.events = []         # model events (text)
        self.expected = []       # per event: list of ints
        self.problems = []
        self.kinds = {}
        self.issued = None       # commands issued during the current wrapper call
        self.sync_plan = None
        self.next_rid = 0
        self.requests = {}       # rid -> dict(cid, L, mode, t0, live)
        self.last_cb = None
        self.cur_tag = None
        self.in_sync = False

    # -- helpers --------------------------------------------------------------------------
    def impl(self, c):
        return self.mgr[c]._consumer()

    def count(self, k):
        self.kinds[k] = self.kinds.get(k, 0) + 1

    def emit(self, ev, obs):
        self.events.append(ev)
        self.expected.append([int(x) for x in obs])

    def on_command(self, cid, name, args, kwargs, callback):
        args = tuple(intval(a) for a in args)
        ent = {'cmd': to_cmd(name, args), 'origin': cid, 'callback': callback, 'kwargs': kwargs,
               'rid': None, 'tag': self.cur_tag if name == 'release' else None}
        if self.issued is not None:
            self.issued.append(ent['cmd'])
        self.pending.append(ent)
        if self.in_sync and name == 'release':
            # the late path of a *sync* tryAcquire waits for its release (sync=True, no timeout):
            # the harness always commits and applies it at once (a failing / never answered sync
            # release - SyncObjException / blocking forever - is not explored)
            self.commit(ent)
            self.apply_one(cid)
            return
        if self.sync_plan is not None and name == 'acquire':
            plan, self.sync_plan = self.sync_plan, None
            ent['rid'] = plan['rid']
            self.emit('EIssue %d %d %d MSync %d' % (cid, plan['rid'], args[0], args[2]), enc_cmd(ent['cmd']))
            self.issued = []
            if plan['kind'] == 'deliver':
                self.ft.now += plan['delay']
                self.commit(ent)
                self.apply_one(cid)          # fires asyncResult.onResult
            elif plan['kind'] == 'fail':
                self.pending.remove(ent)
                callback(None, plan['err'])
            # 'timeout': nothing is delivered; event.wait(0) fails

    def commit(self, ent):
        self.pending.remove(ent)
        self.log.append(ent)

    def apply_one(self, c):
        """replica c applies its next log entry; fires the origin's callback like SyncObj does"""
        k = self.applied[c]
        ent = self.log[k]
        impl = self.impl(c)
        tab_before = dict(getattr(impl, LOCKS_ATTR))
        cmd = ent['cmd']
        name = {'acq': 'acquire', 'pro': 'prolongate', 'rel': 'release'}[cmd[0]]
        try:
            res = getattr(impl, name)(*cmd[1:], _doApply=True, **ent['kwargs'])
            rc = ret_code(res)
        except Exception as e:
            res, rc = None, 3
            self.problems.append('replicated %s raised %r on replica %d' % (name, e, c))
        self.applied[c] = k + 1
        ent['res'] = res
        self.emit('EApply %d' % k, [rc])
        tab_after = dict(getattr(impl, LOCKS_ATTR))
        # monitors on the table
        if cmd[0] == 'rel':
            h = tab_before.get(cmd[1])
            if (h is None or h[0] != cmd[2]) and tab_after != tab_before:
                self.problems.append('release of %r by non-holder %r changed replica %d' % (cmd[1], cmd[2], c))
            if h is None or h[0] != cmd[2]:
                self.count('foreign_release')
            if ent['tag'] == 'late_release':
                if impl.isAcquired(cmd[1], cmd[2], self.ft.now):
                    self.problems.append('late-acquire release applied on replica %d but %r still holds %r' % (c, cmd[2], cmd[1]))
        if cmd[0] == 'acq':
            h = tab_before.get(cmd[1])
            if h is not None and cmd[3] - h[1] > self.U:
                self.count('expired_takeover')
                if res is not True:
                    self.problems.append('expired lock %r (lease %r) not obtainable by %r at %r' % (cmd[1], h, cmd[2], cmd[3]))
        if ent['origin'] == c and ent['callback'] is not None:
            self.deliver(ent, k, res, 0)

    def deliver(self, ent, k, res, err):
        """call the callback the wrapper registered; record what the user is told (async modes)"""
        rid = ent['rid']
        req = self.requests.get(rid) if rid is not None else None
        if req is None or not req['live'] or req['mode'] == 'MSync':
            ent['callback'](res, err)         # sync: AsyncResult.onResult; others: plain callbacks
            return
        self.issued = []
        self.cur_tag = 'late_release'
        self.last_cb = None
        ent['callback'](res, err)
        self.cur_tag = None
        req['live'] = False
        told = self.last_cb
        self.complete(req, rid, k, told, self.issued, res)
        self.issued = None

    def complete(self, req, rid, k, told, issued, raw=None):
        """told: ('cb', res, err) | ('ret', value) | ('raise',)"""
        if told is None:
            code = -2
            self.problems.append('callback of request %d was not called' % rid)
        elif told[0] == 'raise':
            code = 3
        else:
            code = ret_code(told[1])
        src = 'RFail' if k is None else '(RAt %d)' % k
        obs = [code]
        for c in issued:
            obs += enc_cmd(c)
        self.emit('EComplete %d %d %s %d' % (req['cid'], rid, src, self.ft.now), obs)
        # monitor: late acquire => told False (documented call modes)
        took = self.ft.now - req['t0']
        if req['mode'] in ('MSync', 'MAsync') and k is not None:
            if took > self.U / 2.0:
                self.count('late_result')
                if code != 2:
                    self.problems.append('acquisition of %r by %r took %r > U/2 = %r but the client was told %r, not False'
                                         % (req['L'], req['cid'], took, self.U / 2.0, told))
                if raw is True:
                    self.count('late_result_after_success')
                    if list(issued) != [('rel', req['L'], req['cid'])]:
                        self.problems.append('late acquisition of %r by %r: commands issued %r, expected one release'
                                             % (req['L'], req['cid'], issued))
            else:
                self.count('timely_result')
                if raw is True and code == 1:
                    self.count('acquired')

    # -- wrapper calls --------------------------------------------------------------------------
    def try_async(self, c, L, with_sync_flag=False):
        rid = self.next_rid
        self.next_rid += 1
        mode = 'MSyncCallback' if with_sync_flag else 'MAsync'
        self.requests[rid] = {'cid': c, 'L': L, 'mode': mode, 't0': self.ft.now, 'live': True}

        def cb(res, err, self=self):
            self.last_cb = ('cb', res, err)

        self.issued = []
        n0 = len(self.pending)
        r = self.mgr[c].tryAcquire(L, callback=cb, sync=with_sync_flag)
        if r is not None:
            self.problems.append('async tryAcquire returned %r' % (r,))
        iss, self.issued = self.issued, None
        for ent in self.pending[n0:]:
            ent['rid'] = rid
        obs = []
        for x in iss:
            obs += enc_cmd(x)
        self.emit('EIssue %d %d %d %s %d' % (c, rid, L, mode, self.ft.now), obs)
        self.count('try_' + mode)

    def try_sync(self, c, L, plan):
        rid = self.next_rid
        self.next_rid += 1
        plan = dict(plan)
        plan['rid'] = rid
        self.requests[rid] = {'cid': c, 'L': L, 'mode': 'MSync', 't0': self.ft.now, 'live': True}
        self.sync_plan = plan
        self.cur_tag = 'late_release'
        self.in_sync = True
        k = len(self.log) if plan['kind'] == 'deliver' else None
        try:
            r = self.mgr[c].tryAcquire(L, sync=True, timeout=0 if plan['kind'] == 'timeout' else None)
            told = ('ret', r)
        except _sync_exc():
            told = ('raise',)
        self.cur_tag = None
        self.in_sync = False
        self.sync_plan = None
        iss, self.issued = (self.issued or []), None
        self.requests[rid]['live'] = False
        raw = self.log[k].get('res') if k is not None else None
        self.complete(self.requests[rid], rid, k, told, iss, raw)
        self.count('try_sync_' + plan['kind'])

    def release(self, c, L):
        self.issued = []
        self.mgr[c].release(L)
        iss, self.issued = self.issued, None
        obs = []
        for x in iss:
            obs += enc_cmd(x)
        self.emit('ERelease %d %d' % (c, L), obs)
        self.count('release')

    def tick(self, c, has_obj, has_leader, reads):
        m = self.mgr[c]
        impl = self.impl(c)
        so = self.so[c]
        so.leader = 'leader' if has_leader else None
        if not has_obj:
            impl._syncObj = None
        self.ft.reads = list(reads)
        self.ft.sleeps_left = 1
        self.issued = []
        self.B.ReplLockManager._autoAcquireThread(m)
        iss, self.issued = self.issued, None
        consumed = 3 - len(self.ft.reads)
        self.ft.reads = []
        impl._syncObj = so
        so.leader = 'leader'
        last = intval(getattr(m, '_ReplLockManager__lastProlongateTime'))
        obs = [last]
        for x in iss:
            obs += enc_cmd(x)
        self.emit('ETick %d %s %s %d %d %d' % (c, 'true' if has_obj else 'false', 'true' if has_leader else 'false',
                                               reads[0], reads[1], reads[2]), obs)
        self.ft.now = max(self.ft.now, *reads[:consumed]) if consumed else self.ft.now
        self.count('tick_prolong' if iss else 'tick_skip')

    def drop(self, ent, err):
        """the command is lost: its callback (if any) gets (None, err)"""
        self.pending.remove(ent)
        self.count('drop_' + ent['cmd'][0])
        if ent['callback'] is not None:
            rid = ent['rid']
            req = self.requests.get(rid) if rid is not None else None
            if req is not None and req['live'] and req['mode'] != 'MSync':
                self.issued = []
                self.last_cb = None
                ent['callback'](None, err)
                req['live'] = False
                self.complete(req, rid, None, self.last_cb, self.issued)
                self.issued = None
            else:
                ent['callback'](None, err)

    def probe(self, locks):
        now = self.ft.now
        # every client asks its own wrapper (own replica)
        view = {}
        for c in self.clients:
            for L in locks:
                r = self.mgr[c].isAcquired(L)
                view[(c, L)] = r
                self.emit('EProbe %d %d %d %d' % (c, self.applied[c], L, now), [1 if r is True else (0 if r is False else 9)])
        # monitor 1: on any single replica table at most one client holds a lock at one instant
        for c in self.clients:
            for L in locks:
                hs = holders(self.impl(c), L, self.clients, now)
                if len(hs) > 1:
                    self.problems.append('replica %d: lock %r held by %r at instant %r' % (c, L, hs, now))
        # monitor 2: across replicas, whenever the provisos of C16_mutual_exclusion hold
        for L in locks:
            hs = [c for c in self.clients if view[(c, L)]]
            if len(hs) == 1:
                self.count('probe_one_holder')
            if len(hs) < 2:
                continue
            for a in hs:
                for b in hs:
                    if a == b or self.applied[a] > self.applied[b] or (self.applied[a] == self.applied[b] and a > b):
                        continue
                    why = self.provisos_broken(a, L, self.applied[a], self.applied[b], now)
                    if not why:
                        self.problems.append('clients %r and %r both consider lock %r held at %r (replicas at %d / %d) '
                                             'although time stamps are monotone, clocks agree and %r did not release'
                                             % (a, b, L, now, self.applied[a], self.applied[b], a))
                    else:
                        self.count('both_hold_' + why[0])

    def provisos_broken(self, a, L, ka, kb, now):
        why = []
        d = [e['cmd'] for e in self.log[ka:kb]]
        if ('rel', L, a) in d:
            why.append('owner_released_in_suffix')
        ts = [e['cmd'][-1] for e in self.log[:kb] if e['cmd'][0] in ('acq', 'pro') and e['cmd'][-2] == a]
        if any(x > y for x, y in zip(ts, ts[1:])):
            why.append('owner_timestamps_not_monotone')
        if any(e[-1] > now for e in d if e[0] in ('acq', 'pro')):
            why.append('stamp_in_future')
        return why


def run_client_case(seed, B):
    rng = random.Random(seed)
    ft, saved = install(B)
    try:
        return _run_client_case(rng, seed, B, ft)
    finally:
        uninstall(B, saved)


def _run_client_case(rng, seed, B, ft):
    U = rng.choice([4, 5, 8, 10, 12, 16])
    n_clients = rng.choice([2, 2, 3])
    locks = list(range(rng.choice([1, 1, 2])))
    ft.now = rng.choice([1, 20, 100])
    w = World(B, ft, U, n_clients)
    lossy = rng.random() < 0.3          # commands (other than the late-path release) may be lost
    reorder = rng.random() < 0.3        # commits may overtake each other
    laggard = rng.choice(w.clients) if rng.random() < 0.5 else None   # a replica that applies rarely
    n = rng.randrange(8, 45)
    for _ in range(n):
        r = rng.random()
        c = rng.choice(w.clients)
        L = rng.choice(locks)
        if r < 0.15:
            ft.now += rng.choice([0, 1, 1, 2, U // 4, U // 2, U // 2 + 1, U - 1, U, U + 1])
        elif r < 0.30:
            w.try_async(c, L, with_sync_flag=(rng.random() < 0.05))
        elif r < 0.36:
            # sync: the caller's replica is brought up to date first, then the command commits
            while w.applied[c] < len(w.log):
                w.apply_one(c)
            k = rng.random()
            if k < 0.75:
                plan = {'kind': 'deliver', 'delay': rng.choice([0, 1, U // 2, U // 2 + 1, U, U + 1])}
            elif k < 0.9:
                plan = {'kind': 'fail', 'err': rng.choice([2, 3, 4, 5])}
            else:
                plan = {'kind': 'timeout'}
            w.try_sync(c, L, plan)
        elif r < 0.52:
            if w.pending:
                if reorder:
                    ent = rng.choice(w.pending)
                else:
                    # FIFO per client, any interleaving between clients
                    firsts = {}
                    for e in w.pending:
                        firsts.setdefault(e['origin'], e)
                    ent = firsts[rng.choice(sorted(firsts))]
                w.commit(ent)
                w.count('commit')
        elif r < 0.72:
            if c == laggard and rng.random() < 0.85:
                c = rng.choice([x for x in w.clients if x != laggard])
            if w.applied[c] < len(w.log):
                w.apply_one(c)
                w.count('apply')
        elif r < 0.76:
            if lossy and w.pending:
                cands = [e for e in w.pending if e['tag'] != 'late_release']
                if cands:
                    w.drop(rng.choice(cands), rng.choice([2, 3, 4, 5]))
        elif r < 0.86:
            t1 = ft.now
            k = rng.random()
            reads = [t1, t1, t1] if k < 0.7 else [t1, t1 + rng.choice([0, 1]), t1 + rng.choice([1, 2])]
            reads[2] = max(reads[2], reads[1])
            w.tick(c, rng.random() > 0.05, rng.random() > 0.15, reads)
        elif r < 0.90:
            w.release(c, L)
        elif r < 0.94:
            # hand-over while the old owner's replica lags: owner releases, the release commits, another
            # client acquires and sees it; the old owner has not applied its own release yet
            own = [(a, l) for a in w.clients for l in locks if w.mgr[a].isAcquired(l)]
            if own:
                a, l = rng.choice(own)
                b = rng.choice([x for x in w.clients if x != a])
                w.release(a, l)
                w.commit(w.pending[-1])
                w.try_async(b, l)
                w.commit(w.pending[-1])
                while w.applied[b] < len(w.log):
                    w.apply_one(b)
                w.count('handover')
                w.probe(locks)
        else:
            w.probe(locks)
    # drain: commit everything, every replica catches up, final probes
    while w.pending:
        w.commit(w.pending[0])
    for c in w.clients:
        while w.applied[c] < len(w.log):
            w.apply_one(c)
    w.probe(locks)
    ft.now += U + 1
    w.probe(locks)
    for m in w.mgr.values():
        m.destroy()
    return {'seed': seed, 'U': U, 'log': [e['cmd'] for e in w.log], 'events': w.events, 'expected': w.expected,
            'problems': w.problems, 'kinds': w.kinds, 'n_clients': n_clients}


def v_client_case(case):
    log = '; '.join(v_cmd(c) for c in case['log'])
    evs = '; '.join(_v_event(e) for e in case['events'])
    exp = '; '.join('[%s]' % '; '.join(vZ(x) for x in xs) for xs in case['expected'])
    return 'check_client_case %s [%s] [%s] [%s]' % (vZ(case['U']), log, evs, exp)


def _v_event(e):
    parts = e.split(' ')
    head = parts[0]
    out = [head]
    nat_pos = {'EProbe': [2], 'EApply': [1]}.get(head, [])
    i = 1
    while i < len(parts):
        p = parts[i]
        if p.startswith('(RAt'):
            out.append('(RAt %s%%nat)' % parts[i + 1].rstrip(')'))
            i += 2
            continue
        if p in ('true', 'false', 'MSync', 'MAsync', 'MSyncCallback', 'RFail'):
            out.append(p)
        elif i in nat_pos:
            out.append('%d%%nat' % int(p))
        else:
            out.append(vZ(int(p)))
        i += 1
    return ' '.join(out)


# ---------------------------------------------------------------------------------------------
# scripted scenarios for the candidate findings (reported, not monitors)
# ---------------------------------------------------------------------------------------------

def scenario_lost_release(B):
    """late acquire, told False, the fire-and-forget release is lost, the prolongation thread keeps the lock"""
    ft, saved = install(B)
    try:
        U = 10
        ft.now = 0
        w = World(B, ft, U, 2)
        w.try_async(1, 7)                       # attempt at 0
        ft.now = 6                              # committed/applied at 6 > U/2
        w.commit(w.pending[0])
        w.apply_one(1)                          # callback: told False, release issued
        told = w.expected[-1][0]
        issued_release = [e for e in w.pending if e['cmd'][0] == 'rel']
        for e in list(issued_release):          # ... and lost (partition / queue full / request denied)
            w.pending.remove(e)
        trace = []
        for t in (6, 9, 12, 15, 18):
            ft.now = t
            w.tick(1, True, True, [t, t, t])
            while w.pending:
                w.commit(w.pending[0])
            while w.applied[1] < len(w.log):
                w.apply_one(1)
            trace.append((t, w.mgr[1].isAcquired(7)))
        ft.now = 19
        w.try_async(2, 7)
        w.commit(w.pending[0])
        while w.applied[2] < len(w.log):
            w.apply_one(2)
        other = w.expected[-1][0]
        return {'U': U, 'told_code(2=False)': told, 'release_issued': len(issued_release) == 1,
                'isAcquired_by_client_1_after_lost_release': trace,
                'client_2_tryAcquire_at_19_told(2=False)': other,
                'table': table_items(w.impl(1))}
    finally:
        uninstall(B, saved)


def scenario_sync_timeout(B):
    """sync tryAcquire times out (SyncObjException), the command commits later: the client holds and prolongs"""
    ft, saved = install(B)
    try:
        U = 10
        ft.now = 0
        w = World(B, ft, U, 2)
        w.try_sync(1, 7, {'kind': 'timeout'})
        told = w.expected[-1][0]
        ft.now = 3
        w.commit(w.pending[0])
        w.apply_one(1)
        trace = []
        for t in (3, 6, 9, 12):
            ft.now = t
            w.tick(1, True, True, [t, t, t])
            while w.pending:
                w.commit(w.pending[0])
            while w.applied[1] < len(w.log):
                w.apply_one(1)
            trace.append((t, w.mgr[1].isAcquired(7)))
        return {'U': U, 'told_code(3=SyncObjException)': told, 'isAcquired_by_client_1_afterwards': trace}
    finally:
        uninstall(B, saved)


def scenario_release_lag(B):
    """the old owner's replica has not applied the owner's own release yet: two clients see the lock as theirs"""
    ft, saved = install(B)
    try:
        U = 10
        ft.now = 0
        w = World(B, ft, U, 2)
        w.try_async(1, 7)
        w.commit(w.pending[0])
        w.apply_one(1)
        w.apply_one(2)
        told1 = w.expected[-2][0] if w.events[-2].startswith('EComplete') else w.expected[-3][0]
        ft.now = 1
        w.release(1, 7)
        w.commit(w.pending[0])
        w.try_async(2, 7)
        w.commit(w.pending[0])
        w.apply_one(2)
        w.apply_one(2)
        told2 = w.expected[-1][0]
        both = (w.mgr[1].isAcquired(7), w.mgr[2].isAcquired(7))
        w.apply_one(1)
        after = (w.mgr[1].isAcquired(7), w.mgr[2].isAcquired(7))
        return {'U': U, 'client_1_told(1=True)': told1, 'client_2_told(1=True)': told2,
                'isAcquired(client1, client2) at t=1 while replica 1 lags': both,
                'after replica 1 applied its release': after, 'problems': w.problems}
    finally:
        uninstall(B, saved)


# the three *_proviso_necessary witnesses of Props/C16.v, replayed on the real table class
PROVISO_WITNESSES = {
    'C16_mono_proviso_necessary': (5, [('acq', 0, 1, 10)], [('pro', 1, 8), ('acq', 0, 2, 14)], 0, 1, 2, 14),
    'C16_release_proviso_necessary': (5, [('acq', 0, 1, 10)], [('rel', 0, 1), ('acq', 0, 2, 11)], 0, 1, 2, 11),
    'C16_clock_proviso_necessary': (5, [('acq', 0, 1, 10)], [('acq', 0, 2, 16)], 0, 1, 2, 12),
}


def replay_proviso_witnesses(B):
    """-> {name: (A holds on replica p1, B holds on replica p1 ++ d)} on `_ReplLockManagerImpl`"""
    out = {}
    for name, (U, p1, d, L, A, Bc, now) in PROVISO_WITNESSES.items():
        r1, r2 = B._ReplLockManagerImpl(U), B._ReplLockManagerImpl(U)
        for c in p1:
            call_cmd(r1, c)
        for c in p1 + d:
            call_cmd(r2, c)
        out[name] = (r1.isAcquired(L, A, now), r2.isAcquired(L, Bc, now))
    return out
