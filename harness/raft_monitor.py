"""Runtime monitors of the Raft-level properties on the real objects (the Python side of
DESIGN 3.4).  A Monitor is registered as a Recorder listener and inspects the simulation after
every event.  Each record is (property id, message, step index).  Monitors state what the property
text states and nothing more."""
from harness import sim as SIM
from harness.sim import RO_BASE

ERR_NEVER_APPLIED = {1: 'QUEUE_FULL', 2: 'MISSING_LEADER', 4: 'NOT_LEADER', 6: 'REQUEST_DENIED', 3: 'DISCARDED'}


def g(o, name):
    return getattr(o, '_SyncObj__' + name)


class Monitor(object):
    def __init__(self, static_voters=None):
        self.records = []
        self.committed_in_term = {}
        self.down_logs = {}
        self.last_logs = {}
        self.stuck_reported = {}
        self.dump_seen = {}
        self.term_regress_reported = {}
        self.kill_infos = []
        self.attributed = []      # (finding id, property, message, step)
        self.journaled = False
        self.votes = {}           # (voter, term) -> (candidate, incarnation)
        self.incarnation = {}
        self.max_term_seen = {}   # voter -> (term, incarnation)
        self.max_term_ever = {}   # voter -> highest term it ever was in (all incarnations)
        self.dump_conflict = {}
        self.acked = {}           # nid -> {idx: term} acknowledged to a leader or counted as leader
        self.member_since = {}
        self.heard = {}
        self.shadow = {}
        self.prev_log = {}
        self.became_leader_at = {}
        self.prev_members = {}
        self.retired = set()      # members whose removal is committed: shutting them down loses nothing
        self.ever_removed = set() # addresses whose removal was committed at some time (re-use = KF-C10-1)
        self.after_memory_loss = []
        self.step = -1
        self.cmd_at = {}            # idx -> command bytes applied there (first applier defines it)
        self.term_at = {}           # idx -> term of the applied entry
        self.idx_of_cid = {}        # cid -> idx
        self.committed = {}         # idx -> (command, term) of the entry some node reported committed
        self.prev = {}              # nid -> (commit, applied)
        self.leaders = {}           # term -> nid
        self.fired = {}             # cb -> [(res, err, step)]
        self.must_not_apply = {}    # cid -> reason
        self.success = {}           # cid -> result
        self.kills = 0              # memory loss events so far
        self.restarted = set()
        self.waiting = {}           # nid -> {request id: callback id} as last seen (its forwarded, unanswered commands)
        self.stale_rids = {}        # nid -> request ids an earlier incarnation left unanswered when it was killed
        self.rid_of = {}            # callback id -> (nid, request id) of the forwarded command
        self.outside_scope = []     # records set aside: C02 is stated for schedules without restarts
        self.voters = set(static_voters or [])
        self.trigger = {}           # finding triggers seen: name -> first step
        self.cfg_after = {}
        self.replay_idx = {}
        self.waiters_seen = {}
        self.stats = {'applies': 0, 'commits': 0, 'elections': 0, 'callbacks': 0, 'snap_installs': 0}

    def rec_c02(self, cb, msg):
        # Request ids of forwarded commands restart at 1 with every process: an answer meant for a request of a
        # killed incarnation can be taken for the answer to a new request with the same id.  C02 quantifies over the
        # schedules of C01 (no restarts), so such records are kept apart (evidence: outside_scope), not reported.
        n, rid = self.rid_of.get(cb, (None, None))
        if n is not None and rid in self.stale_rids.get(n, ()):
            self.outside_scope.append(('C02', msg, self.step, 'request id %d of node %d re-used after its restart' % (rid, n)))
            return
        self.rec('C02', msg)

    def scan_waiting(self, sim, nid):
        o = sim.nodes.get(nid)
        if o is None:
            return
        w = {}
        for rid, cbk in g(o, 'commandsWaitingReply').items():
            d = getattr(cbk, '__defaults__', None)
            if d:
                w[rid] = d[0]
                self.rid_of.setdefault(d[0], (nid, rid))
        self.waiting[nid] = w

    def note_callbacks(self, rec, sim):
        for cb, res, err in sim.fired:
            self.stats['callbacks'] += 1
            self.fired.setdefault(cb, []).append((res, err, self.step))
            if len(self.fired[cb]) > 1:
                self.rec_c02(cb, 'callback of command %d fired %d times: %r' % (cb, len(self.fired[cb]), self.fired[cb]))
            if err in ERR_NEVER_APPLIED:
                self.must_not_apply[cb] = ERR_NEVER_APPLIED[err]
                if cb in self.idx_of_cid:
                    self.rec_c02(cb, 'command %d reported %s but is applied at position %d'
                                 % (cb, ERR_NEVER_APPLIED[err], self.idx_of_cid[cb]))
            if err == 0:
                self.success[cb] = res

    def absorb_dead(self, sim, n, o):
        """a process that died inside a step: what it committed and applied before dying did happen"""
        log = self.log_of(o)
        commit, applied = g(o, 'raftCommitIndex'), g(o, 'raftLastApplied')
        pc, pa = self.prev.get(n, (None, None))
        for e in log:
            if e[1] <= commit:
                self.committed.setdefault(e[1], (e[0], e[2]))
        if pa is not None:
            for idx in range(pa + 1, applied + 1):
                e = self.entry_at(log, idx)
                if e is None:
                    continue
                if idx in self.cmd_at:
                    if self.cmd_at[idx] != e[0]:
                        self.rec('C01', 'position %d: node %d applied a different command than an earlier node' % (idx, n))
                else:
                    self.cmd_at[idx] = e[0]
                    self.term_at[idx] = e[2]
                    kind, a, b = sim.cid_of_command(e[0])
                    if kind == 0:
                        if a in self.idx_of_cid and self.idx_of_cid[a] != idx:
                            self.rec('C02', 'command %d applied at two positions %d and %d' % (a, self.idx_of_cid[a], idx))
                        self.idx_of_cid.setdefault(a, idx)
                        if a in self.must_not_apply:
                            self.rec_c02(a, 'command %d reported %s but is applied at position %d'
                                         % (a, self.must_not_apply[a], idx))

    def rec(self, prop, msg, finding=None):
        # C01-C04 are stated "as long as no node loses its memory": after a memory-only node was killed
        # the records are kept apart (attributed to the trigger 'memory_loss'), never reported as violations
        if self.kills and prop in ('C01', 'C02', 'C03', 'C04', 'C10'):
            self.after_memory_loss.append((prop, msg, self.step))
            return
        # a journaled voter that forgot its term/vote over a restart (known finding KF-C07-1) explains later
        # safety records of the same trace; before that trigger nothing is excused
        if finding is None and 'kf_c07_1' in self.trigger and prop in ('C01', 'C02', 'C03', 'C04', 'C10'):
            finding = 'KF-C07-1'
        if finding is None and 'kf_c10_1' in self.trigger and prop in ('C01', 'C02', 'C03', 'C04', 'C10'):
            finding = 'KF-C10-1'       # a re-used address: stale member tables + a member set replayed from a log prefix
        if finding is None and 'kf_c10_2' in self.trigger and prop in ('C01', 'C02', 'C03', 'C04', 'C10'):
            finding = 'KF-C10-2'       # a joiner whose start list lacks a member of the committed configuration
        if finding is None and 'kf_c10_3' in self.trigger and prop in ('C01', 'C02', 'C03', 'C04', 'C10'):
            finding = 'KF-C10-3'       # a joiner that is not yet a member took a snapshot that lists itself
        if finding is None and any(k.startswith('kf_c08_1') for k in self.trigger) and prop in ('C01', 'C02', 'C03', 'C04'):
            finding = 'KF-C08-1'       # acknowledged entries were lost by a kill inside the journal head drop
        if finding is not None:
            self.attributed.append((finding, prop, msg, self.step))
            return
        self.records.append((prop, msg, self.step))

    # ---- helpers ------------------------------------------------------------------------
    def log_of(self, o):
        return g(o, 'raftLog')[:]

    def entry_at(self, log, idx):
        if not log:
            return None
        first = log[0][1]
        k = idx - first
        if 0 <= k < len(log):
            return log[k]
        return None

    def expected_history(self, sim, upto):
        out = []
        for idx in sorted(self.cmd_at):
            if idx > upto:
                break
            kind, a, b = sim.cid_of_command(self.cmd_at[idx])
            if kind == 0 and not b:
                out.append(a)
        return out

    # ---- the listener ---------------------------------------------------------------------
    def __call__(self, rec, ev, nid):
        self.step += 1
        sim = rec.sim
        k = ev[0]
        self.journaled = bool(rec.cfg.get('journal'))
        if k in ('tickkill', 'deliverkill'):
            if sim.kill_info is not None:
                # the process died inside the step: what it sent before dying was sent
                n = ev[1] if k == 'tickkill' else ev[2]
                self.kill_infos.append(dict(sim.kill_info, node=n, step=self.step))
                self.stale_rids.setdefault(n, set()).update(self.waiting.pop(n, {}))
                if sim.abandoned is not None:
                    self.stale_rids[n].update(g(sim.abandoned, 'commandsWaitingReply').keys())
                if sim.abandoned is not None:
                    self.note_acks(sim, n, sim.abandoned)
                    if self.journaled:
                        self.down_logs[n] = self.log_of(sim.abandoned)
                    self.absorb_dead(sim, n, sim.abandoned)
                self.prev.pop(n, None)
                self.prev_log.pop(n, None)
                if sim.kill_info.get('in_delete_to'):
                    self.trigger.setdefault('kf_c08_1:%d' % n, self.step)
                self.check_dump_file(rec, sim, n)      # what the dead process left on disk
                self.note_callbacks(rec, sim)          # callbacks it fired before dying did fire
                return
            k = 'tick' if k == 'tickkill' else 'deliver'
            ev = ((k,) + tuple(ev[1:-1]))
        if k == 'kill':
            self.stale_rids.setdefault(ev[1], set()).update(self.waiting.pop(ev[1], {}))
            if self.journaled and ev[1] in self.last_logs:
                self.down_logs[ev[1]] = self.last_logs[ev[1]]     # what its journal file holds while it is down
            self.prev.pop(ev[1], None)
            self.prev_log.pop(ev[1], None)
            if ev[1] < RO_BASE and ev[1] not in self.retired and not self.journaled:
                self.kills += 1
                self.trigger.setdefault('memory_loss', self.step)
            return
        if k == 'restart':
            if (rec.cfg.get('dyn') and ev[1] < RO_BASE and ev[1] not in self.incarnation and self.committed
                    and ev[1] not in rec.cfg['voters']):
                # a new voter is started with a member list that LACKS a member of the committed configuration (the list
                # was read from a node while a removal was pending that was never committed): known finding KF-C10-2 -
                # plain log replay never repairs the joiner's table
                cfgc = set(rec.cfg['voters'])
                for idx_ in sorted(self.committed):
                    kind_, a_, b_ = sim.cid_of_command(self.committed[idx_][0])
                    if kind_ == 2:
                        if a_ == 1:
                            cfgc.add(b_)
                        else:
                            cfgc.discard(b_)
                if (cfgc - {ev[1]}) - set(ev[2]):
                    self.trigger.setdefault('kf_c10_2', self.step)
            if ev[1] in self.ever_removed and ev[1] < RO_BASE and not self.journaled:
                # an address that was a member before comes back as a fresh, empty process (allowed by the operator
                # discipline of C10): known finding KF-C10-1 - from here on cluster-wide safety records are its symptoms
                self.trigger.setdefault('kf_c10_1', self.step)
            if sim.exc and self.journaled:
                # the constructor raised: the node cannot come back from what it left on disk
                self.rec('C06', 'node %d cannot be started again from its journal / dump files: %s'
                         % (ev[1], getattr(sim, 'exc_repr', sim.exc)))
            self.down_logs.pop(ev[1], None)
            self.prev.pop(ev[1], None)
            self.prev_log.pop(ev[1], None)
            self.incarnation[ev[1]] = self.incarnation.get(ev[1], 0) + 1
            self.pending_recovery = getattr(self, 'pending_recovery', set())
            if self.journaled and ev[1] in self.acked:
                self.pending_recovery.add(ev[1])
            self.restarted.add(ev[1])
        if nid is not None:
            prev_waiting = dict(self.waiting.get(nid, {}))
            self.scan_waiting(sim, nid)
            for rid, cb in prev_waiting.items():
                self.rid_of.setdefault(cb, (nid, rid))
        # callbacks (C02)
        self.note_callbacks(rec, sim)
        if nid is None or nid not in sim.nodes:
            return
        o = sim.nodes[nid]
        # C11 / C12: nothing escapes the tick or the message handler
        if sim.exc and k in ('tick', 'deliver') and not str(getattr(sim, 'exc_repr', '')).startswith('CallbackRefused'):
            empty = len(g(o, 'raftLog')) == 0
            if empty and self.kills:
                # a voter lost its memory earlier (C01-C04 are stated without that): committed entries were cut, the
                # compaction behind them emptied the log - kept apart like the safety records themselves
                self.after_memory_loss.append(('C11', 'exception with an empty log after a memory loss', self.step))
                empty = None
            if empty is not None:
              self.rec('C12' if sim.exc == 1 else 'C11',
                     'exception escaped %s of node %d: %s%s' % (k, nid, getattr(sim, 'exc_repr', sim.exc),
                                                                ' (its log is empty)' if empty else ''),
                     finding=('KF-C07-1' if (empty and 'kf_c07_1' in self.trigger) else
                              'KF-C08-1' if (empty and any(k.startswith('kf_c08_1') for k in self.trigger)) else None))
        if k == 'deliver':
            self.heard.setdefault(ev[2], {})[ev[1]] = ev[3]
        # C12: a committed command whose method raises is stepped over like any other
        if k == 'tick' and not sim.exc:
            ap, cm = g(o, 'raftLastApplied'), g(o, 'raftCommitIndex')
            nxt = self.entry_at(self.log_of(o), ap + 1)
            if cm > ap and nxt is not None:
                kind, a, b = sim.cid_of_command(nxt[0])
                if kind == 0 and sim.cmds.get(a, {}).get('raises'):
                    # a node whose journal lost acknowledged entries in a kill inside the head drop (KF-C08-1) comes back
                    # with a commit index beyond the end of its log: what it appends next is "committed" before the apply
                    # phase of the following tick has seen it - a symptom of that finding, not a wedged node
                    self.rec('C12', 'node %d does not get past position %d (commit index %d): the command there raises %s'
                             % (nid, ap + 1, cm, SIM.RAISED[a % len(SIM.RAISED)].__name__),
                             finding='KF-C08-1' if ('kf_c08_1:%d' % nid) in self.trigger else None)
        log = self.log_of(o)
        if any(log[i + 1][1] != log[i][1] + 1 for i in range(len(log) - 1)):
            # every check below addresses entries by position: a log that is not a run of consecutive positions (a damaged
            # journal handed back after a restart) is itself the violation
            key = ('nonconsecutive', nid, self.incarnation.get(nid, 0))
            if key not in self.stuck_reported:
                self.stuck_reported[key] = True
                self.rec('C06' if self.journaled else 'C04',
                         'node %d holds a log that is not a run of consecutive positions: %r' % (nid, [e[1] for e in log][:20]))
            return
        self.check_c06_c07(rec, sim, ev, nid, o)
        self.check_version(rec, sim, nid, o)
        self.check_waiters(rec, sim, nid, o)
        self.note_snapshot_taken(rec, sim, nid, o)
        self.check_c10(rec, sim, nid, o)
        self.check_c18_c20(rec, sim, ev, nid, o)
        commit, applied = g(o, 'raftCommitIndex'), g(o, 'raftLastApplied')
        pc, pa = self.prev.get(nid, (None, None))
        # C04: indices only advance while the node runs
        if pc is not None and commit < pc:
            self.rec('C04', 'node %d: commit index moved backwards %d -> %d' % (nid, pc, commit))
        if pa is not None and applied < pa:
            self.rec('C04', 'node %d: applied index moved backwards %d -> %d' % (nid, pa, applied))
        # C04: committed entries are majority-backed at the step the commit index advances and never change
        if pc is not None and commit > pc:
            self.stats['commits'] += 1
            for idx in range(pc + 1, commit + 1):
                e = self.entry_at(log, idx)
                if e is None:
                    continue
                if idx in self.committed and (self.committed[idx][1] != e[2] or self.committed[idx][0] != e[0]):
                    self.rec('C04', 'position %d reported committed with two different entries (terms %d and %d)'
                             % (idx, self.committed[idx][1], e[2]))
                first_report = idx not in self.committed
                self.committed.setdefault(idx, (e[0], e[2]))
                if first_report:
                    kind_, a_, b_ = sim.cid_of_command(e[0])
                    if kind_ == 2:
                        # operator discipline of C10: a member whose removal is committed is shut down (that kill loses
                        # nothing the cluster relies on); it may come back later as a fresh, empty process
                        if a_ == 1:
                            self.retired.discard(b_)
                        else:
                            self.retired.add(b_)
                            self.ever_removed.add(b_)
                self.committed_in_term.setdefault(idx, g(o, 'raftCurrentTerm'))
                # with dynamic membership only the first report of a position is held against the voters' logs:
                # members removed (and shut down) since then legitimately shrink the set of holders
                if not self.kills and nid < RO_BASE and (first_report or not rec.cfg.get('dyn')):
                    # the member set in force when the node decided: its set before or after this step
                    # (a step may append a membership entry after having advanced the commit index)
                    after = set(SIM.nid_of(x) for x in g(o, 'otherNodes')) | {nid}
                    ok_any = False
                    worst = None
                    for voters in (self.prev_members.get(nid, after), after):
                        holders = 0
                        for v in voters:
                            if v in sim.nodes or v in self.down_logs:
                                lv = self.log_of(sim.nodes[v]) if v in sim.nodes else self.down_logs[v]
                                ev_ = self.entry_at(lv, idx)
                                if (ev_ is not None and ev_[2] == e[2]) or (lv and lv[0][1] > idx):
                                    holders += 1
                        if 2 * holders > len(voters):
                            ok_any = True
                        else:
                            worst = (holders, len(voters))
                    if not ok_any:
                        self.rec('C04', 'node %d reports position %d committed while only %d of %d voters store the entry'
                                 % (nid, idx, worst[0], worst[1]))
        # C01: what was applied where
        if pa is not None and applied > pa:
            hist_expected_before = None
            for idx in range(pa + 1, applied + 1):
                e = self.entry_at(log, idx)
                if e is None:
                    continue        # covered by a snapshot install; checked through the history below
                self.stats['applies'] += 1
                if idx in self.cmd_at:
                    if self.cmd_at[idx] != e[0]:
                        self.rec('C01', 'position %d: node %d applied a different command than an earlier node' % (idx, nid))
                else:
                    self.cmd_at[idx] = e[0]
                    self.term_at[idx] = e[2]
                    kind, a, b = sim.cid_of_command(e[0])
                    if kind == 0:
                        if a in self.idx_of_cid and self.idx_of_cid[a] != idx:
                            self.rec('C02', 'command %d applied at two positions %d and %d' % (a, self.idx_of_cid[a], idx))
                        self.idx_of_cid.setdefault(a, idx)
                        if a in self.must_not_apply:
                            self.rec_c02(a, 'command %d reported %s but is applied at position %d'
                                         % (a, self.must_not_apply[a], idx))
        # C01: the object's state equals the execution of the applied prefix
        known = all(i in self.cmd_at for i in range(2, applied + 1))
        if known:
            exp = self.expected_history(sim, applied)
            if list(o.history) != exp:
                self.rec('C01', 'node %d: object state %r differs from executing positions 2..%d = %r'
                         % (nid, list(o.history)[-8:], applied, exp[-8:]))
        # C02: SUCCESS result equals the method's return value at that position
        for cb, res, err in sim.fired:
            if err == 0 and cb in self.idx_of_cid:
                idx = self.idx_of_cid[cb]
                kind, a, b = sim.cid_of_command(self.cmd_at[idx])
                if kind == 0 and not b:
                    exp = self.expected_history(sim, idx)
                    want = exp.index(cb) + 1 if cb in exp else None
                    if res != want:
                        self.rec_c02(cb, 'command %d acknowledged SUCCESS with result %r but executing position %d returns %r'
                                     % (cb, res, idx, want))
            elif err == 0 and cb not in self.idx_of_cid and isinstance(cb, int):
                # SUCCESS for a command that is applied nowhere (yet): the firing node applied it just now,
                # so it must be in cmd_at unless cb is an admin/version request
                if ('submit_cids' in rec.__dict__) and cb in rec.submit_cids:
                    self.rec_c02(cb, 'command %d acknowledged SUCCESS but it is not applied at any position' % cb)
        # C03: one leader per term; a new leader holds every committed entry
        for who, old, new in sim.roles:
            if new == 2:
                self.stats['elections'] += 1
                t = g(o, 'raftCurrentTerm')
                if t in self.leaders and self.leaders[t] != who:
                    self.rec('C03', 'term %d has two leaders: %d and %d' % (t, self.leaders[t], who))
                self.leaders.setdefault(t, who)
                if not self.kills:
                    for idx, (cmdb, tm) in self.committed.items():
                        if self.committed_in_term.get(idx, 0) >= t:
                            continue        # the property speaks of what was committed under leaders of EARLIER terms
                        e = self.entry_at(log, idx)
                        if e is None:
                            if log and idx < log[0][1]:
                                continue
                            self.rec('C03', 'node %d became leader of term %d without committed position %d' % (who, t, idx))
                        elif e[2] != tm or e[0] != cmdb:
                            self.rec('C03', 'node %d became leader of term %d holding a different entry at committed position %d'
                                     % (who, t, idx))
        # C04: log matching against every other node
        if nid < RO_BASE or True:
            for m, om in sim.nodes.items():
                if m == nid:
                    continue
                lm = self.log_of(om)
                if not lm or not log:
                    continue
                lo = max(lm[0][1], log[0][1])
                hi = min(lm[-1][1], log[-1][1])
                agree_from = None
                for idx in range(hi, lo - 1, -1):
                    a_, b_ = self.entry_at(log, idx), self.entry_at(lm, idx)
                    if a_ is None or b_ is None or a_[1] != idx or b_[1] != idx:
                        break              # the other node's log is not a run of consecutive positions (reported at its own step)
                    if agree_from is None:
                        if a_[2] == b_[2]:
                            agree_from = idx
                    if agree_from is not None and (a_[2] != b_[2] or a_[0] != b_[0]):
                        self.rec('C04', 'log matching: nodes %d and %d agree on (position %d, term) but differ at position %d'
                                 % (nid, m, agree_from, idx))
                        break
        self.last_logs[nid] = log
        self.prev[nid] = (commit, applied)
        self.prev_members[nid] = set(SIM.nid_of(x) for x in g(o, 'otherNodes')) | {nid}


    # ---- C10: membership ---------------------------------------------------------------------------
    def members_of(self, o):
        return set(SIM.nid_of(x) for x in g(o, 'otherNodes'))

    def note_snapshot_taken(self, rec, sim, nid, o):
        """known finding KF-C10-3: a voter that is not a member by the membership commands up to its applied position (a
        joiner whose own 'add' is not applied yet) takes a snapshot of that position; the member set written into it
        contains the node itself.  From the step a node starts such a snapshot the cluster-wide safety records of the
        trace are its symptoms."""
        if not rec.cfg.get('dyn') or nid >= RO_BASE:
            return
        ser = g(o, 'serializer')
        cur = getattr(ser, '_Serializer__currentID', None)
        key = (nid, self.incarnation.get(nid, 0))
        self.snap_ids = getattr(self, 'snap_ids', {})
        if key not in self.snap_ids:
            self.snap_ids[key] = cur           # first sight of this process: the initial value is not a snapshot
            return
        if cur is None or self.snap_ids.get(key) == cur:
            return
        self.snap_ids[key] = cur
        pos = cur + 1                      # the snapshot's position (the id is the entry before it)
        members = set(rec.cfg['voters'])
        for idx in sorted(self.committed):
            if idx <= pos:
                kind, a, b = sim.cid_of_command(self.committed[idx][0])
                if kind == 2:
                    if a == 1:
                        members.add(b)
                    else:
                        members.discard(b)
        if nid not in members and all(i in self.committed for i in range(2, pos + 1)):
            self.trigger.setdefault('kf_c10_3', self.step)

    def check_waiters(self, rec, sim, nid, o):
        """C19 ("each callback fires once"): a caller waiting on this node for a log position to be committed is told the
        outcome (SUCCESS, or DISCARDED when another term's entry took the position) - its registration never just
        disappears.  Read from the table of waiters before and after every step of the node."""
        cur = {}
        try:
            table = g(o, 'commandsWaitingCommit')
            for idx, v in list(table.items()):
                items = v if isinstance(v, list) else [v]
                for it in items:
                    cb = it[1] if isinstance(it, tuple) and len(it) == 2 else None
                    d = getattr(cb, '__defaults__', None)
                    if d and isinstance(d[0], int):
                        cur[d[0]] = idx
        except Exception:
            return
        key = (nid, self.incarnation.get(nid, 0))
        prev = self.waiters_seen.get(key, {})
        fired_now = set(cb for cb, _r, _e in sim.fired)
        for cbid, idx in prev.items():
            if cbid not in cur and cbid not in fired_now and cbid not in self.fired:
                self.rec('C19', 'node %d: the caller of command %d, waiting for position %d to be committed, was dropped from the '
                                'table of waiters without its callback being called' % (nid, cbid, idx))
        self.waiters_seen[key] = cur

    def check_version(self, rec, sim, nid, o):
        """C09 / C17: the enabled code version of a node is the one the VERSION commands of its applied prefix define -
        whether the prefix was executed from the log, restored from a dump file or installed from a snapshot"""
        applied = g(o, 'raftLastApplied')
        want = 0
        for idx in sorted(self.cmd_at):
            if idx > applied:
                break
            kind, a, b = sim.cid_of_command(self.cmd_at[idx])
            if kind == 3:
                want = a
        if applied > 1 and not all(i in self.cmd_at for i in range(2, applied + 1)):
            return                      # positions of the prefix this monitor never saw applied anywhere: no verdict
        have = g(o, 'enabledCodeVersion')
        if have != want:
            key = ('ver', nid, self.incarnation.get(nid, 0), applied)
            if key not in self.stuck_reported:
                self.stuck_reported[key] = True
                self.rec('C09', 'node %d has applied the log up to position %d, where the enabled code version is %d, but reports version %d'
                         % (nid, applied, want, have))
        # ... and a call made on the node now resolves to the implementation of that version: the name table follows the
        # enabled version also when the version arrived inside a dump or an installed snapshot
        if hasattr(type(o), 'vmark_v1') or hasattr(o, 'vmark'):
            try:
                name = o._getFuncName('vmark')
            except KeyError:
                name = None
            expect = 'vmark_v1' if have >= 1 else None
            if name != expect:
                key = ('vtable', nid, self.incarnation.get(nid, 0), applied)
                if key not in self.stuck_reported:
                    self.stuck_reported[key] = True
                    self.rec('C09', 'node %d (enabled code version %d, applied position %d): a call of the versioned method resolves to %r, '
                             'the implementation of that version is %r' % (nid, have, applied, name, expect))

    def note_configurations(self, rec, sim, log):
        """cfg_after[(index, term)] = the configuration defined by the membership commands up to that entry: the fold
        over the (by log matching unique) prefix, starting from the initial voters at entry (1, 0)"""
        if not self.cfg_after:
            self.cfg_after = {(1, 0): frozenset(rec.cfg['voters'])}
        prev = None
        for e in log:
            key = (e[1], e[2])
            if key not in self.cfg_after and prev is not None and prev in self.cfg_after:
                c = self.cfg_after[prev]
                kind, a, b = sim.cid_of_command(e[0])
                if kind == 2:
                    c = (c | {b}) if a == 1 else (c - {b})
                self.cfg_after[key] = c
            prev = key

    def check_c10(self, rec, sim, nid, o):
        if not rec.cfg.get('dyn') or nid >= RO_BASE:
            return
        log = self.log_of(o)
        actual = self.members_of(o)
        old = self.prev_log.get(nid)
        applied = g(o, 'raftLastApplied')
        if old is None or not log:
            self.shadow[nid] = set(actual)
            # a process started from a journal file: the membership entries it read from the journal take effect when
            # they are applied, entries appended later when they are appended
            self.replay_idx[nid] = log[-1][1] if (log and self.journaled and old is None) else 0
        else:
            # common prefix of the old and the new log (by index and term)
            new_by_idx = dict((e[1], e) for e in log)
            old_by_idx = dict((e[1], e) for e in old)
            # the head of the log is only ever dropped up to a position captured at an earlier step (<= the applied
            # index then): a first index above the previous applied index means a snapshot was installed
            wholesale = (log[0][1] > old[-1][1]) or (log[0][1] > self.prev.get(nid, (0, 0))[1] >= 1) or (g(o, 'raftLastApplied') > self.prev.get(nid, (0, 0))[1] and
                                                      self.entry_at(log, self.prev.get(nid, (0, 0))[1] + 1) is None
                                                      and g(o, 'raftLastApplied') > old[-1][1])
            if wholesale:
                self.shadow[nid] = set(actual)      # snapshot installed: the member set comes with it
                self.stats['snap_installs'] += 1
                # ... and must be the set defined by the membership commands up to the snapshot's position
                exp = set(rec.cfg['voters'])
                for idx in sorted(self.committed):
                    if idx <= applied:
                        kind, a, b = sim.cid_of_command(self.committed[idx][0])
                        if kind == 2:
                            if a == 1:
                                exp.add(b)
                            else:
                                exp.discard(b)
                for e in log:                       # entries kept behind the snapshot's position stay in force
                    if e[1] > applied:
                        kind, a, b = sim.cid_of_command(e[0])
                        if kind == 2:
                            if a == 1:
                                exp.add(b)
                            else:
                                exp.discard(b)
                exp.discard(nid)
                if exp != actual and all(i in self.committed for i in range(2, applied + 1)):
                    self.rec('C10', 'node %d installed a snapshot of position %d carrying the member set %r; the membership commands up to that position define %r'
                             % (nid, applied, sorted(actual), sorted(exp)))
            else:
                sh = self.shadow.get(nid, set(actual))
                self.note_configurations(rec, sim, old)
                self.note_configurations(rec, sim, log)
                gone = [e for e in old if e[1] not in new_by_idx or new_by_idx[e[1]][2] != e[2]]
                came = [e for e in log if e[1] not in old_by_idx or old_by_idx[e[1]][2] != e[2]]
                first_new = log[0][1]
                ri = self.replay_idx.get(nid, 0)
                if ri:
                    cut = [e[1] for e in gone if e[1] >= first_new]
                    if cut:
                        ri = self.replay_idx[nid] = min(ri, min(cut) - 1)
                    pa = self.prev.get(nid, (0, 0))[1]
                    for e in log:
                        if pa < e[1] <= applied and e[1] <= ri:
                            kind, a, b = sim.cid_of_command(e[0])
                            if kind == 2 and b != nid:
                                if a == 1:
                                    sh.add(b)
                                else:
                                    sh.discard(b)
                    gone = [e for e in gone if e[1] > ri or e[1] <= pa]
                    came = [e for e in came if e[1] > ri]
                for e in sorted(gone, key=lambda e: -e[1]):
                    if e[1] < first_new:
                        continue            # compacted away, not truncated
                    kind, a, b = sim.cid_of_command(e[0])
                    if kind == 2:
                        # a truncated membership entry is undone only if it had changed the configuration: whether it
                        # had is decided from the fold of the commands before it (independent of the implementation's
                        # own rollback rule, which undoes every logged entry)
                        pred = old_by_idx.get(e[1] - 1)
                        before = self.cfg_after.get((pred[1], pred[2])) if pred is not None else None
                        if before is not None and ((a == 1) == (b in before)):
                            continue
                        if a == 1:
                            sh.discard(b)
                        elif b != nid:
                            sh.add(b)
                for e in sorted(came, key=lambda e: e[1]):
                    kind, a, b = sim.cid_of_command(e[0])
                    if kind == 2 and b != nid:
                        if a == 1:
                            sh.add(b)
                        else:
                            sh.discard(b)
                    if kind == 2 and g(o, 'raftState') == 2 and e[2] == g(o, 'raftCurrentTerm'):
                        # the gate, at the leader that appended it
                        pend = [x for x in log if x[1] < e[1] and x[1] > applied and sim.cid_of_command(x[0])[0] == 2]
                        if pend:
                            self.rec('C10', 'leader %d accepted membership change at position %d while the change at position %d is not yet applied'
                                     % (nid, e[1], pend[0][1]))
                        # decided from the log, the term and the commit index alone (not from the implementation's own
                        # gate marker): some entry of the leader's term lies at or below its commit index
                        commit_ = g(o, 'raftCommitIndex')
                        if not any(x[2] == e[2] and x[1] <= commit_ for x in log if x[1] < e[1]):
                            self.rec('C10', 'leader %d accepted membership change at position %d before committing an entry of its own term %d (commit index %d)'
                                     % (nid, e[1], e[2], commit_))
                self.shadow[nid] = sh
                if sh != actual:
                    self.rec('C10', 'node %d: member set %r differs from the set defined by the membership commands in its log %r'
                             % (nid, sorted(actual), sorted(sh)))
                    self.shadow[nid] = set(actual)
        self.prev_log[nid] = log

    # ---- C18 / C20 -----------------------------------------------------------------------------------
    def check_c18_c20(self, rec, sim, ev, nid, o):
        role = g(o, 'raftState')
        if nid >= RO_BASE:
            if role != 0:
                self.rec('C18', 'read-only node %d has role %d' % (nid, role))
            for s_, d_, m in sim.sent:
                if m['type'] in ('request_vote', 'response_vote'):
                    self.rec('C18', 'read-only node %d sent %s' % (nid, m['type']))
            return
        for who, old, new in sim.roles:
            if new == 2:
                self.became_leader_at[nid] = sim.now
        others = self.members_of(o)
        seen = self.member_since.setdefault(nid, {})
        for x in others:
            seen.setdefault(x, sim.now)      # a voter the node learnt of just now cannot have been silent for long
        for x in list(seen):
            if x not in others:
                del seen[x]
        if ev[0] == 'tick' and role == 2:
            now = ev[2]
            fb = rec.cfg['fallback']
            base = self.became_leader_at.get(nid, now)
            verdicts = []
            # the member set the tick decided with: the one before the tick (a membership entry may be appended
            # later in the same tick) or the one after it
            before = self.prev_members.get(nid)
            for oth in ([others] if before is None else [others, set(before) - {nid}]):
                heard = 1
                for x in oth:
                    t = max(self.heard.get(nid, {}).get(x, -10 ** 9), base, seen.get(x, -10 ** 9))
                    if t > now - fb:
                        heard += 1
                verdicts.append((2 * heard > len(oth) + 1, heard, len(oth) + 1))
            if not any(v[0] for v in verdicts):
                self.rec('C20', 'node %d still leader at %s although it heard from only %d of %d voters within the fallback timeout %s'
                         % (nid, now, verdicts[0][1], verdicts[0][2], fb))
        # has-quorum indicator
        conn = set(sim.tr(nid).connected) & others
        want = 2 * (len(conn) + 1) > len(others) + 1
        try:
            hq = o.hasQuorum
        except Exception:
            hq = None
        if hq is not None and hq != want and set(SIM.nid_of(x) for x in g(o, 'connectedNodes')) & others == conn:
            self.rec('C20', 'node %d: hasQuorum is %r but it is connected to %d of %d other voters' % (nid, hq, len(conn), len(others)))
        # what the node REPORTS is what it is: _isLeader() and getStatus() are the indicators an application reads
        import pysyncobj.syncobj as S_
        saved = S_.monotonicTime
        S_.monotonicTime = lambda: 0          # getStatus reads the clock for 'uptime': not a read of the schedule
        try:
            st, il = o.getStatus(), o._isLeader()
        except Exception:
            st, il = None, None
        finally:
            S_.monotonicTime = saved
        if st is not None:
            if st.get('state') != role or il != (role == 2):
                self.rec('C20', 'node %d is in state %d but reports state %r / _isLeader() = %r' % (nid, role, st.get('state'), il))
            if hq is not None and st.get('has_quorum') != hq:
                self.rec('C20', 'node %d: getStatus reports has_quorum = %r, hasQuorum is %r' % (nid, st.get('has_quorum'), hq))


    def note_acks(self, sim, nid, o):
        """what the node acknowledged: success replies, and as leader everything it counted itself for"""
        log = self.log_of(o)
        ack = self.acked.setdefault(nid, {})
        for s_, d_, m in sim.sent:
            if s_ == nid and m['type'] == 'next_node_idx' and m['success']:
                upto = m['next_node_idx'] - 1
                for e in log:
                    if e[1] <= upto:
                        ack[e[1]] = e[2]
        if g(o, 'raftState') == 2:
            # a leader counts itself for what it has sent out or committed
            sent_upto = g(o, 'raftCommitIndex')
            for s_, d_, m in sim.sent:
                if s_ == nid and m['type'] == 'append_entries' and m.get('entries'):
                    sent_upto = max(sent_upto, m['entries'][-1][1])
            for e in log:
                if e[1] <= sent_upto:
                    ack[e[1]] = e[2]
        # entries that were overwritten or truncated by a later leader while the node runs are no longer owed
        # (whether such a truncation is legitimate is the business of the C01/C04 monitors)
        # (the entry that replaced it is owed only once the node acknowledges IT - a process that dies right after the
        # replacement, before its reply, owes neither)
        for e in log:
            if e[1] in ack and ack[e[1]] != e[2]:
                del ack[e[1]]
        if log and not getattr(self, 'in_recovery_step', False):
            for i in [i for i in ack if i > log[-1][1]]:
                del ack[i]

    # ---- C06 / C07: journaled nodes across restarts ----------------------------------------------------
    def check_c06_c07(self, rec, sim, ev, nid, o):
        if nid >= RO_BASE:
            return
        inc = self.incarnation.get(nid, 0)
        term = g(o, 'raftCurrentTerm')
        log = self.log_of(o)
        # votes: a response_vote sent, or a candidacy (vote for itself)
        grants = []
        for s_, d_, m in sim.sent:
            if m['type'] == 'response_vote':
                grants.append((m['term'], d_))
            if m['type'] == 'request_vote':
                grants.append((m['term'], nid))
        for t, cand in grants:
            key = (nid, t)
            if key in self.votes and self.votes[key][0] != cand:
                other, inc0 = self.votes[key]
                if inc0 != inc and self.journaled:
                    self.trigger.setdefault('kf_c07_1', self.step)
                    self.rec('C07', 'node %d granted its vote in term %d to %d and, after a restart, to %d' % (nid, t, other, cand),
                             finding='KF-C07-1')
                elif inc0 == inc:
                    self.rec('C07', 'node %d granted its vote in term %d to both %d and %d' % (nid, t, other, cand))
            self.votes.setdefault(key, (cand, inc))
        # terms: never follow a leader or candidate of an older term than one already acknowledged
        mt = self.max_term_seen.get(nid)
        if mt is not None and term < mt[0]:
            acted = [m['type'] for s_, d_, m in sim.sent if s_ == nid and
                     (m['type'] in ('response_vote', 'request_vote') or (m['type'] == 'next_node_idx' and m['success']))]
            if mt[1] != inc and self.journaled:
                if acted:
                    self.trigger.setdefault('kf_c07_1', self.step)
                    if not self.term_regress_reported.get((nid, inc)):
                        self.term_regress_reported[(nid, inc)] = True
                        self.rec('C07', 'node %d acts (%s) in term %d after a restart although it had acknowledged term %d'
                                 % (nid, acted[0], term, mt[0]), finding='KF-C07-2')
            elif mt[1] == inc:
                self.rec('C07', 'node %d: term moved backwards %d -> %d' % (nid, mt[0], term))
        if mt is None or term >= mt[0]:
            self.max_term_seen[nid] = (term, inc)
        self.max_term_ever[nid] = max(self.max_term_ever.get(nid, 0), term)
        if not self.journaled:
            return
        # the two steps in which a restarted node rebuilds itself from its files: the restart itself (journal read)
        # and its first tick (dump loaded, journal trimmed or cleared); truncations by a leader in between are legitimate
        pend = getattr(self, 'pending_recovery', set())
        self.in_recovery_step = nid in pend and ev[0] in ('restart', 'tick')
        self.note_acks(sim, nid, o)
        self.in_recovery_step = False
        ack = self.acked.setdefault(nid, {})
        # a node that can never apply again: its journal starts beyond the position it has to apply next
        if ev[0] == 'tick' and log and g(o, 'raftCommitIndex') > g(o, 'raftLastApplied') and \
                g(o, 'raftLastApplied') + 1 < log[0][1] and not self.stuck_reported.get((nid, inc)):
            self.stuck_reported[(nid, inc)] = True
            d18 = rec.cfg.get('journal') and not rec.cfg.get('dump')
            self.rec('C06', 'node %d cannot rebuild its state: applied index %d, journal starts at %d'
                     % (nid, g(o, 'raftLastApplied'), log[0][1]), finding='KF-C06-D18' if d18 else None)
        # C09: a dump file is always a complete old or new snapshot
        self.check_dump_file(rec, sim, nid)
        # recovery check: right after the restart (the first tick loads the dump and trims the journal)
        if nid in pend and ev[0] in ('restart', 'tick'):
            if ev[0] == 'tick':
                pend.discard(nid)
            base = log[0][1] if log else 0
            if ev[0] == 'restart':
                # before the dump is loaded (first tick): what the dump file covers is not owed by the journal
                base = max(base, self.dump_position(rec, sim, nid) + 1)
                # a dump that disagrees with the journal at its own position: an applied entry was overwritten later,
                # i.e. state-machine safety was already lost (after a restarted voter forgot its vote: KF-C07-1)
                d = self.dump_entries(rec, sim, nid)
                self.dump_conflict[nid] = bool(d) and any(
                    self.entry_at(log, x[1]) is not None and self.entry_at(log, x[1])[2] != x[2] for x in d)
            lost = [i for i, t in sorted(ack.items()) if i >= base and (self.entry_at(log, i) is None or self.entry_at(log, i)[2] != t)]
            if lost:
                last_kill = [x for x in self.kill_infos if x['node'] == nid]
                inside = bool(last_kill and last_kill[-1].get('in_delete_to'))
                # entries of a term older than one this node had acknowledged in an earlier incarnation were
                # accepted from an outdated leader (known finding KF-C07-2): they conflict with what the node's
                # dump holds and are not owed
                top = self.max_term_ever.get(nid, 0)
                stale = all(ack[i] < top for i in lost)
                # a node whose journal lost committed entries in an earlier head drop (KF-C08-1) keeps a commit index
                # beyond its log: what it "counts itself for" from then on is not on its disk
                damaged = ('kf_c08_1:%d' % nid) in self.trigger and bool(log) and g(o, 'raftCommitIndex') > log[-1][1]
                self.rec('C06', 'node %d restarted without acknowledged entries %r (journal now covers %d..%d)%s'
                         % (nid, lost[:6], base, log[-1][1] if log else 0,
                            ' after a kill inside the journal head drop' if inside else
                            ' (entries of a term older than term %d it had acknowledged before an earlier restart)' % top if stale else ''),
                         finding='KF-C08-1' if (inside or damaged) else
                         ('KF-C07-2' if ((stale or self.dump_conflict.get(nid)) and 'kf_c07_1' in self.trigger) else None))
                if inside:
                    self.trigger.setdefault('kf_c08_1_effect', self.step)
            for i in [i for i in ack if i > (log[-1][1] if log else 0)]:
                del ack[i]


    def dump_entries(self, rec, sim, nid):
        import os, gzip, pickle
        if rec.cfg.get('dump') != 'file' or sim.workdir is None or rec.cfg.get('custom'):
            return None
        try:
            with open(os.path.join(sim.workdir, 'dump_%d' % nid), 'rb') as f:
                with gzip.GzipFile(fileobj=f) as gz:
                    d = pickle.load(gz)
                    return d[2], d[1]
        except Exception:
            return None

    def dump_position(self, rec, sim, nid):
        d = self.dump_entries(rec, sim, nid)
        return d[1][1] if d else 0

    def check_dump_file(self, rec, sim, nid):
        import os, gzip, pickle
        if rec.cfg.get('dump') != 'file' or sim.workdir is None:
            return
        fn = os.path.join(sim.workdir, 'dump_%d' % nid)
        try:
            st = os.stat(fn)
        except OSError:
            return
        sig = (st.st_mtime_ns, st.st_size, st.st_ino)
        if self.dump_seen.get(nid) == sig:
            return
        self.dump_seen[nid] = sig
        try:
            with open(fn, 'rb') as f:
                if rec.cfg.get('custom'):
                    hist, data = pickle.load(f)
                    assert len(data) == 3
                else:
                    with gzip.GzipFile(fileobj=f) as gz:
                        data = pickle.load(gz)
                    assert len(data) == 4
        except Exception as e:
            self.rec('C09', 'dump file of node %d is not a complete snapshot (%s)' % (nid, type(e).__name__))
