"""Runtime monitors of the Raft-level properties on the real objects (the Python side of
DESIGN 3.4).  A Monitor is registered as a Recorder listener and inspects the simulation after
every event.  Each record is (property id, message, step index).  Monitors state what the property
text states and nothing more."""
from harness import sim as SIM
from harness.sim import RO_BASE

ERR_NEVER_APPLIED = {1: 'QUEUE_FULL', 2: 'MISSING_LEADER', 4: 'NOT_LEADER', 6: 'REQUEST_DENIED', 3: 'DISCARDED'}


def g(o, name):
    return getattr(o, '_SyncObj__' + name)


class Monitor(object):
    def __init__(self, static_voters=None):
        self.records = []
        self.step = -1
        self.cmd_at = {}            # idx -> command bytes applied there (first applier defines it)
        self.term_at = {}           # idx -> term of the applied entry
        self.idx_of_cid = {}        # cid -> idx
        self.committed = {}         # idx -> (command, term) of the entry some node reported committed
        self.prev = {}              # nid -> (commit, applied)
        self.leaders = {}           # term -> nid
        self.fired = {}             # cb -> [(res, err, step)]
        self.must_not_apply = {}    # cid -> reason
        self.success = {}           # cid -> result
        self.kills = 0              # memory loss events so far
        self.restarted = set()
        self.voters = set(static_voters or [])
        self.trigger = {}           # finding triggers seen: name -> first step
        self.stats = {'applies': 0, 'commits': 0, 'elections': 0, 'callbacks': 0, 'snap_installs': 0}

    def rec(self, prop, msg):
        self.records.append((prop, msg, self.step))

    # ---- helpers ------------------------------------------------------------------------
    def log_of(self, o):
        return g(o, 'raftLog')[:]

    def entry_at(self, log, idx):
        if not log:
            return None
        first = log[0][1]
        k = idx - first
        if 0 <= k < len(log):
            return log[k]
        return None

    def expected_history(self, sim, upto):
        out = []
        for idx in sorted(self.cmd_at):
            if idx > upto:
                break
            kind, a, b = sim.cid_of_command(self.cmd_at[idx])
            if kind == 0 and not b:
                out.append(a)
        return out

    # ---- the listener ---------------------------------------------------------------------
    def __call__(self, rec, ev, nid):
        self.step += 1
        sim = rec.sim
        k = ev[0]
        if k == 'kill':
            self.kills += 1
            self.prev.pop(ev[1], None)
            self.trigger.setdefault('memory_loss', self.step)
            return
        if k == 'restart':
            self.prev.pop(ev[1], None)
            if ev[1] in self.restarted or self.kills:
                self.trigger.setdefault('restart', self.step)
            self.restarted.add(ev[1])
        # callbacks (C02)
        for cb, res, err in sim.fired:
            self.stats['callbacks'] += 1
            self.fired.setdefault(cb, []).append((res, err, self.step))
            if len(self.fired[cb]) > 1:
                self.rec('C02', 'callback of command %d fired %d times: %r' % (cb, len(self.fired[cb]), self.fired[cb]))
            if err in ERR_NEVER_APPLIED:
                self.must_not_apply[cb] = ERR_NEVER_APPLIED[err]
                if cb in self.idx_of_cid:
                    self.rec('C02', 'command %d reported %s but is applied at position %d'
                             % (cb, ERR_NEVER_APPLIED[err], self.idx_of_cid[cb]))
            if err == 0:
                self.success[cb] = res
        if nid is None or nid not in sim.nodes:
            return
        o = sim.nodes[nid]
        log = self.log_of(o)
        commit, applied = g(o, 'raftCommitIndex'), g(o, 'raftLastApplied')
        pc, pa = self.prev.get(nid, (None, None))
        # C04: indices only advance while the node runs
        if pc is not None and commit < pc:
            self.rec('C04', 'node %d: commit index moved backwards %d -> %d' % (nid, pc, commit))
        if pa is not None and applied < pa:
            self.rec('C04', 'node %d: applied index moved backwards %d -> %d' % (nid, pa, applied))
        # C04: committed entries are majority-backed at the step the commit index advances and never change
        if pc is not None and commit > pc:
            self.stats['commits'] += 1
            for idx in range(pc + 1, commit + 1):
                e = self.entry_at(log, idx)
                if e is None:
                    continue
                if idx in self.committed and (self.committed[idx][1] != e[2] or self.committed[idx][0] != e[0]):
                    self.rec('C04', 'position %d reported committed with two different entries (terms %d and %d)'
                             % (idx, self.committed[idx][1], e[2]))
                self.committed.setdefault(idx, (e[0], e[2]))
                if not self.kills and nid < RO_BASE:
                    voters = set(SIM.nid_of(x) for x in g(o, 'otherNodes')) | {nid}
                    holders = 0
                    for v in voters:
                        if v in sim.nodes:
                            lv = self.log_of(sim.nodes[v])
                            ev_ = self.entry_at(lv, idx)
                            if (ev_ is not None and ev_[2] == e[2]) or (lv and lv[0][1] > idx):
                                holders += 1
                    if 2 * holders <= len(voters):
                        self.rec('C04', 'node %d reports position %d committed while only %d of %d voters store the entry'
                                 % (nid, idx, holders, len(voters)))
        # C01: what was applied where
        if pa is not None and applied > pa:
            hist_expected_before = None
            for idx in range(pa + 1, applied + 1):
                e = self.entry_at(log, idx)
                if e is None:
                    continue        # covered by a snapshot install; checked through the history below
                self.stats['applies'] += 1
                if idx in self.cmd_at:
                    if self.cmd_at[idx] != e[0]:
                        self.rec('C01', 'position %d: node %d applied a different command than an earlier node' % (idx, nid))
                else:
                    self.cmd_at[idx] = e[0]
                    self.term_at[idx] = e[2]
                    kind, a, b = sim.cid_of_command(e[0])
                    if kind == 0:
                        if a in self.idx_of_cid and self.idx_of_cid[a] != idx:
                            self.rec('C02', 'command %d applied at two positions %d and %d' % (a, self.idx_of_cid[a], idx))
                        self.idx_of_cid.setdefault(a, idx)
                        if a in self.must_not_apply:
                            self.rec('C02', 'command %d reported %s but is applied at position %d'
                                     % (a, self.must_not_apply[a], idx))
        # C01: the object's state equals the execution of the applied prefix
        known = all(i in self.cmd_at for i in range(2, applied + 1))
        if known:
            exp = self.expected_history(sim, applied)
            if list(o.history) != exp:
                self.rec('C01', 'node %d: object state %r differs from executing positions 2..%d = %r'
                         % (nid, list(o.history)[-8:], applied, exp[-8:]))
        # C02: SUCCESS result equals the method's return value at that position
        for cb, res, err in sim.fired:
            if err == 0 and cb in self.idx_of_cid:
                idx = self.idx_of_cid[cb]
                kind, a, b = sim.cid_of_command(self.cmd_at[idx])
                if kind == 0 and not b:
                    exp = self.expected_history(sim, idx)
                    want = exp.index(cb) + 1 if cb in exp else None
                    if res != want:
                        self.rec('C02', 'command %d acknowledged SUCCESS with result %r but executing position %d returns %r'
                                 % (cb, res, idx, want))
            elif err == 0 and cb not in self.idx_of_cid and isinstance(cb, int):
                # SUCCESS for a command that is applied nowhere (yet): the firing node applied it just now,
                # so it must be in cmd_at unless cb is an admin/version request
                if ('submit_cids' in rec.__dict__) and cb in rec.submit_cids:
                    self.rec('C02', 'command %d acknowledged SUCCESS but it is not applied at any position' % cb)
        # C03: one leader per term; a new leader holds every committed entry
        for who, old, new in sim.roles:
            if new == 2:
                self.stats['elections'] += 1
                t = g(o, 'raftCurrentTerm')
                if t in self.leaders and self.leaders[t] != who:
                    self.rec('C03', 'term %d has two leaders: %d and %d' % (t, self.leaders[t], who))
                self.leaders.setdefault(t, who)
                if not self.kills:
                    for idx, (cmdb, tm) in self.committed.items():
                        e = self.entry_at(log, idx)
                        if e is None:
                            if log and idx < log[0][1]:
                                continue
                            self.rec('C03', 'node %d became leader of term %d without committed position %d' % (who, t, idx))
                        elif e[2] != tm or e[0] != cmdb:
                            self.rec('C03', 'node %d became leader of term %d holding a different entry at committed position %d'
                                     % (who, t, idx))
        # C04: log matching against every other node
        if nid < RO_BASE or True:
            for m, om in sim.nodes.items():
                if m == nid:
                    continue
                lm = self.log_of(om)
                if not lm or not log:
                    continue
                lo = max(lm[0][1], log[0][1])
                hi = min(lm[-1][1], log[-1][1])
                agree_from = None
                for idx in range(hi, lo - 1, -1):
                    a_, b_ = self.entry_at(log, idx), self.entry_at(lm, idx)
                    if agree_from is None:
                        if a_[2] == b_[2]:
                            agree_from = idx
                    if agree_from is not None and (a_[2] != b_[2] or a_[0] != b_[0]):
                        self.rec('C04', 'log matching: nodes %d and %d agree on (position %d, term) but differ at position %d'
                                 % (nid, m, agree_from, idx))
                        break
        self.prev[nid] = (commit, applied)
