"""Implementation side of the C11 correspondence (model: coq/Chunking/Model.v).

Real SyncObj objects run under harness/sim.py (virtual time, fake transport).  This file adds

* ArgApp      - a SyncObj subclass with one replicated method taking *args/**kwargs that records
                what it was executed with;
* SendHook    - class-level wrapper around __sendAppendEntries that records, per call and per
                follower, (log length, nextIndex before, messages sent, nextIndex after): one model
                case of `check_send` each;
* CSim        - Sim + per-channel message descriptors, so that every delivered 'transmission' piece
                can be observed on the receiver (outcome, buffer length): model cases of `check_recv`;
* Cluster     - start / elect / submit / run-until-applied driver and the C11 monitor;
* job runners - `run_e2e_job`, `run_pure_job` (picklable specs in, Coq text + statistics out).

Nothing here edits /repo or harness/sim.py.
"""
import os
import random
import sys
from collections import deque

from harness import sim as SIM
from harness.sim import Sim, SimMixin, SimTransport, nid_of, addr

import pysyncobj.pickle as P                       # noqa: E402  (sim put /repo on sys.path)
from pysyncobj import SyncObj, replicated          # noqa: E402
from pysyncobj.node import TCPNode                 # noqa: E402

RESERVED = ('callback', 'sync', 'timeout', '_doApply')
BIG_BUDGET = 10 ** 9
LABELS = {'start': 1, 'process': 2, 'finish': 3}


# ---------------------------------------------------------------------------------------
# the replicated object

class SendHook(object):
    """records every call of __sendAppendEntries (in front of sim.SimMixin in the MRO)"""

    def _SyncObj__sendAppendEntries(self):
        sim = SimTransport.sim
        rec = getattr(sim, 'c11', None)
        if rec is None:
            return SimMixin._SyncObj__sendAppendEntries(self)
        pre = rec.before_send(self)
        ok = False
        try:
            SimMixin._SyncObj__sendAppendEntries(self)
            ok = True
        finally:
            rec.after_send(self, pre, ok)


class ArgApp(SendHook, SimMixin, SyncObj):
    def __init__(self, *a, **k):
        super(ArgApp, self).__init__(*a, **k)
        self.calls = []          # (args, kwargs) of every execution, in order

    @replicated
    def call(self, *args, **kwargs):
        self.calls.append((args, kwargs))
        return len(self.calls)


def g(obj, name):
    return getattr(obj, '_SyncObj__' + name)


def enc_prev(m):
    if m['prevLogIdx'] is None:
        return [0, 0]
    return [m['prevLogIdx'] + 1, m['prevLogTerm'] + 1]


def enc_ae(m):
    """canonical form of an append_entries message = Model.enc_wire"""
    if 'prevLogIdx' not in m:
        return [5]
    if m.get('transmission') is not None:
        return [4] + enc_prev(m) + [LABELS.get(m['transmission'], 9), len(m['data'])]
    return [3] + enc_prev(m) + [len(m['entries'])] + [e[1] for e in m['entries']]


def rle(obs):
    out = []
    for o in obs:
        if out and out[-1][0] == o:
            out[-1][1] += 1
        else:
            out.append([o, 1])
    return out


class Recorder(object):
    def __init__(self, sim):
        self.sim = sim
        self.sends = []        # model cases of check_send
        self.groups = []       # finished receiver groups: model cases of check_recv
        self.open = {}         # (a, b) -> current group
        self.enabled = True

    # ---- sender ----
    def before_send(self, obj):
        log = g(obj, 'raftLog')
        return {'nid': nid_of(g(obj, 'selfNode')), 'k': len(log),
                'next': dict((nid_of(n), v) for n, v in g(obj, 'raftNextIndex').items()),
                'conn': set(nid_of(n) for n in g(obj, 'connectedNodes')),
                'sent0': len(self.sim.sent)}

    def after_send(self, obj, pre, ok):
        if not self.enabled:
            return
        msgs = self.sim.sent[pre['sent0']:]
        post = dict((nid_of(n), v) for n, v in g(obj, 'raftNextIndex').items())
        for dst in sorted(pre['next']):
            if dst not in pre['conn']:
                continue
            obs = [enc_ae(m) for (s, d, m) in msgs if d == dst and s == pre['nid'] and m['type'] == 'append_entries']
            self.sends.append({'src': pre['nid'], 'dst': dst, 'k': pre['k'], 'next': pre['next'][dst],
                               'obs': rle(obs), 'n_msgs': len(obs), 'next_after': post.get(dst), 'ok': ok})

    # ---- receiver ----
    def on_piece(self, a, b, desc, outcome, buflen):
        key = (a, b)
        lab, n = desc[1], desc[2]
        grp = self.open.get(key)
        if grp is None or lab == 1:
            if grp is not None:
                self.groups.append(grp)
            grp = {'a': a, 'b': b, 'msgs': [], 'exp': [], 'buf0': None}
            self.open[key] = grp
        grp['msgs'].append([lab, n])
        grp['exp'].append([outcome, buflen])

    def on_other(self, a, b):
        grp = self.open.pop((a, b), None)
        if grp is not None:
            self.groups.append(grp)

    def close(self):
        for k in list(self.open):
            self.on_other(*k)


class CSim(Sim):
    """Sim + a descriptor per queued message (kept in step with sim.chan)."""

    def __init__(self, cfg, workdir=None):
        super(CSim, self).__init__(cfg, workdir)
        self.meta = {}
        self.App = ArgApp
        self.c11 = Recorder(self)

    def on_send(self, src, dst, msg):
        super(CSim, self).on_send(src, dst, msg)
        if msg['type'] == 'append_entries' and msg.get('transmission') is not None:
            d = ('piece', LABELS.get(msg['transmission'], 9), len(msg['data']))
        else:
            d = (msg['type'],)
        self.meta.setdefault((src, dst), deque()).append(d)

    def on_drop_node(self, a, x):
        super(CSim, self).on_drop_node(a, x)
        self.meta.setdefault((x, a), deque()).clear()


class HarnessError(Exception):
    pass


# ---------------------------------------------------------------------------------------
# cluster driver + monitor

class Cluster(object):
    def __init__(self, cfg, workdir=None):
        self.cfg = dict(cfg)
        self.nids = list(cfg['voters'])
        if workdir is not None:
            os.makedirs(workdir, exist_ok=True)
        self.sim = CSim(cfg, workdir)
        self.rec = self.sim.c11
        self.t = 0.0
        self.problems = []       # monitor records (strings)
        self.events = 0
        self.submitted = []      # (args, kwargs) in submission order
        for n in self.nids:
            self.sim.start(n, [x for x in self.nids if x != n], 0, 0.0)
        for a in self.nids:
            for b in self.nids:
                if a != b:
                    self._ev(('connect', a, b), 'connect')
        self.leader = None
        self._elect()

    # ---- events, each followed by the "no exception escaped" monitor ----
    def _ev(self, ev, what):
        self.sim.apply(ev)
        self.events += 1
        if self.sim.exc:
            self.problems.append('exception escaped %s: %s' % (what, getattr(self.sim, 'exc_repr', self.sim.exc)))
            return False
        return True

    def tick(self, n):
        return self._ev(('tick', n, self.t, 1 + 7 * n, BIG_BUDGET), 'doTick of node %d' % n)

    def deliver(self, a, b):
        meta = self.sim.meta.get((a, b))
        desc = meta.popleft() if meta else ('?',)
        node = self.sim.nodes[b]
        ok = self._ev(('deliver', a, b, self.t, 3), 'the %s handler of node %d' % (desc[0], b))
        if desc[0] == 'piece':
            buf = g(node, 'recvTransmission')
            buflen = 0 if isinstance(buf, str) and buf == '' else len(buf) + 1
            if not ok:
                outcome = 2
            elif buflen == 0:
                outcome = 1
            else:
                outcome = 0
            self.rec.on_piece(a, b, desc, outcome, buflen)
        elif desc[0] == 'append_entries':
            self.rec.on_other(a, b)
        return ok

    def deliver_all(self, limit=10 ** 7):
        moved = True
        n = 0
        while moved:
            moved = False
            for (a, b) in sorted(self.sim.chan):
                q = self.sim.chan[(a, b)]
                while q:
                    self.deliver(a, b)
                    moved = True
                    n += 1
                    if n > limit:
                        raise HarnessError('delivery does not quiesce')

    def _elect(self):
        period = self.cfg['period']
        for _ in range(60):
            self.t += period + 1
            for n in self.nids:
                self.tick(n)
            self.deliver_all()
            leaders = [n for n in self.nids if self.sim.nodes[n]._isLeader()]
            if len(leaders) == 1 and all(self.sim.nodes[n].isReady() for n in self.nids):
                ld = self.sim.nodes[leaders[0]]
                if all(g(ld, 'raftMatchIndex')[k] >= g(ld, 'raftLog')[-1][1] for k in g(ld, 'raftMatchIndex')):
                    self.leader = leaders[0]
                    self.term = g(ld, 'raftCurrentTerm')
                    return
        raise HarnessError('no stable leader after 60 rounds')

    def submit(self, args, kwargs, extra=None):
        """replicated call on the leader; `extra` are reserved keyword arguments (timeout= / sync=False)"""
        self.sim.begin()
        self.sim.step_nid = self.leader
        self.events += 1
        kw = dict(kwargs)
        kw.update(extra or {})
        try:
            self.sim.nodes[self.leader].call(*args, **kw)
        except Exception as e:
            self.problems.append('exception escaped the replicated call: %r' % (e,))
        self.submitted.append((tuple(args), dict(kwargs)))

    def run_until_applied(self, max_iters=40):
        period = self.cfg['period']
        want = len(self.submitted)
        for _ in range(max_iters):
            self.t += period + 1
            self.tick(self.leader)
            self.deliver_all()
            for n in self.nids:
                if n != self.leader:
                    self.tick(n)
            self.deliver_all()
            if all(len(self.sim.nodes[n].calls) >= want for n in self.nids):
                return True
        return False

    # ---- the property, on the implementation ----
    def check_applied(self):
        """every replica executed every submitted call exactly once with equal arguments"""
        bad = []
        for n in self.nids:
            calls = self.sim.nodes[n].calls
            if calls == self.submitted:
                continue
            # not equal as sequences: decide whether it is the C11 statement that fails
            rest = list(calls)
            missing = []
            for s in self.submitted:
                for i, c in enumerate(rest):
                    if c == s:
                        del rest[i]
                        break
                else:
                    missing.append(s)
            if missing or rest:
                bad.append('node %d: %d submitted call(s) not executed with equal arguments, %d execution(s) not '
                           'matching any submitted call (submitted %d, executed %d); first missing: %s'
                           % (n, len(missing), len(rest), len(self.submitted), len(calls),
                              short(missing[0]) if missing else '-'))
            else:
                bad.append('node %d: executed the submitted calls in a different order' % n)
        return bad

    def stable(self):
        ld = self.sim.nodes[self.leader]
        return ld._isLeader() and g(ld, 'raftCurrentTerm') == self.term

    def leader_log(self):
        return g(self.sim.nodes[self.leader], 'raftLog')[:]

    def journal_reread(self):
        """file journals: what a fresh FileJournal reads back from disk equals the node's log"""
        from pysyncobj.journal import FileJournal
        bad = []
        if self.cfg.get('journal') != 'file':
            return bad
        for n in self.nids:
            node = self.sim.nodes[n]
            log = g(node, 'raftLog')
            mem = log[:]
            try:
                log.flush()
                j = FileJournal(os.path.join(self.sim.workdir, 'journal_%d' % n))
                disk = j[:]
                j._destroy()
            except Exception as e:
                bad.append('node %d: re-reading the journal file raised %r' % (n, e))
                continue
            if [tuple(x) for x in disk] != [tuple(x) for x in mem]:
                bad.append('node %d: journal file holds %d entries differing from the %d in memory' % (n, len(disk), len(mem)))
        return bad

    def destroy(self):
        for n in list(self.sim.nodes):
            try:
                self.sim.kill(n)
            except Exception:
                pass
        Sim.uninstall()


def short(x):
    s = repr(x)
    return s if len(s) < 200 else s[:100] + '...' + s[-60:] + ' (%d chars)' % len(s)


# ---------------------------------------------------------------------------------------
# argument generators (specs are JSON-serialisable; the arguments are a function of the spec)

def cmd_len_of(args, kwargs, reserved, fid=0):
    if kwargs or reserved:
        c = (fid, tuple(args), dict(kwargs))
    elif args:
        c = (fid, tuple(args))
    else:
        c = fid
    return 1 + len(P.dumps(c))


def pad_args(kind, n):
    if kind == 'str':
        return ('x' * n,)
    if kind == 'bytes':
        return (b'x' * n,)
    if kind == 'two':
        return ('x' * (n // 2), b'y' * (n - n // 2))
    raise ValueError(kind)


_OVH = {}


def pad_for_cmd_len(kind, want, fid=0):
    """pad length n such that the command of call(<pad of n>) has exactly `want` bytes, or None"""
    key = (kind, fid)
    if key not in _OVH:
        _OVH[key] = cmd_len_of(pad_args(kind, 0), {}, False, fid)
    n = want - _OVH[key]
    for _ in range(6):
        if n < 0:
            return None
        got = cmd_len_of(pad_args(kind, n), {}, False, fid)
        if got == want:
            return n
        n += want - got
    return None


def gen_value(rng, depth, scale):
    r = rng.random()
    if depth <= 0 or r < 0.55:
        k = rng.randrange(9)
        if k == 0:
            return None
        if k == 1:
            return rng.choice([0, 1, -1, 255, 256, 65535, 65536, 2 ** 31, -2 ** 31, 2 ** 63, 2 ** 70, rng.randrange(10 ** 6)])
        if k == 2:
            return rng.choice([True, False])
        if k == 3:
            return rng.choice([0.0, 1.5, -2.25, 1e300, float('inf')])
        if k == 4:
            return 'x' * rng.randrange(scale + 1)
        if k == 5:
            return bytes(rng.randrange(256) for _ in range(rng.randrange(min(scale, 600) + 1)))
        if k == 6:
            return b'z' * rng.randrange(scale + 1)
        if k == 7:
            return rng.choice(['', b'', (), [], {}, u'é中', '\x00'])
        return ''.join(rng.choice('abü€') for _ in range(rng.randrange(12)))
    if r < 0.7:
        return [gen_value(rng, depth - 1, scale // 2) for _ in range(rng.randrange(4))]
    if r < 0.8:
        return tuple(gen_value(rng, depth - 1, scale // 2) for _ in range(rng.randrange(4)))
    if r < 0.95:
        return dict((rng.choice([rng.randrange(5), 'k%d' % rng.randrange(5), b'b%d' % rng.randrange(3)]),
                     gen_value(rng, depth - 1, scale // 2)) for _ in range(rng.randrange(4)))
    return frozenset(rng.randrange(10) for _ in range(rng.randrange(4)))


def gen_shape(seed, scale):
    """random (args, kwargs, extra): empty args, kwargs only, nested values, several arguments"""
    rng = random.Random(seed)
    r = rng.random()
    extra = {}
    if rng.random() < 0.15:
        extra = rng.choice([{'timeout': 5}, {'sync': False}, {'timeout': None, 'sync': False}])
    if r < 0.08:
        return (), {}, extra
    n_args = 0 if r < 0.25 else rng.randrange(1, 5)
    n_kw = rng.randrange(1, 4) if (r < 0.25 or rng.random() < 0.4) else 0
    args = tuple(gen_value(rng, 3, scale) for _ in range(n_args))
    names = rng.sample(['a', 'b', 'key', 'value', 'x1', 'pad', 'data', 'self_', 'args', 'kwargs'], n_kw)
    kwargs = dict((k, gen_value(rng, 3, scale)) for k in names)
    return args, kwargs, extra


def expand(spec):
    """spec -> (args, kwargs, extra, wanted command length or None)"""
    kind = spec[0]
    if kind == 'pad':            # ['pad', kind, n, want]
        return pad_args(spec[1], spec[2]), {}, {}, spec[3]
    if kind == 'shape':          # ['shape', seed, scale]
        a, k, e = gen_shape(spec[1], spec[2])
        return a, k, e, None
    if kind == 'none':
        return (), {}, {}, None
    raise ValueError(spec)


# ---------------------------------------------------------------------------------------
# Coq text

def vz(n):
    return '(%d)' % n if n < 0 else '%d' % n


def v_obs(obs):
    return '[' + '; '.join('([%s], %d)' % ('; '.join(vz(x) for x in o), n) for o, n in obs) + ']'


def v_entry(e, psize):
    return 'mkE %d %d %d %d %d' % (e[1], len(e[0]), psize, e[1], e[2])


def v_log(name, log, psizes):
    return 'Definition %s : list entry := [%s].\n' % (name, ';\n  '.join(v_entry(e, p) for e, p in zip(log, psizes)))


def v_send_cases(cases):
    return '[' + ';\n  '.join('(%d, %s, %s)' % (c['k'], vz(c['next']),
                                                v_obs(c['obs'] + [[[c['next_after'], 1], 1]])) for c in cases) + ']'


def runs_msgs(msgs):
    out = []
    for lab, n in msgs:
        if out and out[-1][0] == lab and out[-1][1] == n:
            out[-1][2] += 1
        else:
            out.append([lab, n, 1])
    return out


def runs_exp(exp):
    """[outcome, buflen] list -> arithmetic progressions [outcome, first, step, count]"""
    out = []
    for o, b in exp:
        if out:
            r = out[-1]
            if r[0] == o and r[3] == 1:
                r[2] = b - r[1]
                r[3] = 2
                continue
            if r[0] == o and r[1] + r[2] * r[3] == b:
                r[3] += 1
                continue
        out.append([o, b, 0, 1])
    return out


def v_recv_case(grp):
    good = sum(m[1] for m in grp['msgs'])
    if 'good' in grp:
        good = grp['good']
    msgs = '[' + '; '.join('(%d, %d, %d)' % tuple(m) for m in runs_msgs(grp['msgs'])) + ']'
    exp = '[' + '; '.join('(%d, %d, %s, %d)' % (e[0], e[1], vz(e[2]), e[3]) for e in runs_exp(grp['exp'])) + ']'
    return '(check_recv_c %s %s %s)' % (vz(good), msgs, exp)


def shape_code(command):
    obj = P.loads(command[1:])
    if not isinstance(obj, tuple):
        return 0
    return 1 if len(obj) == 2 else 2


# ---------------------------------------------------------------------------------------
# jobs (run in forked workers)

def run_e2e_job(job):
    """job: {'id', 'cfg', 'rounds': [[spec, ...], ...]} -> result dict (picklable, small)"""
    import traceback
    out = {'id': job['id'], 'cfg': job['cfg'], 'problems': [], 'cases': 0}
    try:
        return _run_e2e_job(job, out)
    except Exception:
        out['crash'] = traceback.format_exc()
        try:
            Sim.uninstall()
        except Exception:
            pass
        return out


def _run_e2e_job(job, out):
    cfg = job['cfg']
    wd = job.get('workdir')
    cl = Cluster(cfg, wd)
    B = cfg['batch']
    n_calls = 0
    exact = 0
    dist = {}
    pack_cases = []
    failing_round = None
    for ri, rnd in enumerate(job['rounds']):
        wants = []
        for spec in rnd:
            args, kwargs, extra, want = expand(spec)
            cl.submit(args, kwargs, extra)
            wants.append((want, len(args), len(kwargs), bool(extra)))
            n_calls += 1
        done = cl.run_until_applied()
        probs = list(cl.problems)
        if not done:
            probs.append('round %d: not every replica applied the %d submitted call(s) within 40 send periods '
                         '(executed: %s)' % (ri, len(cl.submitted),
                                             dict((n, len(cl.sim.nodes[n].calls)) for n in cl.nids)))
        probs += cl.check_applied() if (done or not cl.problems) else []
        if probs:
            failing_round = ri
            out['problems'] = probs[:5]
            break
        # bookkeeping on the entries just appended
        log = cl.leader_log()
        new = log[len(log) - len(rnd):]
        for (want, na, nk, rsv), e in zip(wants, new):
            if want is not None and len(e[0]) == want:
                exact += 1
            pack_cases.append((na, nk, rsv, shape_code(e[0])))
    out['failing_round'] = failing_round
    if not cl.stable():
        out['crash'] = 'harness: leadership changed during the run (term %r)' % (cl.term,)
    if failing_round is None:
        jr = cl.journal_reread()
        if jr:
            out['problems'] = jr[:5]
    cl.rec.close()
    log = cl.leader_log()
    psizes = [len(P.dumps(e)) for e in log]
    sends = []
    n_hb = 0
    for s in cl.rec.sends:
        if s['src'] != cl.leader:
            continue
        if s['n_msgs'] == 1 and s['obs'][0][0][0] == 3 and s['obs'][0][0][3] == 0:
            n_hb += 1
            if n_hb > 8:          # heartbeats are all alike: a few per run are enough
                continue
        sends.append(s)
    groups = cl.rec.groups
    name = 'log_%s' % job['id']
    defs = v_log(name, log, psizes)
    evals = ['(check_run %d %s %s)' % (B, name, v_send_cases(sends)),
             '([%s] : list (option Z))' % '; '.join(v_recv_case(grp) for grp in groups),
             '([%s] : list bool)' % '; '.join('check_pack %d %d %s %d' % (na, nk, 'true' if rsv else 'false', sc)
                                               for na, nk, rsv, sc in pack_cases)]
    chunked = sum(1 for e in log if len(e[0]) >= B)
    for s in sends:
        kinds = set(o[0][0] for o in s['obs'])
        key = 'send_heartbeat' if s['n_msgs'] == 1 and s['obs'][0][0][0] == 3 and s['obs'][0][0][3] == 0 else \
              ('send_pieces' if 4 in kinds else 'send_entries')
        dist[key] = dist.get(key, 0) + 1
        if any(o[0][0] == 3 and o[0][3] > 1 for o in s['obs']):
            dist['send_multi_entry_batch'] = dist.get('send_multi_entry_batch', 0) + 1
    dist['calls'] = n_calls
    dist['calls_exact_target_size'] = exact
    dist['recv_groups'] = len(groups)
    dist['pieces'] = sum(len(x['msgs']) for x in groups)
    dist['entries_ge_B'] = chunked
    out.update({'defs': defs, 'evals': evals, 'n_send': len(sends), 'n_recv': len(groups), 'n_pack': len(pack_cases),
                'steps': cl.events, 'dist': dist, 'n_calls': n_calls,
                'nontrivial': sum(1 for s in sends if s['n_msgs'] > 0 and not (s['n_msgs'] == 1 and s['obs'][0][0][0] == 3 and s['obs'][0][0][3] == 0)) + len(groups),
                'sample': {'sends': sends[-3:], 'groups': [dict(grp) for grp in groups[-1:]]}})
    cl.destroy()
    return out


# ---- pure correspondence: private methods of a real leader / follower on crafted logs ----------

def craft_log(node, first, sizes, terms):
    log = g(node, 'raftLog')
    log.clear()
    for i, (n, t) in enumerate(zip(sizes, terms)):
        log.add(b'\x01' * n, first + i, t)
    return log[:]


def run_pure_job(job):
    import traceback
    out = {'id': job['id'], 'problems': [], 'cfg': job['cfg']}
    try:
        return _run_pure_job(job, out)
    except Exception:
        out['crash'] = traceback.format_exc()
        try:
            Sim.uninstall()
        except Exception:
            pass
        return out


def _run_pure_job(job, out):
    """job: {'id', 'cfg', 'seed', 'n'}: random logs; __getEntries, __sendAppendEntries and the
    transmission branch of __onMessageReceived called directly."""
    rng = random.Random(job['seed'])
    cfg = job['cfg']
    B = cfg['batch']
    cl = Cluster(cfg, job.get('workdir'))
    ld = cl.sim.nodes[cl.leader]
    fo_nid = [n for n in cl.nids if n != cl.leader][0]
    fo = cl.sim.nodes[fo_nid]
    fo_node = [n for n in g(ld, 'raftNextIndex') if nid_of(n) == fo_nid][0]
    defs, calls = [], []
    dist = {}
    steps = 0
    n_get = n_send = n_recv = 0
    for ci in range(job['n']):
        # ---- a log of entries whose command sizes straddle B ----
        n = rng.choice([1, 1, 2, 3, 4, 6, 9, 14])
        first = rng.choice([1, 1, 2, 5, 40])
        sizes = []
        for _ in range(n):
            r = rng.random()
            if r < 0.35:
                sizes.append(max(1, rng.randrange(1, max(2, B // 2 + 2))))
            elif r < 0.7:
                sizes.append(max(1, rng.choice([B - 1, B, B + 1, B // 2, B // 3 + 1, 2 * B - 1, 2 * B, 2 * B + 1, 3 * B])))
            else:
                sizes.append(max(1, B + rng.randrange(-70, 71)))
        sizes = [min(s, 300000) for s in sizes]
        terms = sorted(rng.randrange(1, 4) for _ in range(n))
        cl.rec.enabled = False
        log = craft_log(ld, first, sizes, terms)
        psizes = [len(P.dumps(e)) for e in log]
        name = 'pl_%s_%d' % (job['id'], ci)
        defs.append(v_log(name, log, psizes))
        last = first + n - 1
        # ---- __getEntries ----
        for _ in range(6):
            frm = rng.choice([None, first - 1, first - 3, first, last, last + 1, last + 5, rng.randint(first, last)])
            cnt = rng.choice([None, None, 0, 1, 2, 3, n, n + 3, -1])
            mx = rng.choice([None, 1, B, B, B // 2 + 1, 2 * B, sum(sizes), sum(sizes) + 1, max(1, rng.randrange(1, 3 * B + 2))])
            got = ld._SyncObj__getEntries(frm, cnt, mx)
            steps += 1
            n_get += 1
            vo = lambda x: 'None' if x is None else '(Some %s)' % vz(x)
            calls.append('(if check_get %s %s %s %s [%s] then None else Some 0)' % (
                name, vo(frm), vo(cnt), vo(mx), '; '.join('%d' % e[1] for e in got)))
            k = 'get_%s_%s' % ('nofrom' if frm is None else ('below' if frm < first else ('beyond' if frm > last else 'in')),
                               'nolimit' if mx is None else 'limit')
            dist[k] = dist.get(k, 0) + 1
        # ---- __sendAppendEntries for the follower ----
        for _ in range(3):
            nxt = rng.choice([first + 1, last, last + 1, last + 2, rng.randint(first + 1, last + 1)])
            if nxt <= first:
                continue
            g(ld, 'raftNextIndex')[fo_node] = nxt
            cl.rec.enabled = True
            cl.rec.sends = []
            cl.sim.begin(cl.t, 0, BIG_BUDGET)
            cl.sim.step_nid = cl.leader
            try:
                ld._SyncObj__sendAppendEntries()
            except Exception as e:
                out['problems'].append('exception escaped __sendAppendEntries on a crafted log: %r' % (e,))
            cl.rec.enabled = False
            # nothing is delivered: drop what was queued
            for q in cl.sim.chan.values():
                q.clear()
            for q in cl.sim.meta.values():
                q.clear()
            steps += 1
            for s in cl.rec.sends:
                if s['dst'] != fo_nid:
                    continue
                n_send += 1
                calls.append('(check_send %d %s %s %s)' % (B, name, vz(s['next']),
                                                          v_obs(s['obs'] + [[[s['next_after'], 1], 1]])))
                k = 'send_heartbeat' if nxt > last else ('send_pieces' if any(o[0][0] == 4 for o in s['obs']) else 'send_entries')
                dist[k] = dist.get(k, 0) + 1
                if any(o[0][0] == 3 and o[0][3] > 1 for o in s['obs']):
                    dist['send_multi_entry_batch'] = dist.get('send_multi_entry_batch', 0) + 1
        # ---- receiver: piece sequences with (possibly) wrong labels, straight into the handler ----
        flog = g(fo, 'raftLog')
        prev_idx, prev_term = flog[-1][1], flog[-1][2]
        # Two families, each with an oracle that is exact:
        #  (i)  the pieces of a real pickled entry, in order; the only label mutation is an early 'finish'
        #       (the buffer is then a strict prefix of the pickle: loads raises, the buffer is kept), optionally
        #       stray pieces after the reassembly completed (the buffer is '' again: TypeError);
        #       pickle.loads accepts exactly the complete buffer;
        #  (ii) arbitrary label sequences (start / process / finish / anything else, in any order) over bytes
        #       that are no pickle at all: pickle.loads never accepts.
        junk = rng.random() < 0.5
        if not junk:
            entry = (b'\x01' + b'x' * rng.choice([0, 5, B, 2 * B + 3][:3 if B > 5000 else 4]), prev_idx + 1,
                     max(prev_term, g(fo, 'raftCurrentTerm')))
            data = P.dumps(entry)
            cut = rng.choice([B, max(1, len(data) // 3), max(1, len(data) // 2 + 1)]) if len(data) <= 4000 else max(B, len(data) // 4)
            pieces = [data[p:p + cut] for p in range(0, len(data), cut)]
            if len(pieces) > 400:
                cut = (len(data) + 399) // 400
                pieces = [data[p:p + cut] for p in range(0, len(data), cut)]
            labs = []
            for i in range(len(pieces)):
                lab = 'start' if i == 0 else ('finish' if i == len(pieces) - 1 else 'process')
                if lab == 'process' and rng.random() < 0.3 / len(pieces):
                    lab = 'finish'
                labs.append(lab)
            if len(labs) >= 2 and rng.random() < 0.3:
                for _ in range(rng.randrange(1, 3)):
                    pieces.append(pieces[-1])
                    labs.append(rng.choice(['finish', 'process', 'bogus']))
            good = len(data)
        else:
            n_p = rng.randrange(1, 9)
            pieces = [b'\xff' * rng.choice([1, 2, B, B + 1, 7]) for _ in range(n_p)]
            pieces = [x[:5000] for x in pieces]
            labs = [rng.choice(['start', 'start', 'process', 'process', 'finish', 'finish', 'bogus']) for _ in range(n_p)]
            good = -1
        fo._SyncObj__recvTransmission = ''
        grp = {'msgs': [], 'exp': [], 'good': good}
        for lab, d in zip(labs, pieces):
            msg = {'type': 'append_entries', 'term': g(fo, 'raftCurrentTerm'), 'commit_index': g(fo, 'raftCommitIndex'),
                   'prevLogIdx': prev_idx, 'prevLogTerm': prev_term, 'transmission': lab, 'data': d}
            cl.sim.begin(cl.t, 0)
            raised = False
            try:
                t = cl.sim.tr(fo_nid)
                t._onMessageReceived(t._node_for(cl.leader), msg)
            except Exception:
                raised = True
            steps += 1
            buf = g(fo, 'recvTransmission')
            buflen = 0 if isinstance(buf, str) and buf == '' else len(buf) + 1
            grp['msgs'].append([LABELS.get(lab, 9), len(d)])
            grp['exp'].append([2 if raised else (1 if buflen == 0 else 0), buflen])
            if not raised and buflen == 0 and lab == 'finish':
                # the entry was appended: the next sequence continues after it
                pass
        for q in cl.sim.chan.values():
            q.clear()
        for q in cl.sim.meta.values():
            q.clear()
        n_recv += 1
        wrong = labs != (['start'] + ['process'] * (len(labs) - 2) + ['finish'] if len(labs) >= 2 else labs)
        key = 'recv_junk_any_labels' if junk else ('recv_mutated' if wrong else 'recv_wellformed')
        dist[key] = dist.get(key, 0) + 1
        calls.append(v_recv_case(grp))
    cl.destroy()
    out.update({'defs': ''.join(defs), 'evals': ['([%s] : list (option Z))' % ';\n  '.join(calls)], 'n_get': n_get, 'n_send': n_send, 'n_recv': n_recv,
                'steps': steps, 'dist': dist})
    return out
