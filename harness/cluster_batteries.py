"""The batteries (and the lock table) replicated through a real simulated cluster with log compaction, snapshot
catch-up of a lagging node and restart from a dump file: implementation under a monitor only (the Raft model treats
replicated calls abstractly).  Monitor: at equal applied index all replicas of every battery hold equal contents
(C15), and at every probe at most one client considers a lock held by itself on any replica pair at the same
applied index (C16)."""
import random

from harness import sim as SIM
from harness.sim import Sim, RO_BASE


def make_app():
    from pysyncobj import SyncObj
    from pysyncobj.batteries import (ReplCounter, ReplList, ReplDict, ReplSet, ReplQueue, ReplPriorityQueue,
                                     _ReplLockManagerImpl)

    class BApp(SyncObj):
        def __init__(self, me, others, conf, transportClass=None):
            self.b = {'counter': ReplCounter(), 'list': ReplList(), 'dict': ReplDict(), 'set': ReplSet(),
                      'queue': ReplQueue(3), 'pq': ReplPriorityQueue(3), 'lock': _ReplLockManagerImpl(50)}
            self.order = ['counter', 'list', 'dict', 'set', 'queue', 'pq', 'lock']
            super(BApp, self).__init__(me, others, conf, consumers=[self.b[k] for k in self.order],
                                       transportClass=transportClass)
            self.history = []

    return BApp


def contents(app):
    b = app.b
    lock = getattr(b['lock'], '_ReplLockManagerImpl__locks')
    return {
        'counter': b['counter'].get(),
        'list': list(b['list'].rawData()),
        'dict': sorted(b['dict'].rawData().items()),
        'set': sorted(b['set'].rawData()),
        'queue': list(getattr(b['queue'], '_ReplQueue__data')),
        'pq': sorted(getattr(b['pq'], '_ReplPriorityQueue__data')),
        'lock': sorted(lock.items()),
    }


OPS = [
    ('counter', 'inc', lambda r: ()), ('counter', 'add', lambda r: (r.randrange(5),)),
    ('list', 'append', lambda r: (r.randrange(4),)), ('list', 'pop', lambda r: ()),
    ('list', 'insert', lambda r: (r.randrange(-2, 3), r.randrange(4))), ('list', 'remove', lambda r: (r.randrange(4),)),
    ('dict', 'set', lambda r: (r.randrange(4), r.randrange(4))), ('dict', 'pop', lambda r: (r.randrange(4),)),
    ('set', 'add', lambda r: (r.randrange(6),)), ('set', 'discard', lambda r: (r.randrange(6),)),
    # reset() keeps its argument: byte-identical commands recur on purpose (tiny domains), with in-place operations between them
    ('list', 'reset', lambda r: ([r.randrange(3) for _ in range(r.randrange(3))],)),
    ('dict', 'reset', lambda r: (dict((k, 0) for k in range(r.randrange(3))),)),
    ('set', 'reset', lambda r: (set(range(r.randrange(3))),)),
    ('list', 'reset', lambda r: ([],)), ('list', 'append', lambda r: (r.randrange(4),)),
    ('queue', 'put', lambda r: (r.randrange(9),)), ('queue', 'get', lambda r: ()),
    ('pq', 'put', lambda r: (r.randrange(9),)), ('pq', 'get', lambda r: ()),
]


def run_case(seed, workdir, n_rounds=60):
    """returns (problems, stats)"""
    rng = random.Random(seed)
    voters = [1, 2, 3]
    cfg = dict(voters=voters, ro=[], period=10, tmin=40, tspan=128, fallback=100000, batch=rng.choice([200, 65536]),
               chunk=rng.choice([16, 64, 65536]), use_batch=True, dyn=False, wait_leader=True, queue=1000,
               min_entries=10 ** 9, min_time=10 ** 9, dump=rng.choice(['file', None]), journal=None)
    if cfg['dump']:
        cfg['journal'] = 'file'
    sim = Sim(cfg, workdir)
    sim.App = make_app()
    clock = dict((n, 0) for n in voters)
    problems = []
    stats = {'ops': 0, 'compactions': 0, 'restarts': 0, 'lock_ops': 0, 'catchups': 0}

    def start(n):
        clock[n] += 1
        sim.apply(('restart', n, [x for x in voters if x != n], clock[n], rng.randrange(128)))

    def link(a, b):
        for x, y in ((a, b), (b, a)):
            if x in sim.nodes and y in sim.nodes and y not in sim.tr(x).connected:
                sim.apply(('connect', x, y))

    def unlink(a, b):
        for x, y in ((a, b), (b, a)):
            if x in sim.nodes and y in sim.tr(x).connected:
                sim.apply(('drop', x, y))

    def round_(dt=11, nodes=None):
        for n in (nodes or sorted(sim.nodes)):
            clock[n] += dt
            sim.apply(('tick', n, clock[n], rng.randrange(128), None))
            if sim.exc:
                problems.append('exception escaped the tick of node %d: %s' % (n, sim.exc_repr))
        for _ in range(30):
            moved = False
            for (a, b), q in sorted(sim.chan.items()):
                while q and b in sim.nodes and a in sim.tr(b).connected:
                    sim.apply(('deliver', a, b, clock[b], rng.randrange(128)))
                    moved = True
                    if sim.exc:
                        problems.append('exception escaped the message handler of node %d: %s' % (b, sim.exc_repr))
            if not moved:
                break

    seen = {'max_term': 0, 'stale_leader': None, 'leaders': set()}

    def note_terms():
        # known finding KF-C07-1/2: term and vote are not persisted - a restarted journaled voter starts again in term
        # 0, and once every node that knew a term has been restarted (or the one that still knows it is cut off) a
        # leader is elected in a term OLDER than one already used; a node still holding entries of the newer term then
        # wins the next election against the committed entries of the older-term leader.  The step at which a node
        # becomes leader in a term below the highest term any node has shown is the trigger.
        for n_, o_ in sorted(sim.nodes.items()):
            t_ = o_._SyncObj__raftCurrentTerm
            if o_._SyncObj__raftState == 2 and (n_, t_) not in seen['leaders']:
                seen['leaders'].add((n_, t_))
                if t_ < seen['max_term'] and seen['stale_leader'] is None:
                    seen['stale_leader'] = (n_, t_, seen['max_term'])
        for o_ in sim.nodes.values():
            seen['max_term'] = max(seen['max_term'], o_._SyncObj__raftCurrentTerm)

    def check():
        note_terms()
        if seen['stale_leader'] is not None:
            if not any(p.startswith('KF-C07-1') for p in problems):
                problems.append('KF-C07-1: node %d became leader of term %d after term %d had been used (terms are not persisted); '
                                'the replicas are not compared from here on' % seen['stale_leader'])
            return
        by_applied = {}
        for n, o in sim.nodes.items():
            by_applied.setdefault(o._SyncObj__raftLastApplied, []).append(n)
        for ap, ns in by_applied.items():
            ref = contents(sim.nodes[ns[0]])
            for m in ns[1:]:
                c = contents(sim.nodes[m])
                for k in ref:
                    if c[k] != ref[k]:
                        problems.append('replicas differ at applied index %d: %s on node %d is %r, on node %d %r'
                                        % (ap, k, ns[0], ref[k], m, c[k]))
            # C16: at a common time, on replicas at the same position, at most one holder per lock
            now = max(clock.values())
            for lock_id in (0, 1):
                holders = set()
                for m in ns:
                    for client in (1, 2, 3):
                        if sim.nodes[m].b['lock'].isAcquired(lock_id, client, now):
                            holders.add(client)
                if len(holders) > 1:
                    problems.append('lock %d is considered held by clients %r at applied index %d' % (lock_id, sorted(holders), ap))

    for n in voters:
        start(n)
    for a in voters:
        for b in voters:
            if a < b:
                link(a, b)
    round_(40 + 128 + 1)
    for _ in range(4):
        round_()
    lagging = None
    for r in range(n_rounds):
        live = sorted(sim.nodes)
        n = rng.choice(live)
        k = rng.random()
        if k < 0.55:
            name, meth, argf = rng.choice(OPS)
            try:
                getattr(sim.nodes[n].b[name], meth)(*argf(rng))
            except Exception as e:
                problems.append('call %s.%s raised %r' % (name, meth, e))
            stats['ops'] += 1
        elif k < 0.75:
            t = max(clock.values())
            which = rng.choice(['acquire', 'acquire', 'release', 'prolongate'])
            lk = sim.nodes[n].b['lock']
            if which == 'acquire':
                lk.acquire(rng.randrange(2), rng.choice([1, 2, 3]), t)
            elif which == 'release':
                lk.release(rng.randrange(2), rng.choice([1, 2, 3]))
            else:
                lk.prolongate(rng.choice([1, 2, 3]), t)
            stats['lock_ops'] += 1
        elif k < 0.82 and lagging is None and len(live) == 3:
            followers = [y for y in live if sim.nodes[y]._SyncObj__raftState != 2]
            if not followers:
                continue
            lagging = rng.choice(followers)
            for x in live:
                if x != lagging:
                    unlink(lagging, x)
        elif k < 0.90 and lagging is not None:
            for x in sorted(sim.nodes):
                if x != lagging:
                    sim.apply(('compact', x))
            round_(nodes=[x for x in sorted(sim.nodes) if x != lagging])
            round_(nodes=[x for x in sorted(sim.nodes) if x != lagging])
            stats['compactions'] += 1
            for x in sorted(sim.nodes):
                if x != lagging:
                    link(lagging, x)
            stats['catchups'] += 1
            lagging = None
        elif k < 0.95 and cfg['dump'] and len(live) == 3 and lagging is None:
            # only followers are restarted: a restarted journaled voter forgets its term and vote (known finding
            # KF-C07-1), which is not what this monitor is about - with a stable leader it cannot matter
            followers = [y for y in live if sim.nodes[y]._SyncObj__raftState != 2]
            if not followers:
                continue
            x = rng.choice(followers)
            sim.apply(('compact', x))
            round_()
            round_()
            sim.apply(('kill', x))
            for y in sorted(sim.nodes):
                if x in sim.tr(y).connected:
                    sim.apply(('drop', y, x))
            start(x)
            for y in sorted(sim.nodes):
                if y != x:
                    link(x, y)
            stats['restarts'] += 1
        round_()
        check()
        if len(problems) > 5:
            break
    for _ in range(12):
        round_()
    check()
    Sim.uninstall()
    return problems, stats

def run_scripted(workdir):
    """one scripted history next to the random ones: a node takes a snapshot of its own, falls behind, installs the
    leader's snapshot (battery contents change WITHOUT a replicated call on that node), sees further commands that do
    not touch some of the batteries, takes a snapshot again and is restarted from that dump: every battery comes back
    as the other replicas hold it (seed C15-r7: a consumer's pickled state kept until its next replicated call)."""
    cfg = dict(voters=[1, 2, 3], ro=[], period=10, tmin=40, tspan=128, fallback=100000, batch=65536, chunk=65536,
               use_batch=True, dyn=False, wait_leader=True, queue=1000, min_entries=10 ** 9, min_time=10 ** 9,
               dump='file', journal='file')
    sim = Sim(cfg, workdir)
    sim.App = make_app()
    clock = {1: 0, 2: 0, 3: 0}
    problems = []

    def start(n):
        clock[n] += 1
        sim.apply(('restart', n, [x for x in (1, 2, 3) if x != n], clock[n], 7 * n))

    def link(a, b, up=True):
        for x, y in ((a, b), (b, a)):
            if x in sim.nodes and y in sim.nodes:
                if up and y not in sim.tr(x).connected:
                    sim.apply(('connect', x, y))
                if not up and y in sim.tr(x).connected:
                    sim.apply(('drop', x, y))

    def rounds(k=3, nodes=None, dt=11):
        for _ in range(k):
            for n in (nodes or sorted(sim.nodes)):
                clock[n] += dt
                sim.apply(('tick', n, clock[n], 3, None))
            for _ in range(30):
                moved = False
                for (a, b), q in sorted(sim.chan.items()):
                    while q and b in sim.nodes and a in sim.tr(b).connected:
                        sim.apply(('deliver', a, b, clock[b], 3))
                        moved = True
                if not moved:
                    break
    for n in (1, 2, 3):
        start(n)
    for a, b in ((1, 2), (1, 3), (2, 3)):
        link(a, b)
    clock[1] += 40 + 128 + 1
    sim.apply(('tick', 1, clock[1], 3, None))
    rounds(4)
    L = [n for n, o in sim.nodes.items() if o._SyncObj__raftState == 2]
    if len(L) != 1:
        Sim.uninstall()
        return ['scripted case: no leader'], {}
    L = L[0]
    F = [n for n in (1, 2, 3) if n != L]
    victim, other = F[0], F[1]
    b = sim.nodes[L].b
    b['dict'].set('k', 1); b['dict'].set('gone', 0); b['list'].append(1); b['set'].add(5); b['queue'].put(4)
    rounds(3)
    sim.apply(('compact', victim))
    rounds(3)                                         # the victim has a dump of its own
    link(victim, L, False); link(victim, other, False)
    b['dict'].set('k', 2); b['dict'].pop('gone'); b['dict'].set('x', 9); b['list'].append(2); b['set'].discard(5); b['queue'].get()
    rounds(3, nodes=[L, other])
    sim.apply(('compact', L)); sim.apply(('compact', other))
    rounds(3, nodes=[L, other])
    link(victim, L); link(victim, other)
    rounds(6)                                         # the victim installs the leader's snapshot
    b['counter'].inc(); b['counter'].inc()            # only the counter changes afterwards
    rounds(3)
    sim.apply(('compact', victim))
    rounds(3)
    sim.apply(('kill', victim))
    for y in sorted(sim.nodes):
        if victim in sim.tr(y).connected:
            sim.apply(('drop', y, victim))
    start(victim)
    link(victim, L); link(victim, other)
    rounds(6)
    ref = contents(sim.nodes[L])
    for m in (victim, other):
        if sim.nodes[m]._SyncObj__raftLastApplied != sim.nodes[L]._SyncObj__raftLastApplied:
            problems.append('scripted case: node %d did not catch up' % m)
            continue
        c = contents(sim.nodes[m])
        for k in ref:
            if c[k] != ref[k]:
                problems.append('replicas differ at applied index %d: %s on node %d is %r, on node %d %r (after snapshot install, '
                                'second compaction and restart from the dump)' % (sim.nodes[L]._SyncObj__raftLastApplied, k, L, ref[k], m, c[k]))
    Sim.uninstall()
    return problems, {'scripted': 1}
