"""Scripted schedules: the witnesses of the repaired findings (DESIGN Appendix A) and templates for
branches that random schedules reach rarely.  Each runs on the real objects under the monitors and is
replayed on the Coq model like any other trace."""
import random

from harness import raft_corr as RC
from harness.sim import RO_BASE


def base_cfg(voters, **kw):
    cfg = dict(voters=list(voters), ro=[], period=10, tmin=40, tspan=128, fallback=100000, batch=100, chunk=64,
               use_batch=True, dyn=False, wait_leader=True, queue=1000, min_entries=10 ** 9, min_time=10 ** 9)
    cfg.update(kw)
    return cfg


class Script(object):
    def __init__(self, cfg, workdir=None, listeners=(), keep_obs=False, seed=1):
        self.rec = RC.Recorder(cfg, workdir)
        self.rec.keep_obs = keep_obs
        self.rec.listeners = list(listeners)
        self.rng = random.Random(seed)
        self.s = RC.Scheduler(self.rec, self.rng, cfg['voters'])
        self.sim = self.rec.sim

    def elect(self, n, voters_for=None):
        """n times out, the given nodes receive its vote request and their answers are delivered"""
        cfg = self.rec.cfg
        self.s.tick(n, cfg['tmin'] + cfg['tspan'] + 1)
        for v in (voters_for if voters_for is not None else [x for x in self.s.alive if x != n]):
            while self.sim.queue_len(n, v) and self.s.view(v, n):
                self.s.deliver(n, v)
            while self.sim.queue_len(v, n) and self.s.view(n, v):
                self.s.deliver(v, n)

    def elect_until(self, n, voters_for, tries=4):
        for _ in range(tries):
            self.elect(n, voters_for)
            if self.sim.nodes[n]._SyncObj__raftState == 2:
                return True
        return False

    def head_type(self, a, b):
        """type of the message at the head of channel a -> b (None when empty or not deliverable)"""
        import pickle
        q = self.sim.chan.get((a, b))
        if not q or not self.s.view(b, a):
            return None
        return pickle.loads(q[0])['type']

    def flush(self, a, b, k=None):
        n = 0
        while self.sim.queue_len(a, b) and self.s.view(b, a) and (k is None or n < k):
            self.s.deliver(a, b)
            n += 1
        return n

    def settle(self, nodes, rounds=3):
        for _ in range(rounds):
            for n in nodes:
                self.s.tick(n, self.rec.cfg['period'] + 1)
            for a in nodes:
                for b in nodes:
                    if a != b:
                        self.flush(a, b)

    def isolate(self, n):
        for x in sorted(self.s.alive):
            if x != n:
                self.s.drop(n, x)
                self.s.drop(x, n)

    def join(self, n):
        for x in sorted(self.s.alive):
            if x != n:
                self.s.connect(n, x)
                self.s.connect(x, n)


def d7(**kw):
    """re-sent append_entries after partial consumption of the replies (ack-then-truncate)"""
    sc = Script(base_cfg([1, 2, 3], batch=100), **kw)
    s = sc.s
    s.boot()
    sc.isolate(3)
    sc.elect(1, [2])
    sc.settle([1, 2], 2)
    for _ in range(6):
        s.submit(1, size=20)
    s.tick(1, 11)                 # appended (queue drained at the end of the tick)
    s.tick(1, 11)                 # three batches of two are sent
    sc.flush(1, 2)                # 2 stores 3..8 and sends its replies (one for the heartbeat, three for the batches)
    s.deliver(2, 1)               # 1 consumes the heartbeat reply
    s.deliver(2, 1)               # ... and only the first batch reply: next index rolled back to 5
    s.tick(1, 11)                 # re-sends from its rolled back next index
    sc.flush(2, 1)                # the other two replies: match index = 8
    s.deliver(1, 2)               # the re-sent AE(4,[5,6]) reaches 2
    s.drop(1, 2)
    s.drop(2, 1)
    s.tick(1, 11)                 # commit
    sc.join(3)                    # 3 can talk to 2 only (1 dropped its links)
    s.drop(3, 1)
    s.drop(1, 3)
    sc.elect(2, [3])
    sc.settle([2, 3], 3)
    sc.join(1)
    sc.settle([1, 2, 3], 4)
    return sc.rec


def d8(**kw):
    """deposed leader with uncommitted entries receives a first snapshot chunk"""
    sc = Script(base_cfg([1, 2, 3], chunk=64), **kw)
    s = sc.s
    s.boot()
    sc.elect(1)
    sc.settle([1, 2, 3], 2)
    s.submit(1, size=20)
    sc.settle([1, 2, 3], 3)
    sc.isolate(1)
    for _ in range(3):
        s.submit(1, size=20)
    s.tick(1, 11)
    sc.elect(2, [3])
    sc.settle([2, 3], 2)
    for _ in range(8):
        s.submit(2, size=20)
    sc.settle([2, 3], 4)
    sc.rec.do(('compact', 2))
    sc.settle([2, 3], 3)
    sc.join(1)
    s.tick(2, 11)
    s.deliver(2, 1)               # the first message 1 gets from the new leader
    sc.settle([1, 2, 3], 6)
    return sc.rec


def d17(**kw):
    """success replies of term 1 held back and delivered to the same node re-elected in term 3"""
    sc = Script(base_cfg([1, 2, 3, 4, 5]), **kw)
    s = sc.s
    s.boot()
    sc.elect(1)
    sc.settle([1, 2, 3, 4, 5], 2)
    # partition {1,2} | {3,4,5}
    for a in (1, 2):
        for b in (3, 4, 5):
            s.drop(a, b)
            s.drop(b, a)
    for _ in range(3):
        s.submit(1, size=20)
    s.tick(1, 11)
    s.tick(1, 11)
    sc.flush(1, 2)                # 2 stores them; its replies stay queued in 2->1
    sc.elect(3, [4, 5])
    sc.settle([3, 4, 5], 2)
    s.submit(3, size=20)
    sc.settle([3, 4, 5], 2)
    # 3 reaches 1 and 2 (but 2->1 keeps its old queue): overwrite their tails
    for b in (1, 2):
        s.connect(3, b)
        s.connect(b, 3)
    for _ in range(4):
        s.tick(3, 11)
        for b in (1, 2):
            sc.flush(3, b)
            sc.flush(b, 3)
    sc.isolate(3)
    for b in (4, 5):
        s.connect(1, b)
        s.connect(b, 1)
    sc.elect(1, [4, 5])
    s.submit(1, size=20)
    s.tick(1, 11)
    s.tick(1, 11)
    sc.flush(1, 4)                # the new entries reach 4 only
    sc.flush(4, 1)
    sc.flush(2, 1)                # the held replies of term 1
    s.tick(1, 11)                 # without the repair: committed with holders {1, 4} of 5 voters
    sc.settle([1, 4, 5], 2)
    return sc.rec


def d16(**kw):
    """two membership changes requested in one tick"""
    sc = Script(base_cfg([1, 2, 3], dyn=True), **kw)
    s = sc.s
    s.boot()
    sc.elect(1)
    sc.settle([1, 2, 3], 3)
    sc.rec.do(('admin', 1, True, 4, 901))
    sc.rec.do(('admin', 1, True, 5, 902))
    s.tick(1, 11)
    sc.settle([1, 2, 3], 3)
    return sc.rec


def d1(**kw):
    """a replicated method that raises, on leader and follower"""
    sc = Script(base_cfg([1, 2]), **kw)
    s = sc.s
    s.boot()
    sc.elect(1)
    sc.settle([1, 2], 2)
    s.submit(1, size=5)
    s.submit(1, size=5, raises=True)
    s.submit(2, size=5, raises=True)
    s.submit(1, size=5)
    sc.settle([1, 2], 5)
    return sc.rec


def d20(**kw):
    """a follower receives 'add 4' and 'rem 4' before it learns that 'add 4' is committed"""
    sc = Script(base_cfg([1, 2, 3], dyn=True), **kw)
    s = sc.s
    s.boot()
    sc.elect(1)
    sc.settle([1, 2, 3], 3)
    # node 4 is started empty with the current member list, then the request is issued
    s.voters.append(4)
    s.clock[4] = 0
    sc.rec.do(('restart', 4, [1, 2, 3], 1, 5))
    s.alive.add(4)
    sc.rec.do(('admin', 1, True, 4, 901))
    s.tick(1, 11)                 # appended at the leader: 4 is a member for 1 from now on
    s.tick(1, 11)                 # sent to 2 and 3 (3's copy stays in the channel)
    s.connect(1, 4)
    s.connect(4, 1)
    sc.settle([1, 2, 4], 5)       # committed by 1, 2, 4 and applied; 3's copies stay in the channel 1->3
    sc.rec.do(('admin', 1, False, 4, 902))
    s.tick(1, 11)
    s.tick(1, 11)
    sc.flush(1, 3)                # 3 now appends add 4, rem 4 and learns commit = add 4
    s.tick(3, 11)
    s.tick(3, 11)
    sc.settle([1, 2, 3], 4)
    return sc.rec


def snapshot_catchup(**kw):
    """a lagging follower is brought up to date by a chunked snapshot, interrupted once"""
    sc = Script(base_cfg([1, 2, 3], chunk=32), **kw)
    s = sc.s
    s.boot()
    sc.elect(1)
    sc.settle([1, 2, 3], 2)
    sc.isolate(3)
    for _ in range(6):
        s.submit(1, size=20)
    sc.settle([1, 2], 4)
    sc.rec.do(('compact', 1))
    sc.settle([1, 2], 3)
    sc.join(3)
    s.tick(1, 11, budget=2)       # the send loop is cut by the clock after two chunks
    sc.flush(1, 3)
    s.drop(1, 3)
    s.drop(3, 1)                  # flap between two leader ticks
    s.connect(1, 3)
    s.connect(3, 1)
    sc.settle([1, 2, 3], 8)
    return sc.rec


def snapshot_sent_long_after_it_was_taken(**kw):
    """an in-memory snapshot is taken, then more commands are appended and applied, and only then a lagging follower
    is brought up to date with that snapshot and the entries behind it: what is shipped is the state of the snapshot's
    position, not the state of the moment it is first sent (seeds C09-r5 / C15-r5: the image is built lazily)"""
    sc = Script(base_cfg([1, 2, 3], chunk=64), **kw)
    s = sc.s
    s.boot()
    sc.elect(1)
    sc.settle([1, 2, 3], 2)
    sc.isolate(3)
    for _ in range(4):
        s.submit(1, size=10)
    sc.settle([1, 2], 4)
    sc.rec.do(('compact', 1))
    sc.rec.do(('compact', 2))
    sc.settle([1, 2], 3)
    for _ in range(4):
        s.submit(1, size=10)
    sc.settle([1, 2], 4)              # applied on 1 and 2 behind the snapshot's position
    sc.join(3)
    sc.settle([1, 2, 3], 10)
    s.submit(3, size=10)              # and the restored follower goes on like the others
    sc.settle([1, 2, 3], 5)
    return sc.rec


def snapshot_installed_follower_leads(**kw):
    """a follower that was brought up to date by the leader's snapshot later becomes leader itself, with the former
    leader (the author of the snapshot) still a member: it replicates to every other member, the former leader
    included, and the cluster converges (seed C05-r5: a per-node attribute that travels inside the snapshot - the
    author's list of replication targets - makes the new leader skip the former one for ever)"""
    sc = Script(base_cfg([1, 2, 3], chunk=64, fallback=300), **kw)
    s = sc.s
    s.boot()
    sc.elect(1)
    sc.settle([1, 2, 3], 2)
    sc.isolate(3)
    for _ in range(4):
        s.submit(1, size=10)
    sc.settle([1, 2], 4)
    sc.rec.do(('compact', 1))
    sc.settle([1, 2], 3)
    sc.join(3)
    sc.settle([1, 2, 3], 8)           # 3 installs the snapshot of 1
    sc.isolate(1)
    sc.elect_until(3, [2])
    sc.settle([2, 3], 3)
    sc.join(1)
    s.kill(2)                         # the new leader needs the former one for a majority
    s.submit(3, size=10)
    sc.settle([1, 3], 6)
    RC.quiet_period(s, timeouts=6, submit_on=3)
    sc.rec.convergence = RC.convergence_problems(sc.rec, s, None, {})
    sc.rec.convergence_props = ('C05', 'C09')
    return sc.rec


def deposed_leader_waiters_share_positions(**kw):
    """a leader that is cut off stores calls (with callbacks) that never replicate; it is deposed, learns the new leader,
    and the same node makes further calls, which the new leader stores at the SAME positions behind its no-op: two
    callers wait on this node for one position under different terms.  When the position is applied the caller of the
    old term is told DISCARDED and the caller of the new term SUCCESS - each callback fires exactly once (seed C19-r6:
    one waiter per position, the second registration silently replaces the first)."""
    sc = Script(base_cfg([1, 2, 3], fallback=100000), **kw)
    s = sc.s
    s.boot()
    sc.elect(1)
    sc.settle([1, 2, 3], 2)
    sc.isolate(1)
    for _ in range(3):
        s.submit(1, size=5, cb=True)
    s.tick(1, 11)                      # stored at 1 only, their callers wait for the commit
    sc.elect_until(2, [3])
    sc.settle([2, 3], 2)               # 2's no-op takes the first of those positions
    sc.join(1)
    s.tick(2, 11)
    sc.flush(2, 1)                     # 1 learns the new leader (and cuts its entries)
    sc.flush(1, 2)
    for _ in range(3):
        s.submit(1, size=5, cb=True)
    s.tick(1, 11)                      # forwarded to 2
    sc.flush(1, 2)
    s.tick(2, 11)                      # stored behind the no-op; the answers (with the positions) go out before the entries
    while sc.head_type(2, 1) == 'apply_command_response':
        s.deliver(2, 1)                # node 1 files the new callers under positions the old ones still wait for
    sc.settle([1, 2, 3], 6)
    return sc.rec


def role_hook_raises_on_step_down(**kw):
    """the application's onStateChanged hook of the leader raises at the moment the node has to step down for a newer
    term (the exception leaves the handler, as any exception of an application hook does): the node IS a follower of the
    new term all the same - one leader per term, the deposed leader counts and commits nothing (seed C07-r7: the new
    role stored only after the hook returned).  Implementation under the monitors only (the model has no hook)."""
    sc = Script(base_cfg([1, 2, 3], fallback=100000, state_cb_raises=[1, 2, 3]), **kw)
    s = sc.s
    sc.rec.model_ok = False
    s.boot()
    sc.elect(1)
    sc.settle([1, 2, 3], 2)
    for rnd, (old, new, third) in enumerate([(1, 2, 3), (2, 3, 1), (3, 1, 2)]):
        s.submit(old, size=5)
        sc.settle([1, 2, 3], 2)
        s.drop(new, old)
        s.drop(old, new)              # `new` misses the heartbeats ...
        sc.elect_until(new, [third])  # ... is elected by `third`
        s.connect(new, old)
        s.connect(old, new)
        s.tick(new, 11)
        sc.flush(new, old)            # the old leader hears of the newer term: its hook raises while it steps down
        sc.flush(old, new)
        s.submit(old, size=5)         # what is submitted on the deposed leader goes through the new one or nowhere
        sc.settle([1, 2, 3], 4)
    return sc.rec


def lost_rejection_is_repeated(**kw):
    """entries on their way to a follower are lost with a flapping connection (the leader's next index for it stays
    ahead), the append_entries that follows is rejected - and that one rejection is lost as well.  Leader and term stay
    the same.  Every further append_entries draws the rejection again, the leader steps back and the follower catches
    up; after a quiet period the replicas are equal (seed C05-r7: a follower that does not repeat a rejection it has
    already sent to this leader in this term stays behind for ever)."""
    sc = Script(base_cfg([1, 2, 3], fallback=100000), **kw)
    s = sc.s
    s.boot()
    sc.elect(1)
    sc.settle([1, 2, 3], 2)
    for rnd in range(2):
        for _ in range(3):
            s.submit(1, size=5)
        s.tick(1, 11)                 # appended
        s.tick(1, 11)                 # queued for 2 and 3, the next index of both moves on
        sc.flush(1, 2)
        sc.flush(2, 1)
        s.drop(1, 3)
        s.drop(3, 1)                  # ... those for 3 are lost with the connection
        s.connect(1, 3)
        s.connect(3, 1)
        s.submit(1, size=5)
        s.tick(1, 11)
        s.tick(1, 11)                 # the next append_entries starts behind what 3 holds
        sc.flush(1, 2)
        sc.flush(2, 1)
        sc.flush(1, 3)                # 3 rejects it
        s.drop(3, 1)
        s.drop(1, 3)                  # the rejection is lost too
        s.connect(1, 3)
        s.connect(3, 1)
        for _ in range(3):
            s.tick(1, 11)
            sc.flush(1, 2)
            sc.flush(2, 1)
            sc.flush(1, 3)
            sc.flush(3, 1)
    RC.quiet_period(s, timeouts=3, submit_on=3)
    sc.rec.convergence = RC.convergence_problems(sc.rec, s, None, {})
    sc.rec.convergence_props = ('C05',)
    return sc.rec


def forwarded(**kw):
    """commands submitted on a follower while the leader changes"""
    sc = Script(base_cfg([1, 2, 3]), **kw)
    s = sc.s
    s.boot()
    sc.elect(1)
    sc.settle([1, 2, 3], 2)
    s.submit(2, size=20)
    s.tick(2, 11)                 # forwarded
    sc.flush(2, 1)
    s.tick(1, 11)                 # appended, response sent
    sc.isolate(1)
    sc.elect(3, [2])
    sc.settle([2, 3], 3)
    s.submit(2, size=20)
    sc.settle([2, 3], 3)
    sc.join(1)
    sc.settle([1, 2, 3], 4)
    return sc.rec


def restart_double_vote(**kw):
    """KF-C07-1: a journaled voter votes, is killed and restarted, and votes again in the same term"""
    sc = Script(base_cfg([1, 2, 3], journal='file'), **kw)
    s = sc.s
    s.boot()
    cfg = sc.rec.cfg
    s.tick(1, cfg['tmin'] + cfg['tspan'] + 1)      # 1 is candidate of term 1
    sc.flush(1, 3)                                 # 3 grants; 2 does not hear from 1
    sc.flush(3, 1)                                 # 1 is leader of term 1 (votes of 1 and 3)
    s.kill(3)
    s.restart(3)                                   # term 0, vote forgotten
    s.tick(2, cfg['tmin'] + cfg['tspan'] + 1)      # 2 is candidate of term 1
    sc.flush(2, 3)
    sc.flush(3, 2)                                 # 2 is leader of term 1 as well
    return sc.rec


def d18(**kw):
    """KF-C06-D18: journal file without dump file, in-memory compaction, restart"""
    sc = Script(base_cfg([1], journal='file'), **kw)
    s = sc.s
    s.boot()
    sc.elect(1, [])
    for _ in range(5):
        s.submit(1, size=10)
    sc.settle([1], 3)
    sc.rec.do(('compact', 1))
    sc.settle([1], 3)
    s.kill(1)
    s.restart(1)
    sc.settle([1], 4)
    return sc.rec


def d10(**kw):
    """regression (fixed D10): killed between writing the dump and trimming the journal"""
    sc = Script(base_cfg([1, 2], journal='file', dump='file'), **kw)
    s = sc.s
    s.boot()
    sc.elect(1)
    sc.settle([1, 2], 2)
    for _ in range(4):
        s.submit(1, size=10)
    sc.settle([1, 2], 4)
    sc.rec.do(('compact', 2))
    s.tick(2, 11)                  # dump written at the applied position; the trim would happen on the next tick
    for _ in range(3):
        s.submit(1, size=10)
    s.tick(1, 11)
    s.tick(1, 11)
    sc.flush(1, 2)                 # 2 stores and acknowledges three more entries without ticking
    sc.flush(2, 1)
    s.tick(1, 11)                  # committed on 2's word
    s.kill(2)
    s.restart(2)
    sc.settle([1, 2], 6)
    return sc.rec


def d19(**kw):
    """regression (fixed D19): drop + reconnect between two leader ticks during a chunked snapshot transfer, dump files"""
    sc = Script(base_cfg([1, 2, 3], chunk=32, dump='file', journal='file'), **kw)
    s = sc.s
    s.boot()
    sc.elect(1)
    sc.settle([1, 2, 3], 2)
    s.submit(1, size=20)
    sc.settle([1, 2, 3], 3)
    sc.rec.do(('compact', 3))
    sc.settle([1, 2, 3], 3)         # 3 has a good dump
    sc.isolate(3)
    for _ in range(6):
        s.submit(1, size=20)
    sc.settle([1, 2], 4)
    sc.rec.do(('compact', 1))
    sc.settle([1, 2], 3)
    sc.join(3)
    s.tick(1, 11, budget=2)         # the send loop is cut by the clock after a few chunks
    s.deliver(1, 3)                 # 3 receives the first chunk only
    s.drop(1, 3)
    s.drop(3, 1)
    s.connect(1, 3)
    s.connect(3, 1)
    sc.settle([1, 2, 3], 8)
    return sc.rec


def d6(**kw):
    """KF-C08-1 at the node level: killed inside the journal head drop that follows a compaction"""
    sc = Script(base_cfg([1, 2], journal='file', dump='file'), **kw)
    s = sc.s
    s.boot()
    sc.elect(1)
    sc.settle([1, 2], 2)
    for _ in range(5):
        s.submit(1, size=10)
    sc.settle([1, 2], 4)
    sc.rec.do(('compact', 2))
    s.tick(2, 11)                  # dump written
    for _ in range(2):
        s.submit(1, size=10)
    s.tick(1, 11)
    s.tick(1, 11)
    sc.flush(1, 2)
    sc.flush(2, 1)
    s.clock[2] += 11
    sc.rec.do(('tickkill', 2, s.clock[2], 3, 1001))   # dies after the first write of clear + re-append
    if 2 not in sc.sim.nodes:
        s.alive.discard(2)
        s.drop(1, 2)
        s.restart(2)
    sc.settle([1, 2], 6)
    return sc.rec


def _ser_mode(mode, **kw):
    """snapshot in the serializer modes the Coq model does not cover (fork, user-supplied functions): implementation
    under the monitors only - compaction while commands keep arriving, catch-up by snapshot, restart from the dump"""
    import time
    extra = {'fork': True} if mode == 'fork' else {'custom': True}
    sc = Script(base_cfg([1, 2, 3], dump='file', journal='file', chunk=48, **extra), **kw)
    sc.rec.model_ok = False
    s = sc.s
    sim = sc.sim
    s.boot()
    sc.elect(1)
    sc.settle([1, 2, 3], 2)
    for _ in range(4):
        s.submit(1, size=20)
    sc.settle([1, 2, 3], 4)
    sc.isolate(3)
    for _ in range(4):
        s.submit(2, size=20)
    sc.settle([1, 2], 4)
    for n in (1, 2):
        sc.rec.do(('compact', n))
    for _ in range(3):
        s.submit(1, size=20)           # commands keep being applied while the snapshot is written
    for i in range(40):
        sc.settle([1, 2], 1)
        busy = [n for n in (1, 2) if sim.nodes[n]._SyncObj__serializer._Serializer__pid != 0]
        if not busy and i > 3:
            break
        time.sleep(0.02)
    sc.join(3)
    sc.settle([1, 2, 3], 10)
    s.kill(2)
    s.restart(2)
    sc.settle([1, 2, 3], 6)
    s.submit(3, size=20)
    sc.settle([1, 2, 3], 5)
    return sc.rec


def ser_fork(**kw):
    return _ser_mode('fork', **kw)


def ser_custom(**kw):
    return _ser_mode('custom', **kw)


def fig8(**kw):
    """Raft's figure-8 situation: an entry of an earlier term reaches a majority under a later leader whose own
    no-op does not; it must not be committed (the later leader of an intermediate term overwrites it)"""
    sc = Script(base_cfg([1, 2, 3], batch=16, fallback=50), **kw)
    s = sc.s
    s.boot()
    sc.elect(1)
    sc.settle([1, 2, 3], 2)
    sc.isolate(1)
    s.submit(1, size=20)          # X: appended by 1 in term 1 at index 3, replicated nowhere
    s.tick(1, 11)
    sc.elect(2, [3])              # 2 leads term 2; its no-op takes index 3 on 2 only
    sc.isolate(2)
    # 1 is elected for term 3 by 3 (3 has neither X nor the term-2 no-op)
    s.connect(1, 3)
    s.connect(3, 1)
    sc.elect_until(1, [3])
    # 3 lacks index 3: it answers the first append_entries with a reset, 1 rolls its next index back
    sc.flush(1, 3)
    sc.flush(3, 1)
    s.tick(1, 11)                 # X goes out in its own (chunked) transmission, the term-3 no-op in a message after it
    n = sc.sim.queue_len(1, 3)
    for _ in range(max(0, n - 1)):
        s.deliver(1, 3)           # everything but the last message: 3 stores X and acknowledges it
    sc.flush(3, 1)
    s.tick(1, 11)                 # with the commit rule weakened, X (term 1) is committed and applied here
    s.drop(1, 3)
    s.drop(3, 1)
    s.connect(2, 3)
    s.connect(3, 2)
    sc.elect_until(2, [3])        # 2 (last term 2) is more up to date than 3 (last term 1)
    s.submit(2, size=5)
    sc.settle([2, 3], 4)
    sc.join(1)
    sc.settle([1, 2, 3], 5)
    return sc.rec


def stale_match_reelected(**kw):
    """a node leads twice; what a follower acknowledged in its first term must not count in the second"""
    sc = Script(base_cfg([1, 2, 3, 4, 5]), **kw)
    s = sc.s
    s.boot()
    sc.elect(1)
    sc.settle([1, 2, 3, 4, 5], 2)
    for a in (1, 2):
        for b in (3, 4, 5):
            s.drop(a, b)
            s.drop(b, a)
    for _ in range(3):
        s.submit(1, size=20)
    s.tick(1, 11)
    s.tick(1, 11)
    sc.flush(1, 2)
    sc.flush(2, 1)                # 1 records what 2 acknowledged in term 1 (a minority: nothing is committed)
    sc.elect(3, [4, 5])
    sc.settle([3, 4, 5], 2)
    s.submit(3, size=20)
    sc.settle([3, 4, 5], 2)
    for b in (1, 2):
        s.connect(3, b)
        s.connect(b, 3)
    for _ in range(4):
        s.tick(3, 11)
        for b in (1, 2):
            sc.flush(3, b)
            sc.flush(b, 3)
    sc.isolate(3)
    sc.isolate(2)
    for b in (4, 5):
        s.connect(1, b)
        s.connect(b, 1)
    sc.elect(1, [4, 5])
    s.submit(1, size=20)
    s.tick(1, 11)
    s.tick(1, 11)
    sc.flush(1, 4)                # the new entries reach 4 only
    sc.flush(4, 1)
    s.tick(1, 11)
    sc.settle([1, 4, 5], 2)
    return sc.rec


def stale_cursor(**kw):
    """regression (fixed FX-C09-2): a snapshot transfer interrupted by a loss of leadership must not be continued
    in the middle after re-election (the follower had meanwhile started to receive another leader's snapshot)"""
    sc = Script(base_cfg([1, 2, 3], chunk=32, fallback=100, dump='file', journal='file'), **kw)
    s, sim = sc.s, sc.sim

    def trans(n):
        return sim.nodes[n]._SyncObj__serializer._Serializer__transmissions

    s.boot()
    sc.elect(1)
    sc.settle([1, 2], 2)
    sc.isolate(3)
    for _ in range(4):
        s.submit(1, size=20)
    sc.settle([1, 2], 4)
    sc.rec.do(('compact', 1))
    sc.settle([1, 2], 3)
    sc.join(3)
    for _ in range(5):
        s.tick(1, 11, budget=2)        # the send loop is cut by the clock after two turns
        sc.flush(1, 3)
        sc.flush(3, 1)
        sc.flush(1, 2)
        sc.flush(2, 1)
        if trans(1):
            break
    sc.elect(2, voters_for=[3])        # 2 takes over; 3 votes but does not get 2's entries yet
    while sim.queue_len(2, 3):
        sc.rec.do(('lose', 2, 3, 100))
    sc.flush(2, 1)
    sc.flush(1, 2)
    for _ in range(2):
        s.submit(2, size=20)
    for _ in range(4):
        s.tick(2, 11)
        sc.rec.do(('lose', 2, 3, 100))
        sc.flush(2, 1)
        sc.flush(1, 2)
    sc.rec.do(('compact', 2))
    for _ in range(3):
        s.tick(2, 11)
        sc.rec.do(('lose', 2, 3, 100))
        sc.flush(2, 1)
        sc.flush(1, 2)
    for _ in range(5):
        s.tick(2, 11, budget=2)
        sc.flush(2, 3)
        sc.flush(3, 2)
        sc.flush(2, 1)
        sc.flush(1, 2)
        if trans(2):
            break
    sc.elect(1, voters_for=[3, 2])     # 1 again
    sc.flush(1, 3)
    sc.flush(3, 1)
    sc.flush(1, 2)
    sc.flush(2, 1)
    for _ in range(8):
        s.tick(1, 11)
        sc.flush(1, 3)
        sc.flush(3, 1)
    sc.settle([1, 2, 3], 6)
    return sc.rec


def compact_during_install(**kw):
    """a follower with a dump file compacts its own log while it is part-way through receiving a chunked snapshot"""
    sc = Script(base_cfg([1, 2, 3], chunk=1000, dump='file', journal='file', ballast=30000), **kw)
    s, sim = sc.s, sc.sim
    s.boot()
    sc.elect(1)
    sc.settle([1, 2, 3], 2)
    for _ in range(3):
        s.submit(1, size=20)
    sc.settle([1, 2, 3], 4)
    sc.isolate(3)
    for _ in range(6):
        s.submit(1, size=20)
    sc.settle([1, 2], 4)
    sc.rec.do(('compact', 1))
    sc.settle([1, 2], 3)
    sc.join(3)
    s.tick(1, 11)                          # the whole snapshot is queued towards 3
    n = sim.queue_len(1, 3)
    for _ in range(max(1, n // 2)):
        s.deliver(1, 3)                    # 3 has received about half of the chunks
    sc.rec.do(('compact', 3))
    s.tick(3, 11)                          # its own dump is written now
    s.tick(3, 11)
    sc.flush(1, 3)                         # the rest of the transfer
    sc.flush(3, 1)
    sc.settle([1, 2, 3], 8)
    s.kill(3)
    s.restart(3)
    sc.settle([1, 2, 3], 6)
    return sc.rec


def member_rollback(**kw):
    """a node cuts a conflicting tail that starts right behind a committed membership entry: the membership entry stays"""
    sc = Script(base_cfg([1, 2, 3], dyn=True, fallback=60), **kw)
    s = sc.s
    s.boot()
    sc.elect(1)
    sc.settle([1, 2, 3], 3)
    s.voters.append(4)
    s.clock[4] = 0
    sc.rec.do(('restart', 4, [1, 2, 3], 1, 5))
    s.alive.add(4)
    sc.rec.do(('admin', 1, True, 4, 901))
    s.tick(1, 11)
    for b in (1, 2, 3):
        s.connect(b, 4)
        s.connect(4, b)
    sc.settle([1, 2, 3, 4], 4)
    for b in (2, 3):                  # 2 and 3 know 4 as a member only now
        s.connect(b, 4)
        s.connect(4, b)
    sc.settle([1, 2, 3, 4], 4)        # 'add 4' committed everywhere (index 3)
    sc.isolate(1)
    s.submit(1, size=5)               # index 4 in term 1, on node 1 only
    s.tick(1, 11)
    sc.elect_until(2, [3, 4])         # term 2: its no-op takes index 4
    sc.settle([2, 3, 4], 3)
    sc.join(1)
    sc.settle([1, 2, 3, 4], 6)        # 1 cuts its index 4; 'add 4' at index 3 must stay in force
    return sc.rec


def backoff_burst(**kw):
    """a follower whose last entries conflict with the leader's, and a leader more than one batch ahead: every
    append_entries of the burst is refused, and the answers to the later ones (unknown index: own end + 1) must not
    undo the answer to the first (term mismatch: one step back) - or the next index never gets below the conflict"""
    sc = Script(base_cfg([1, 2, 3], batch=100, fallback=50), **kw)
    s = sc.s
    s.boot()
    sc.elect(3)
    sc.settle([1, 2, 3], 2)
    sc.isolate(3)
    for _ in range(2):
        s.submit(3, size=20)      # two entries of 3's term that reach nobody
    s.tick(3, 11)
    sc.elect(1, [2])              # 1 leads a later term; its entries take the same indices
    for _ in range(3):
        s.submit(1, size=20)
    sc.settle([1, 2], 3)
    sc.elect_until(2, [1])        # 2 leads the next term: its next index for 3 is its log end + 1
    for _ in range(8):
        s.submit(2, size=20)
    sc.settle([1, 2], 3)
    sc.join(3)
    RC.quiet_period(s, timeouts=6)
    sc.rec.convergence = RC.convergence_problems(sc.rec, s, None, {})
    return sc.rec



def snapshot_members(**kw):
    """a leader compacts while it holds an unapplied (and never committed) membership entry; the snapshot it ships
    must carry the member set of the snapshot's position, not the capturer's current one"""
    sc = Script(base_cfg([1, 2, 3], dyn=True, fallback=100000, chunk=65536), **kw)
    s = sc.s
    s.boot()
    sc.isolate(3)                     # 3 lags from the start: it will need the snapshot
    sc.elect(1, [2])
    sc.settle([1, 2], 2)
    s.submit(1, size=5)
    sc.settle([1, 2], 3)              # index 3 applied on 1 and 2
    s.drop(1, 2)
    s.drop(2, 1)
    sc.rec.do(('admin', 1, True, 4, 901))
    s.tick(1, 11)                     # 'add 4' appended at index 4 on node 1 only; it will never commit
    sc.rec.do(('compact', 1))
    s.tick(1, 11)
    s.tick(1, 11)
    s.connect(1, 3)
    s.connect(3, 1)
    s.tick(1, 11)                     # snapshot (position 3) goes to 3, followed by append_entries with 'add 4'
    sc.rec.do(('lose', 1, 3, 1))      # the append_entries behind the snapshot is lost
    sc.flush(1, 3)                    # 3 installs the snapshot
    sc.flush(3, 1)
    s.drop(1, 3)
    s.drop(3, 1)
    s.connect(2, 3)
    s.connect(3, 2)
    sc.elect_until(2, [3])            # term 2: the no-op of 2 takes index 4
    sc.settle([2, 3], 3)
    sc.join(1)
    sc.settle([1, 2, 3], 5)           # 1 cuts 'add 4' (callback: DISCARDED); no log holds a membership command
    return sc.rec


def old_snapshot_again(**kw):
    """two rejections of a lagging follower are handled by the leader in different ticks: after the first it ships its
    snapshot and the entries behind it, after the second it ships the same snapshot again - to a follower that has
    meanwhile applied later entries.  A snapshot behind the applied position must not be installed."""
    sc = Script(base_cfg([1, 2, 3], chunk=65536, fallback=100000), **kw)
    s = sc.s
    s.boot()
    sc.elect(1)
    sc.settle([1, 2, 3], 2)
    sc.isolate(3)
    for _ in range(3):
        s.submit(1, size=5)
    sc.settle([1, 2], 3)
    sc.rec.do(('compact', 1))
    sc.rec.do(('compact', 2))
    sc.settle([1, 2], 2)
    for _ in range(3):
        s.submit(1, size=5)
    sc.settle([1, 2], 3)              # entries behind the snapshot, committed by 1 and 2
    sc.elect_until(2, [1])            # a new leader: its next index for 3 is its log end + 1
    sc.settle([1, 2], 2)
    sc.join(3)
    s.tick(2, 11)
    s.tick(2, 11)                     # two append_entries queue up for 3 ...
    sc.flush(2, 3)                    # ... and draw two rejections
    s.deliver(3, 2)                   # the first one: next index of 3 goes back, 2 will ship its snapshot
    s.tick(2, 11)
    sc.flush(2, 3)                    # 3 installs the snapshot and stores the entries behind it
    s.tick(3, 11)                     # ... and applies them
    s.deliver(3, 2)                   # the second rejection, as old as the first
    s.tick(2, 11)                     # the same snapshot goes out again
    sc.flush(2, 3)
    s.tick(3, 11)
    sc.settle([1, 2, 3], 4)
    return sc.rec


def refused_snapshot_then_kill(**kw):
    """FX-C06-2.  A journaled follower with a dump file has compacted at its own position P when the leader, after an
    outdated rejection, ships its snapshot of an older position S < P once more.  The follower refuses it - and is killed
    right after the last piece, before any further tick of its own.  What it restarts from must still be its own dump
    of P (with the journal trimmed to P): before the repair the refused file had already replaced it, the journal did
    not hold that dump's entries, and the node came back at S without the entries it had acknowledged."""
    sc = Script(base_cfg([1, 2, 3], chunk=65536, fallback=100000, journal='file', dump='file'), **kw)
    s = sc.s
    s.boot()
    sc.elect(1)
    sc.settle([1, 2, 3], 2)
    sc.isolate(3)
    for _ in range(3):
        s.submit(1, size=5)
    sc.settle([1, 2], 3)
    sc.rec.do(('compact', 1))
    sc.rec.do(('compact', 2))
    sc.settle([1, 2], 3)
    for _ in range(3):
        s.submit(1, size=5)
    sc.settle([1, 2], 3)              # entries behind the snapshot, committed by 1 and 2
    sc.elect_until(2, [1])            # a new leader: its next index for 3 is its log end + 1
    sc.settle([1, 2], 2)
    sc.join(3)
    s.tick(2, 11)
    s.tick(2, 11)                     # two append_entries queue up for 3 ...
    sc.flush(2, 3)                    # ... and draw two rejections
    s.deliver(3, 2)                   # the first one: 2 will ship its snapshot (position S)
    s.tick(2, 11)
    sc.flush(2, 3)                    # 3 installs it and stores the entries behind it
    s.tick(3, 11)                     # ... applies them (position P > S)
    sc.rec.do(('compact', 3))
    s.tick(3, 11)
    s.tick(3, 11)                     # own dump of P written, journal trimmed to P
    s.deliver(3, 2)                   # the second rejection, as old as the first
    s.tick(2, 11)                     # the snapshot of S goes out again
    sc.flush(2, 3)                    # refused by 3
    s.kill(3)
    s.restart(3)
    sc.settle([1, 2, 3], 5)
    return sc.rec


def duplicate_add_then_truncation(**kw):
    """a leader that is cut off is asked to add a node that already is a member (and, after a second round, to remove a
    node that is not one): the request is refused and nothing is logged.  Were it logged as an entry without effect, the
    rollback of the truncation that follows (and the member set of a snapshot taken before it is applied) would undo a
    change that never happened (seed C10-r5).  After every step each member set is the fold of the node's log."""
    sc = Script(base_cfg([1, 2, 3], dyn=True, fallback=100000), **kw)
    s = sc.s
    s.boot()
    sc.elect_until(1, [2, 3])
    sc.settle([1, 2, 3], 3)
    s.submit(1, size=5)
    sc.settle([1, 2, 3], 3)
    for rnd, (leader, other, dup) in enumerate([(1, 2, 3), (2, 1, 3)]):
        sc.isolate(leader)
        sc.rec.do(('admin', leader, True, dup, 700 + rnd))     # already a member
        s.tick(leader, 11)
        sc.rec.do(('admin', leader, False, 6, 710 + rnd))      # not a member
        s.tick(leader, 11)
        sc.rec.do(('compact', leader))
        s.tick(leader, 11)
        s.tick(leader, 11)
        sc.elect_until(other, [dup])
        s.submit(other, size=5)
        sc.settle([other, dup], 3)
        sc.join(leader)
        sc.settle([1, 2, 3], 5)                                # the cut-off leader cuts whatever it appended
    s.submit(sc.rec.sim.leader() if hasattr(sc.rec.sim, 'leader') else 1, size=5)
    sc.settle([1, 2, 3], 4)
    return sc.rec


def spliced_snapshot_is_dropped(**kw):
    """a piece of a snapshot transfer is lost in flight without the sender noticing (no disconnect in between - not
    what TCP does, but what the transfer must survive), the following pieces arrive: the receiver assembles a file with
    a hole.  It must not become the dump the node would restart from (FX-C06-2: a received file replaces the stored one
    only if it can be read and is ahead), nothing is installed, and the next round of the leader brings the node up to
    date; killed and restarted in between, the node comes back from its own files."""
    sc = Script(base_cfg([1, 2, 3], chunk=32, fallback=100000, dump='file', journal='file'), **kw)
    s, sim = sc.s, sc.sim

    def trans(n):
        return sim.nodes[n]._SyncObj__serializer._Serializer__transmissions
    s.boot()
    sc.elect(1)
    sc.settle([1, 2, 3], 2)
    s.submit(1, size=10)
    sc.settle([1, 2, 3], 3)
    sc.rec.do(('compact', 3))
    sc.settle([1, 2, 3], 3)           # node 3 has a dump of its own
    sc.isolate(3)
    for _ in range(4):
        s.submit(1, size=20)
    sc.settle([1, 2], 4)
    sc.rec.do(('compact', 1))
    sc.settle([1, 2], 3)
    sc.join(3)
    for _ in range(6):
        s.tick(1, 11, budget=2)        # the send loop is cut by the clock after two turns
        if trans(1) and sim.queue_len(1, 3) >= 2:
            break
        sc.flush(1, 3)
        sc.flush(3, 1)
    sc.rec.do(('lose', 1, 3, 1))       # the piece queued last never arrives
    for _ in range(8):
        s.tick(1, 11)
        if not trans(1):
            break
    sc.flush(1, 3)                     # the rest of the transfer, with a hole
    s.kill(3)
    s.restart(3)                       # from its own journal and dump
    sc.settle([1, 2, 3], 12)
    RC.quiet_period(s, timeouts=4, submit_on=1)
    sc.rec.convergence = RC.convergence_problems(sc.rec, s, None, {})
    sc.rec.convergence_props = ('C05', 'C09', 'C06')
    return sc.rec


def dump_kill_points(**kw):
    """a journaled node with a dump file is killed at each storage primitive of the tick that writes its dump
    (tmp write, rename, right after the rename) and restarted: the file under the dump's name is always a complete
    snapshot, and the node comes back with everything it acknowledged"""
    sc = Script(base_cfg([1, 2], journal='file', dump='file'), **kw)
    s = sc.s
    s.boot()
    sc.elect(1)
    sc.settle([1, 2], 2)
    for w in range(8):
        for _ in range(3):
            s.submit(1, size=10)
        sc.settle([1, 2], 4)
        sc.rec.do(('compact', 2))
        s.clock[2] += 11
        sc.rec.do(('tickkill', 2, s.clock[2], 3, w))
        if 2 not in sc.sim.nodes:
            s.alive.discard(2)
            s.drop(1, 2)
            s.restart(2)
        sc.settle([1, 2], 6)
    return sc.rec


def install_drops_acked(**kw):
    """a follower stores and acknowledges an entry and then, in the same run of deliveries, installs the leader's
    snapshot of an earlier position (sent after an outdated rejection): the entries it holds behind the snapshot's
    position must survive the install - the leader counts the acknowledgement (trace found by the refinement worker
    while looking for a sound abstract install rule)"""
    sc = Script(base_cfg([1, 2, 3], batch=1000, chunk=100, fallback=100000), **kw)
    s = sc.s
    s.boot()
    sc.elect(1, [3])                  # 2 takes no part (its vote request is still queued)
    while sc.sim.queue_len(1, 2):
        sc.rec.do(('lose', 1, 2, 1))  # ... and misses the first append_entries (the no-op at index 2)
    sc.flush(1, 3); sc.flush(3, 1)
    s.submit(1, size=10)              # index 3
    s.tick(1, 11); s.tick(1, 11)
    sc.flush(1, 3); sc.flush(3, 1)
    sc.flush(1, 2)                    # 2 lacks the previous entry of both messages: two rejections queue up
    s.tick(1, 11)                     # index 3 committed and applied on 1
    s.deliver(2, 1)                   # the first rejection: next index of 2 back to 2
    s.tick(1, 11)                     # 1 sends 2..3 again
    s.submit(1, size=10)              # index 4
    s.tick(1, 11)
    sc.rec.do(('compact', 1))
    s.tick(1, 11); s.tick(1, 11)      # snapshot at position 3 taken, log of 1 now starts at 2
    s.deliver(2, 1)                   # the second rejection, as old as the first: next index of 2 back to 2 again
    s.tick(1, 11)                     # 1 ships its snapshot - behind the append_entries already queued for 2
    n = sc.sim.queue_len(1, 2)
    sc.flush(1, 2, n - 1)             # 2 stores 2, 3, 4, acknowledges 4, then installs the snapshot of position 3
    sc.flush(2, 1)
    s.tick(1, 11)                     # 1 commits 4 on 2's acknowledgement
    sc.isolate(1)
    sc.elect_until(3, [2])            # 3 (last entry 3) is elected by 2 if 2 lost entry 4
    sc.settle([2, 3], 3)
    sc.join(1)
    sc.settle([1, 2, 3], 4)
    return sc.rec


def snapshot_at_membership_entry(**kw):
    """a snapshot taken while the last applied entry is a membership change, shipped to a lagging follower: the
    change belongs to the snapshot"""
    sc = Script(base_cfg([1, 2, 3], dyn=True, fallback=100000, chunk=65536), **kw)
    s = sc.s
    s.boot()
    sc.isolate(3)                     # 3 lags from the start: it will need the snapshot
    sc.elect(1, [2])
    sc.settle([1, 2], 2)
    s.submit(1, size=5)
    sc.settle([1, 2], 3)
    s.voters.append(4)
    s.clock[4] = 0
    sc.rec.do(('restart', 4, [1, 2, 3], 1, 5))
    s.alive.add(4)
    sc.rec.do(('admin', 1, True, 4, 901))
    s.tick(1, 11)                     # 'add 4' appended on 1
    for b in (1, 2):
        s.connect(b, 4)
        s.connect(4, b)
    sc.settle([1, 2, 4], 4)           # ... committed and applied by 1, 2 and 4: it is the last applied entry
    sc.rec.do(('compact', 1))
    s.tick(1, 11)
    s.tick(1, 11)
    sc.join(3)
    sc.settle([1, 2, 3, 4], 5)        # 3 catches up from the snapshot: its member set must contain 4
    return sc.rec


def restart_empty_follower(**kw):
    """a memory-only follower is stopped and comes back empty while the same leader stays in office: the leader had
    counted its acknowledgements, the node now holds nothing of them - it must be brought back by entries or snapshot"""
    sc = Script(base_cfg([1, 2, 3], fallback=100000), **kw)
    s = sc.s
    s.boot()
    sc.elect(1)
    sc.settle([1, 2, 3], 2)
    for _ in range(4):
        s.submit(1, size=10)
    sc.settle([1, 2, 3], 4)           # everything acknowledged by 3
    s.kill(3)
    s.submit(1, size=10)
    sc.settle([1, 2], 3)
    s.restart(3)                      # same address, empty log
    RC.quiet_period(s, timeouts=4, submit_on=2)
    sc.rec.convergence = RC.convergence_problems(sc.rec, s, None, {})
    return sc.rec


def stale_tail_behind_snapshot(**kw):
    """a deposed leader comes back with an uncommitted tail that reaches BEYOND the position of the new leader's
    snapshot and conflicts with it from before the new leader's first kept entry: entries cannot bring it up to date
    (both prev-entry checks fail), only the snapshot can - it must be installed although the node's log is longer
    (seed C09-r3: refusal decided by the log end instead of the applied position leaves the node behind for ever)"""
    sc = Script(base_cfg([1, 2, 3], chunk=64, fallback=100000), **kw)
    s = sc.s
    s.boot()
    sc.elect(1)
    sc.settle([1, 2, 3], 2)
    s.submit(1, size=20)
    sc.settle([1, 2, 3], 3)
    sc.isolate(1)
    for _ in range(12):               # a long tail nobody else ever sees
        s.submit(1, size=20)
    s.tick(1, 11)
    sc.elect_until(2, [3])
    sc.settle([2, 3], 2)
    for _ in range(3):                # fewer committed entries than the stale tail is long
        s.submit(2, size=20)
    sc.settle([2, 3], 4)
    sc.rec.do(('compact', 2))
    sc.settle([2, 3], 3)
    sc.rec.do(('compact', 3))
    sc.settle([2, 3], 2)
    RC.quiet_period(s, timeouts=6, submit_on=2)
    sc.rec.convergence = RC.convergence_problems(sc.rec, s, None, {})
    sc.rec.convergence_props = ('C05', 'C09')
    return sc.rec


def meta_ahead_restart(**kw):
    """a journaled deposed leader with an uncommitted tail gets the first chunk of a snapshot whose commit index covers
    that tail, its one-second timer writes .meta, it is killed and restarted: the persisted commit index must not be
    ahead of what the node verified against the leader, or the restart executes entries nobody committed
    (seed C06-r3: max(own commit, leader's commit) handed to the journal)"""
    sc = Script(base_cfg([1, 2, 3], chunk=64, journal='file', dump='file'), **kw)
    s = sc.s
    s.boot()
    sc.elect(1)
    sc.settle([1, 2, 3], 2)
    s.submit(1, size=20)
    sc.settle([1, 2, 3], 3)
    sc.isolate(1)
    for _ in range(3):
        s.submit(1, size=20)
    s.tick(1, 11)
    sc.elect_until(2, [3])
    sc.settle([2, 3], 2)
    for _ in range(8):
        s.submit(2, size=20)
    sc.settle([2, 3], 4)
    sc.rec.do(('compact', 2))
    sc.settle([2, 3], 3)
    sc.join(1)
    s.tick(2, 11)
    s.deliver(2, 1)               # first message from the new leader: a snapshot chunk, commit index beyond 1's tail
    s.tick(1, 11)                 # the one-second timer stores .meta
    s.kill(1)
    s.restart(1)
    s.tick(1, 11)                 # journal replay up to the persisted commit index
    sc.settle([1, 2, 3], 8)
    return sc.rec


def busy_cut_leader(**kw):
    """a leader that is cut off from every other voter while a client keeps submitting a command before every tick, ticks
    closer together than the heartbeat period, unbatched mode (every accepted command sends append_entries at once and
    pushes the heartbeat timer ahead): it must still step down after the fallback timeout
    (seed C20-r3: fallback evaluated only on ticks whose heartbeat timer has expired)"""
    sc = Script(base_cfg([1, 2, 3], fallback=300, use_batch=False), **kw)
    s = sc.s
    s.boot()
    sc.elect(1)
    sc.settle([1, 2, 3], 3)
    s.submit(1, size=10)
    sc.settle([1, 2, 3], 3)
    sc.isolate(1)
    for _ in range(90):               # 90 * 5 = 450 time units > fallback 300
        s.submit(1, size=10)
        s.tick(1, 5)
    s.tick(1, 11)
    return sc.rec


def big_entry_lost_predecessor(**kw):
    """a small entry is lost in flight when the connection drops and comes back at once; the next command is bigger
    than a batch and goes out in pieces whose previous entry the follower lacks: the follower must refuse the entry after
    its last piece (or at once) without raising, and be brought up to date afterwards
    (seed C11-r3: start piece refused without opening the buffer, later pieces appended to the idle buffer)"""
    sc = Script(base_cfg([1, 2], batch=100), **kw)
    s = sc.s
    s.boot()
    sc.elect(1)
    sc.settle([1, 2], 3)
    s.submit(1, size=10)
    s.tick(1, 11)
    s.tick(1, 11)                     # the small entry is on its way to 2
    s.drop(1, 2)
    s.drop(2, 1)                      # both ends notice: what was queued is gone
    s.connect(1, 2)
    s.connect(2, 1)
    s.submit(1, size=350)             # four pieces at batch 100
    s.tick(1, 11)
    s.tick(1, 11)
    sc.flush(1, 2)
    sc.settle([1, 2], 6)
    s.submit(1, size=1200)
    sc.settle([1, 2], 6)
    return sc.rec


def reelected_leader_membership_gate(**kw):
    """a node that led before (and handled membership changes then) is elected again; a membership change reaches it
    before the no-op of its new term is committed: it must be refused, and accepted once the own-term entry is committed
    (seed C10-r3: one merged gate marker that is only cleared lazily and not re-armed on re-election)"""
    sc = Script(base_cfg([1, 2, 3], dyn=True), **kw)
    s = sc.s
    s.boot()
    sc.elect(1)
    sc.settle([1, 2, 3], 3)
    s.submit(1, size=10)
    sc.settle([1, 2, 3], 3)
    sc.rec.do(('admin', 1, True, 4, 903))     # a change and its reversal: the member set is {1,2,3} again
    sc.settle([1, 2, 3], 4)
    sc.rec.do(('admin', 1, False, 4, 904))
    sc.settle([1, 2, 3], 4)
    sc.isolate(1)
    s.tick(1, 11)
    sc.elect_until(2, [3])
    sc.settle([2, 3], 3)
    s.submit(2, size=10)
    sc.settle([2, 3], 3)
    sc.join(1)
    sc.settle([1, 2, 3], 4)                    # 1 is a follower of the new term and caught up
    sc.isolate(2)
    s.tick(3, 11)
    # 1 stands again; the votes arrive, its append_entries of the new term stay in the channel
    for _ in range(3):
        if sc.sim.nodes[1]._SyncObj__raftState == 2:
            break
        s.tick(1, sc.rec.cfg['tmin'] + sc.rec.cfg['tspan'] + 1)
        while sc.head_type(1, 3) == 'request_vote':
            s.deliver(1, 3)
        while sc.head_type(3, 1) == 'response_vote':
            s.deliver(3, 1)
    sc.rec.do(('admin', 1, True, 4, 901))     # own-term no-op not committed yet: must be refused
    s.tick(1, 11)
    sc.join(2)
    sc.settle([1, 2, 3], 4)
    sc.rec.do(('admin', 1, True, 4, 902))     # now allowed
    sc.settle([1, 2, 3], 4)
    sc.rec.do(('admin', 1, False, 4, 905))
    sc.settle([1, 2, 3], 4)
    return sc.rec


def compacted_stale_leader_backoff(**kw):
    """a leader compacts its log, is cut off and keeps accepting a few commands (an uncommitted tail in the term of the
    entries it retained); the others elect a new leader that has not compacted and commits its own commands; after the
    heal the stale node must be walked back to the divergence point and brought up to date
    (seed C05-r3: skip-a-whole-term back-off that ignores the follower's own compaction and cycles for ever)"""
    sc = Script(base_cfg([1, 2, 3], fallback=100000, batch=65536), **kw)   # one append_entries carries the whole tail
    s = sc.s
    s.boot()
    sc.elect(1)
    sc.settle([1, 2, 3], 2)
    for _ in range(4):
        s.submit(1, size=10)
    sc.settle([1, 2, 3], 4)
    sc.rec.do(('compact', 1))
    sc.settle([1, 2, 3], 3)
    for x in (2, 3):                  # only 1 notices the break: the others go on sending to it, and a new leader's
        s.drop(1, x)                  # next index for 1 advances optimistically beyond the point where the logs part
    for _ in range(2):
        s.submit(1, size=10)
    s.tick(1, 11)
    sc.elect_until(2, [3])
    sc.settle([2, 3], 2)
    for _ in range(5):
        s.submit(2, size=10)
    sc.settle([2, 3], 4)
    RC.quiet_period(s, timeouts=6, submit_on=1)
    sc.rec.convergence = RC.convergence_problems(sc.rec, s, None, {})
    return sc.rec


def raising_replay_after_restart(**kw):
    """commands whose method raises sit in the journal of a node that is killed and restarted: the replay from the
    journal steps over them like the first execution did, later entries are applied, nothing escapes the tick
    (seed C12-r3: the exception of a replayed journal entry re-raised)"""
    sc = Script(base_cfg([1, 2, 3], journal='file'), **kw)
    s = sc.s
    s.boot()
    sc.elect(1)
    sc.settle([1, 2, 3], 2)
    s.submit(1, size=5)
    s.submit(1, size=5, raises=True)
    s.submit(2, size=5, raises=True)
    s.submit(1, size=5)
    sc.settle([1, 2, 3], 5)
    s.kill(2)
    s.restart(2)
    sc.settle([1, 2, 3], 4)
    s.submit(1, size=5, raises=True)
    s.submit(1, size=5)
    sc.settle([1, 2, 3], 4)
    s.kill(3)
    s.kill(2)
    s.restart(3)
    s.restart(2)
    sc.settle([1, 2, 3], 5)
    return sc.rec


def observer_of_snapshot_installed_voter(**kw):
    """dynamic membership; a voter with a read-only node attached falls behind, is brought up to date by a snapshot
    (which carries the member set) and later becomes leader with the observer's connection still up: the observer must
    follow the new leader and converge (seed C18-r3: installing the snapshot's member set pruned the connected set to
    the voters, so the new leader never sent anything to its observers)"""
    RO = RO_BASE + 1
    sc = Script(base_cfg([1, 2, 3], dyn=True, chunk=64, fallback=300), **kw)
    s = sc.s
    s.boot()
    sc.elect(1)
    sc.settle([1, 2, 3], 3)
    s.clock.setdefault(RO, 0)
    s.clock[RO] += 1
    sc.rec.do(('restart', RO, [1, 2, 3], s.clock[RO], s.rnd()))
    s.alive.add(RO)
    s.connect(RO, 3)
    s.connect(3, RO)                  # the observer talks to voter 3 only
    s.submit(1, size=10)
    sc.settle([1, 2, 3, RO], 3)
    for x in (1, 2):                  # 3 stalls (its observer stays attached)
        s.drop(3, x)
        s.drop(x, 3)
    for _ in range(6):
        s.submit(1, size=10)
    sc.settle([1, 2], 4)
    sc.rec.do(('compact', 1))
    sc.settle([1, 2], 3)
    for x in (1, 2):
        s.connect(3, x)
        s.connect(x, 3)
    sc.settle([1, 2, 3, RO], 8)       # 3 is caught up by snapshot
    sc.isolate(1)                     # the old leader goes away
    for _ in range(4):
        if sc.sim.nodes[3]._SyncObj__raftState == 2:
            break
        sc.elect(3, [2])
    s.submit(3, size=10)
    s.submit(RO, size=10)
    for _ in range(12):
        sc.settle([2, 3, RO], 1)
    states = dict((n, (sc.sim.nodes[n]._SyncObj__raftLastApplied, tuple(sc.sim.nodes[n].history))) for n in (2, 3, RO))
    probs = []
    if sc.sim.nodes[3]._SyncObj__raftState == 2 and len(set(states.values())) > 1:
        probs.append('the read-only node attached to the leader does not converge: %r'
                     % dict((n, (a, len(h))) for n, (a, h) in states.items()))
    sc.rec.convergence = probs
    sc.rec.convergence_props = ('C05', 'C18')
    return sc.rec


def observers_join_after_snapshot_install(**kw):
    """dynamic membership; a voter is brought up to date by a snapshot (which replaces its member set) while NO read-only
    node is attached to it; two observers attach afterwards; the voter becomes leader with the votes of both other
    voters, which then go away: with one voter of three left it commits nothing, answers nothing and steps down - the
    observers' acknowledgements never count (seed C18-r7: after the install the set of replication targets and the
    set of voters are one object, so observers that connect later become voters of that node)"""
    RO1, RO2 = RO_BASE + 1, RO_BASE + 2
    sc = Script(base_cfg([1, 2, 3], dyn=True, chunk=64, fallback=300), **kw)
    s = sc.s
    s.boot()
    sc.elect(1)
    sc.settle([1, 2, 3], 3)
    for x in (1, 2):                  # 3 stalls
        s.drop(3, x)
        s.drop(x, 3)
    for _ in range(6):
        s.submit(1, size=10)
    sc.settle([1, 2], 4)
    sc.rec.do(('compact', 1))
    sc.settle([1, 2], 3)
    for x in (1, 2):
        s.connect(3, x)
        s.connect(x, 3)
    sc.settle([1, 2, 3], 8)           # 3 is caught up by snapshot, nobody else attached
    for RO in (RO1, RO2):
        s.clock.setdefault(RO, 0)
        s.clock[RO] += 1
        sc.rec.do(('restart', RO, [1, 2, 3], s.clock[RO], s.rnd()))
        s.alive.add(RO)
        s.connect(RO, 3)
        s.connect(3, RO)
    sc.settle([1, 2, 3, RO1, RO2], 3)
    sc.isolate(1)                     # the old leader goes away
    sc.elect_until(3, [2])
    sc.settle([2, 3, RO1, RO2], 3)
    sc.isolate(2)                     # ... and so does the other voter: 3 is alone with its observers
    for _ in range(3):
        s.submit(3, size=10, cb=True)
    sc.settle([3, RO1, RO2], 40)
    return sc.rec


def readded_address_partial_replay(**kw):
    """KF-C10-1 (found by the membership proof worker, AbstractM/Examples.v run D): addresses that were members before come
    back as fresh, empty processes - which the operator discipline of C10 allows.  A joiner is started with the CURRENT
    member list and then replays the membership entries of the WHOLE log on top of it; when some address was removed and
    later added again, a log prefix that ends between the two entries shrinks the joiner's member set to one that never
    existed.  Here: 5 voters, node 2 hears nothing from the start (its table stays the initial one); in term 1 the
    leader commits rem 3, rem 4, add 3 (fresh), add 4 (fresh), rem 5, and appends add 5 (fresh node 5, started with
    the current list {1,2,3,4}).  Node 5 receives the entries up to 'rem 4' only: its member set becomes {1,2}; node 2
    still lists address 5, so the two are connected; node 5 times out, node 2 grants, node 5 is leader of term 2 with 2
    votes and commits a no-op at a position where node 1 committed 'add 3': committed entries diverge."""
    def fresh(n, oth):
        s.clock[n] = s.clock.get(n, 0) + 1
        sc.rec.do(('restart', n, oth, s.clock[n], s.rnd()))
        s.alive.add(n)

    def others_of(n):
        from harness.sim import nid_of
        return sorted(nid_of(x) for x in sc.sim.nodes[n]._SyncObj__otherNodes)
    sc = Script(base_cfg([1, 2, 3, 4, 5], dyn=True, batch=100), **kw)
    s = sc.s
    s.boot()
    sc.isolate(2)                                   # node 2 hears nothing from the start
    sc.elect_until(1, [3, 4, 5])
    sc.settle([1, 3, 4, 5], 3)
    s.submit(1, size=10)
    sc.settle([1, 3, 4, 5], 3)
    sc.rec.do(('admin', 1, False, 3, 901))
    sc.settle([1, 3, 4, 5], 4)
    s.kill(3)                                       # removal committed: shut down
    sc.rec.do(('admin', 1, False, 4, 902))
    sc.settle([1, 4, 5], 4)
    s.kill(4)
    fresh(3, [1, 2, 5])                             # address 3 again: empty process, current member list
    sc.rec.do(('admin', 1, True, 3, 903))
    s.tick(1, 11)
    s.tick(1, 11)
    sc.flush(1, 5)
    s.tick(5, 11)
    for x in (1, 5):
        s.connect(3, x)
        s.connect(x, 3)
    sc.settle([1, 3, 5], 8)
    fresh(4, [1, 2, 3, 5])
    sc.rec.do(('admin', 1, True, 4, 904))
    s.tick(1, 11)
    s.tick(1, 11)
    sc.flush(1, 5)
    sc.flush(1, 3)
    s.tick(5, 11)
    s.tick(3, 11)
    for x in (1, 3, 5):
        s.connect(4, x)
        s.connect(x, 4)
    sc.settle([1, 3, 4, 5], 8)
    sc.rec.do(('admin', 1, False, 5, 905))
    sc.settle([1, 3, 4, 5], 4)
    s.kill(5)
    fresh(5, [1, 2, 3, 4])
    sc.rec.do(('admin', 1, True, 5, 906))
    s.tick(1, 11)
    s.connect(5, 1)
    s.connect(1, 5)
    s.tick(1, 11)
    s.tick(1, 11)
    for _ in range(40):                             # node 5 gets a prefix of the log: up to 'rem 4', not 'add 3'
        if others_of(5) == [1, 2]:
            break
        if sc.sim.queue_len(1, 5):
            s.deliver(1, 5)
        elif sc.sim.queue_len(5, 1):
            s.deliver(5, 1)
        else:
            s.tick(1, 11)
    s.drop(5, 1)
    s.drop(1, 5)
    s.connect(5, 2)
    s.connect(2, 5)
    for _ in range(3):
        if sc.sim.nodes[5]._SyncObj__raftState == 2:
            break
        sc.elect(5, [2])
    sc.settle([5, 2], 6)
    return sc.rec


def joiner_list_read_during_pending_change(**kw):
    """KF-C10-2 (found by the membership proof worker, AbstractM/Examples.v run E; no address is re-used): a new voter is
    started with the member list read from the leader while a removal was pending that never commits.  Voters 1,2,3;
    leader 1 (cut off) appends 'rem 3' and shows the member list {1,2}; node 4 is started with it; 2 is elected by 3, 1's
    entry is truncated (its table goes back to {2,3}); 'add 4' commits - node 4's table stays {1,2}, node 3 is missing for
    ever (log replay never repairs a joiner's table); 'add 5' is committed by {2,3,5} of five; node 4 times out, node 1
    grants, node 4 leads term 3 with two votes and commits a no-op where node 2 committed 'add 5'."""
    sc = Script(base_cfg([1, 2, 3], dyn=True), **kw)
    s = sc.s

    def fresh(n, o):
        s.clock[n] = s.clock.get(n, 0) + 1
        sc.rec.do(('restart', n, o, s.clock[n], s.rnd()))
        s.alive.add(n)
        s.voters.append(n)
    s.boot()
    sc.elect_until(1, [2, 3])
    sc.settle([1, 2, 3], 3)
    sc.isolate(1)                                   # what 1 does next reaches nobody
    sc.rec.do(('admin', 1, False, 3, 901))
    s.tick(1, 11)                                   # 'rem 3' appended at 1 only: its member list reads {1, 2}
    fresh(4, [1, 2])                                # the operator reads that list now
    sc.elect_until(2, [3])
    sc.settle([2, 3], 2)
    sc.join(1)
    sc.settle([1, 2, 3], 4)                         # 1's 'rem 3' is truncated, its table is {2, 3} again
    sc.rec.do(('admin', 2, True, 4, 902))
    s.tick(2, 11)
    for x in (1, 2):
        s.connect(4, x)
        s.connect(x, 4)
    s.tick(1, 11)
    sc.settle([1, 2, 4], 6)                         # 'add 4' committed; node 4's table is still {1, 2}
    fresh(5, [1, 2, 3, 4])
    sc.rec.do(('admin', 2, True, 5, 903))
    s.tick(2, 11)
    for x in (2, 3):
        s.connect(5, x)
        s.connect(x, 5)
    for x in (1, 4):                                # 1 and 4 miss 'add 5'
        s.drop(2, x)
        s.drop(x, 2)
    sc.settle([2, 3, 5], 8)                         # committed by {2, 3, 5}
    s.connect(4, 1)
    s.connect(1, 4)
    for _ in range(3):
        if sc.sim.nodes[4]._SyncObj__raftState == 2:
            break
        sc.elect(4, [1])
    sc.settle([4, 1], 5)
    return sc.rec


def joiner_snapshot_lists_itself(**kw):
    """KF-C10-3 (found by the proof worker on the refinement of the snapshot fragment to AbstractM: the run of
    coq/Raft/RefineM2Finding.v, respecting the transport's member filter at every delivery and connect).  Voters 1-4,
    joiners 5 and 6.  Node 5 is started empty with the current list, receives the log up to and including its own
    'add 5' (entry 6, uncommitted), applies up to 5 and takes a snapshot of position 5: the member set written into it is
    its table plus ITSELF, {1,2,3,4,5}, although the configuration of position 5 is {1,2,3,4} (__clusterBeforeChange skips
    entries that name the node itself, and a node does not know whether it is a member).  5 is elected by 1 (holds
    'add 5') and 2 (lists 5 through a stale uncommitted 'add 5' of an older term), and its snapshot is installed by 2:
    node 2 now lists 5 with no 'add 5' anywhere in its log.  3 is elected by {2,4}, overwrites 'add 5', commits 'add 6'
    and more with {3,4,6}; 2 is elected by 1 and 5 - three votes of ITS five-member table - and commits a no-op at
    position 7 where node 3 committed 'add 6'."""
    import os
    sc = Script(base_cfg([1, 2, 3, 4], tspan=20, fallback=100, batch=1000, chunk=10 ** 6, dyn=True), **kw)
    path = os.path.join(os.path.dirname(os.path.abspath(__file__)), 'data', 'joiner_snapshot_events.txt')
    for ev in eval('[' + open(path).read() + ']'):
        sc.rec.do(ev)
    return sc.rec


def member_entry_behind_stored_commit(**kw):
    """dynamic membership with journal files: a follower appends and applies an 'add', is stopped before the journal's
    one-second timer has stored a commit index that covers the entry, and is started again with its original member
    list.  The entry sits in its journal behind the stored commit index: it takes effect when it is applied after the
    restart (seed C10-r6: the 'replaying the journal' state is switched off after the first apply pass, which ends at
    the STORED commit index).  Then the same with a removal."""
    sc = Script(base_cfg([1, 2, 3], dyn=True, journal='file', fallback=100000), **kw)
    s = sc.s
    s.boot()
    sc.elect_until(1, [2, 3])
    sc.settle([1, 2, 3], 3)
    s.clock[4] = s.clock.get(4, 0) + 1
    sc.rec.do(('restart', 4, [1, 2, 3], s.clock[4], s.rnd()))
    s.alive.add(4)
    s.voters.append(4)
    sc.rec.do(('admin', 1, True, 4, 801))
    s.tick(1, 11)
    for x in (1, 2, 3):
        s.connect(4, x)
        s.connect(x, 4)
    sc.flush(1, 2)
    sc.flush(2, 1)
    s.tick(1, 11)
    sc.flush(1, 2)                     # node 2 learns that the entry is committed ...
    s.tick(2, 1)                       # ... and applies it, less than a second after the last stored commit index
    s.kill(2)
    s.members = [1, 2, 3]              # restarted with the list it was first started with
    s.restart(2)
    s.members = [1, 2, 3, 4]
    s.connect(2, 4)
    s.connect(4, 2)
    sc.settle([1, 2, 3, 4], 6)
    sc.rec.do(('admin', 1, False, 3, 802))
    s.tick(1, 11)
    sc.flush(1, 2)
    sc.flush(2, 1)
    s.tick(1, 11)
    sc.flush(1, 2)
    s.tick(2, 1)
    s.kill(2)
    s.members = [1, 2, 3]
    s.restart(2)
    sc.settle([1, 2, 4], 6)
    return sc.rec


def journal_cut_after_compaction(**kw):
    """a journaled follower whose journal has been through a head drop (log compaction: clear + re-append) later has
    to cut an uncommitted suffix for a new leader, with records of different sizes around the cut point, appends and
    acknowledges the new leader's entries, and is then killed and restarted: the journal file must give back exactly
    what the node acknowledged (seed C06-r4: record offsets remembered in memory and not reset by clear())"""
    sc = Script(base_cfg([1, 2, 3, 4, 5], journal='file', dump='file', fallback=100000), **kw)
    s = sc.s
    s.boot()
    sc.elect(1)
    sc.settle([1, 2, 3, 4, 5], 2)
    for size in (10, 45, 5, 60, 20):
        s.submit(1, size=size)
    sc.settle([1, 2, 3, 4, 5], 4)
    sc.rec.do(('compact', 3))
    sc.settle([1, 2, 3, 4, 5], 3)                # node 3's journal: cleared and re-appended from its compaction point
    for x in (2, 4, 5):                         # {1,3} | {2,4,5}
        for y in (1, 3):
            s.drop(x, y)
            s.drop(y, x)
    for size in (33, 7, 50):
        s.submit(1, size=size)
    s.tick(1, 11)
    s.tick(1, 11)
    sc.flush(1, 3)                              # 3 holds an uncommitted tail of leader 1
    sc.elect_until(2, [4, 5])
    sc.settle([2, 4, 5], 2)
    for size in (12, 70):
        s.submit(2, size=size)
    sc.settle([2, 4, 5], 4)
    for x in (2, 4, 5):
        s.connect(3, x)
        s.connect(x, 3)
    sc.settle([2, 3, 4, 5], 6)                  # 3 cuts the tail, appends and acknowledges the new leader's entries
    s.kill(3)
    s.restart(3)
    sc.settle([2, 3, 4, 5], 6)
    return sc.rec


def snapshot_install_changes_cluster_size(**kw):
    """dynamic membership: the cluster grows from 3 to 5 while one old member is cut off; the leader compacts its log past
    the two add entries, so the lagging member learns the new members from the snapshot it installs, not from log entries;
    later it sits in a partition with one other node - an old-size majority, a real minority - and times out: it must not
    win, and nothing may be decided there (seed C10-r4: a quorum size cached at every in-place change of the member set
    but not where a snapshot replaces the set wholesale)"""
    def fresh(n, o):
        s.clock[n] = s.clock.get(n, 0) + 1
        sc.rec.do(('restart', n, o, s.clock[n], s.rnd()))
        s.alive.add(n)
        s.voters.append(n)
    sc = Script(base_cfg([1, 2, 3], dyn=True, chunk=64, fallback=100000), **kw)
    s = sc.s
    s.boot()
    sc.elect(1)
    sc.settle([1, 2, 3], 3)
    s.submit(1, size=10)
    sc.settle([1, 2, 3], 3)
    for x in (1, 2):                                # 3 is cut off
        s.drop(3, x)
        s.drop(x, 3)
    fresh(4, [1, 2, 3])
    sc.rec.do(('admin', 1, True, 4, 901))
    s.tick(1, 11)
    for x in (1, 2):
        s.connect(4, x)
        s.connect(x, 4)
    s.tick(2, 11)
    sc.settle([1, 2, 4], 6)
    fresh(5, [1, 2, 3, 4])
    sc.rec.do(('admin', 1, True, 5, 902))
    s.tick(1, 11)
    for x in (1, 2, 4):
        s.tick(x, 11)
        sc.flush(1, x)
        s.tick(x, 11)
    for x in (1, 2, 4):
        s.connect(5, x)
        s.connect(x, 5)
    sc.settle([1, 2, 4, 5], 6)
    for _ in range(4):
        s.submit(1, size=10)
    sc.settle([1, 2, 4, 5], 4)
    sc.rec.do(('compact', 1))
    sc.settle([1, 2, 4, 5], 3)
    for x in (1, 2):
        s.connect(3, x)
        s.connect(x, 3)
    sc.settle([1, 2, 3, 4, 5], 8)                   # 3 installs the snapshot: five members
    for x in (4, 5):
        s.connect(3, x)
        s.connect(x, 3)
    sc.settle([1, 2, 3, 4, 5], 3)
    for a in (3, 4):                                # {3,4} | {1,2,5}
        for b in (1, 2, 5):
            s.drop(a, b)
            s.drop(b, a)
    for _ in range(3):
        sc.elect(3, [4])                            # 3 stands with 4's vote only: 2 of 5
    s.submit(3, size=10)
    sc.settle([3, 4], 4)
    s.submit(1, size=10)
    sc.settle([1, 2, 5], 4)
    return sc.rec


def chunk_keepalive_is_not_an_ack(**kw):
    """a deposed leader still carries an uncommitted tail; the new leader's first append_entries to it is lost with the
    connection, the next thing it gets is a command bigger than a batch, in pieces.  The replies to the non-final
    pieces (reset = success = False, next index = the follower's own log end + 1) say nothing about agreement: the
    leader must not take them for acknowledgements, or it commits with a follower that holds something else
    (seed C01-r4: `if reset ... elif matchIndex < idx` instead of `if success`)"""
    sc = Script(base_cfg([1, 2, 3], batch=100, fallback=100000), **kw)
    s = sc.s
    s.boot()
    sc.elect(1)
    sc.settle([1, 2, 3], 2)
    s.submit(1, size=10)
    s.submit(1, size=10)
    sc.settle([1, 2, 3], 3)
    sc.isolate(1)
    s.submit(1, size=10)                          # x1, x2: the stale tail of 1
    s.submit(1, size=10)
    s.tick(1, 11)
    sc.elect_until(2, [3])                        # 2 leads the next term; its no-op is on its way to 3
    for x in (3,):                                # ... and 2 loses 3 right after the election
        s.drop(2, x)
        s.drop(x, 2)
    s.connect(1, 2)
    s.connect(2, 1)
    s.tick(2, 11)                                 # heartbeat / no-op towards 1 ...
    s.drop(2, 1)
    s.drop(1, 2)                                  # ... lost with the connection, which comes back at once
    s.connect(1, 2)
    s.connect(2, 1)
    s.submit(2, size=350)                         # goes out in pieces
    s.tick(2, 11)
    s.tick(2, 11)
    sc.flush(2, 1)
    sc.flush(1, 2)
    s.submit(2, size=10)
    s.submit(2, size=10)
    for _ in range(4):
        s.tick(2, 11)
        sc.flush(2, 1)
        sc.flush(1, 2)
    # the other two go their own way
    s.drop(1, 2)
    s.drop(2, 1)
    s.connect(1, 3)
    s.connect(3, 1)
    sc.elect_until(3, [1])
    s.submit(3, size=10)
    s.submit(3, size=10)
    sc.settle([1, 3], 5)
    return sc.rec


def version_survives_snapshot_and_dump(**kw):
    """the cluster switches its code version, compacts the log behind the switch; a lagging node is brought up to date
    by snapshot and another one restarts from its dump file: both must report the switched version
    (seed C09-r4 / C17 round 1: the enabled version dropped from the serialised attributes)"""
    sc = Script(base_cfg([1, 2, 3], chunk=64, dump='file', journal='file', fallback=100000), **kw)
    s = sc.s
    s.boot()
    sc.elect(1)
    sc.settle([1, 2, 3], 2)
    s.submit(1, size=10)
    sc.settle([1, 2, 3], 3)
    for x in (1, 2):
        s.drop(3, x)
        s.drop(x, 3)
    sc.rec.do(('setver', 1, 1, 950))
    sc.settle([1, 2], 4)
    for _ in range(3):
        s.submit(1, size=10)
    sc.settle([1, 2], 4)
    sc.rec.do(('compact', 1))
    sc.rec.do(('compact', 2))
    sc.settle([1, 2], 4)
    s.submit(1, size=10)
    sc.settle([1, 2], 3)
    for x in (1, 2):
        s.connect(3, x)
        s.connect(x, 3)
    sc.settle([1, 2, 3], 8)                     # 3 installs the snapshot taken after the switch
    s.kill(2)
    s.restart(2)                                # 2 comes back from its dump file + journal
    sc.settle([1, 2, 3], 5)
    s.submit(2, size=10)
    s.submit(3, size=10)
    sc.settle([1, 2, 3], 4)
    return sc.rec


def vote_regrant_after_flap(**kw):
    """five voters, a split election: 1 and 3 stand in the same term, 2 votes for 1, 4 and 5 vote for 3 (which wins);
    the connection between 1 (still a candidate) and 2 flaps: nothing 1 or 2 do at the reconnect may give 1 a second
    vote of 2 (seed C07-r4: a candidate re-sends its request when a peer connects, a voter answers the candidate it
    voted for again, and votes are counted, not collected)"""
    sc = Script(base_cfg([1, 2, 3, 4, 5], fallback=100000), **kw)
    s = sc.s
    s.boot()
    T = sc.rec.cfg['tmin'] + sc.rec.cfg['tspan'] + 1
    s.tick(1, T)                                  # candidate of term 1
    s.tick(3, T)                                  # candidate of term 1 as well
    sc.flush(1, 2)
    sc.flush(2, 1)                                # 2 voted for 1: 1 has two votes
    for x in (4, 5):
        sc.flush(3, x)
        sc.flush(x, 3)                            # 3 has three votes and leads term 1
    for x in (4, 5):
        sc.flush(1, x)
        sc.flush(x, 1)                            # refused
    for _ in range(2):                            # the connection 1 - 2 flaps while 1 is still a candidate (and before
                                                  # 2 has heard from the winner)
        s.drop(1, 2)
        s.drop(2, 1)
        s.connect(1, 2)
        s.connect(2, 1)
        sc.flush(1, 2)
        sc.flush(2, 1)
    sc.settle([1, 2, 3, 4, 5], 3)
    return sc.rec


def raising_then_snapshot(**kw):
    """commands raising every kind of exception (one of them an exception object that does not survive pickling) are
    applied; the log is compacted behind them; a lagging node is brought up to date by snapshot and a journaled node
    restarts from its dump: both end with the same state as everybody else
    (seed C12-r4: the last exception OBJECT kept in the replicated state and pickled into every snapshot)"""
    sc = Script(base_cfg([1, 2, 3], chunk=64, dump='file', journal='file', fallback=100000), **kw)
    s = sc.s
    s.boot()
    sc.elect(1)
    sc.settle([1, 2, 3], 2)
    s.submit(1, size=5)
    sc.settle([1, 2, 3], 3)
    for x in (1, 2):
        s.drop(3, x)
        s.drop(x, 3)
    from harness.sim import RAISED
    for _ in range(len(RAISED) + 1):            # consecutive command ids: every exception type once, the awkward one last
        s.submit(1, size=5, raises=True)
    while s.next_cid % len(RAISED) != len(RAISED) - 1:
        s.submit(1, size=5)
    s.submit(1, size=5, raises=True)            # the awkward exception is the last one raised before the snapshot
    s.submit(1, size=5)
    sc.settle([1, 2], 5)
    sc.rec.do(('compact', 1))
    sc.rec.do(('compact', 2))
    sc.settle([1, 2], 4)
    s.submit(1, size=5)
    sc.settle([1, 2], 3)
    for x in (1, 2):
        s.connect(3, x)
        s.connect(x, 3)
    sc.settle([1, 2, 3], 8)                     # 3 installs the snapshot
    s.kill(2)
    s.restart(2)                                # 2 restarts from its dump file
    sc.settle([1, 2, 3], 5)
    s.submit(2, size=5)
    s.submit(3, size=5)
    RC.quiet_period(s, timeouts=3, submit_on=3)
    sc.rec.convergence = RC.convergence_problems(sc.rec, s, None, {})
    sc.rec.convergence_props = ('C05', 'C12')
    return sc.rec


def big_entry_index_reused(**kw):
    """a leader sends big entries (in pieces) at positions k, k+1 that never arrive; it is deposed, its tail is replaced -
    position k+1 now holds a DIFFERENT big entry, committed; it is elected again and must bring a lagging follower up to
    date with that entry: what goes out is what the log holds now, not what was pickled for that position before
    (seed C11-r4: a one-slot cache of the pickled big entry keyed by the log position alone)"""
    sc = Script(base_cfg([1, 2, 3], batch=100, fallback=100000), **kw)
    s = sc.s
    s.boot()
    sc.elect(1)
    sc.settle([1, 2, 3], 2)
    s.submit(1, size=10)
    s.submit(1, size=10)
    sc.settle([1, 2, 3], 3)
    for x in (2, 3):                              # 1 does not notice that nobody hears it any more
        s.drop(x, 1)
    s.submit(1, size=350)                         # X at k
    s.submit(1, size=360)                         # Y at k+1
    s.tick(1, 11)
    s.tick(1, 11)
    s.tick(1, 11)
    sc.elect_until(2, [3])
    sc.settle([2, 3], 3)                          # 2's no-op at k is on 3
    s.drop(3, 2)
    s.drop(2, 3)                                  # 3 stops here
    s.connect(2, 1)                               # 1 first has to notice that its old connection is gone
    s.connect(1, 2)
    s.connect(2, 1)
    sc.settle([1, 2], 4)                          # 1 follows 2: X, Y are cut
    s.submit(2, size=370)                         # Z at k+1
    sc.settle([1, 2], 5)                          # committed by {1, 2}
    s.drop(1, 2)
    s.drop(2, 1)
    s.connect(3, 1)
    s.connect(1, 3)
    s.connect(3, 1)
    sc.elect_until(1, [3])                        # 1 leads again and has to send position k+1 to 3
    sc.settle([1, 3], 8)
    return sc.rec


SCENARIOS = {'d7': d7, 'd8': d8, 'd17': d17, 'd16': d16, 'd1': d1, 'd20': d20,
             'snapshot_catchup': snapshot_catchup, 'lost_rejection_is_repeated': lost_rejection_is_repeated, 'role_hook_raises_on_step_down': role_hook_raises_on_step_down, 'deposed_leader_waiters_share_positions': deposed_leader_waiters_share_positions, 'snapshot_installed_follower_leads': snapshot_installed_follower_leads, 'snapshot_sent_long_after_it_was_taken': snapshot_sent_long_after_it_was_taken, 'forwarded': forwarded,
             'restart_double_vote': restart_double_vote, 'd18': d18, 'd10': d10, 'd19': d19, 'd6': d6,
             'ser_fork': ser_fork, 'ser_custom': ser_custom, 'fig8': fig8, 'stale_match_reelected': stale_match_reelected,
             'stale_cursor': stale_cursor, 'compact_during_install': compact_during_install,
             'member_rollback': member_rollback, 'backoff_burst': backoff_burst, 'snapshot_members': snapshot_members, 'old_snapshot_again': old_snapshot_again, 'spliced_snapshot_is_dropped': spliced_snapshot_is_dropped, 'refused_snapshot_then_kill': refused_snapshot_then_kill, 'duplicate_add_then_truncation': duplicate_add_then_truncation, 'dump_kill_points': dump_kill_points, 'install_drops_acked': install_drops_acked,
             'snapshot_at_membership_entry': snapshot_at_membership_entry,
             'restart_empty_follower': restart_empty_follower,
             'stale_tail_behind_snapshot': stale_tail_behind_snapshot,
             'meta_ahead_restart': meta_ahead_restart, 'busy_cut_leader': busy_cut_leader,
             'big_entry_lost_predecessor': big_entry_lost_predecessor,
             'reelected_leader_membership_gate': reelected_leader_membership_gate,
             'compacted_stale_leader_backoff': compacted_stale_leader_backoff,
             'raising_replay_after_restart': raising_replay_after_restart,
             'observer_of_snapshot_installed_voter': observer_of_snapshot_installed_voter,
             'observers_join_after_snapshot_install': observers_join_after_snapshot_install,
             'readded_address_partial_replay': readded_address_partial_replay,
             'joiner_list_read_during_pending_change': joiner_list_read_during_pending_change,
             'joiner_snapshot_lists_itself': joiner_snapshot_lists_itself,
             'member_entry_behind_stored_commit': member_entry_behind_stored_commit,
             'journal_cut_after_compaction': journal_cut_after_compaction,
             'snapshot_install_changes_cluster_size': snapshot_install_changes_cluster_size,
             'chunk_keepalive_is_not_an_ack': chunk_keepalive_is_not_an_ack,
             'version_survives_snapshot_and_dump': version_survives_snapshot_and_dump,
             'vote_regrant_after_flap': vote_regrant_after_flap,
             'raising_then_snapshot': raising_then_snapshot,
             'big_entry_index_reused': big_entry_index_reused}
NAMES = sorted(SCENARIOS)


def run(name, workdir=None, listeners=(), keep_obs=False):
    return SCENARIOS[name](workdir=workdir, listeners=listeners, keep_obs=keep_obs)
