"""Source coverage of /repo/pysyncobj under the correspondence runs: which statements and branches of the
implementation were executed inside traces whose every step was compared with the Coq model ("compared"), and
which only inside monitor-only traces.  The numbers say how much of the code is inside the tie between the model
and the source; the list of statements that no compared trace reaches is the list of places where a change would
not be seen by the correspondence (it may still be seen by a monitor or by another component's check).

Used as:   c = Collector(); c.begin(); ...run one trace...; c.end(tag)      (tag = 'compared' | 'monitored')
           c.dump() -> json-able dict; merge(dumps) in the parent; report(merged, files) -> summary for the evidence.
Switch off with VERIF_SRCCOV=0 (the checks do not depend on it)."""
import ast
import os

REPO = (os.environ.get('VERIF_REPO') or '/repo')
PKG = os.path.join(REPO, 'pysyncobj')
ENABLED = os.environ.get('VERIF_SRCCOV', '1') != '0'


class Collector(object):
    def __init__(self):
        self.cov = None
        self.data = {}            # tag -> file -> {'lines': set, 'arcs': set}
        if ENABLED:
            try:
                import coverage
                self.cov = coverage.Coverage(data_file=None, branch=True, include=[os.path.join(PKG, '*')],
                                             config_file=False)
            except Exception:
                self.cov = None

    def begin(self):
        if self.cov is not None:
            self.cov.erase()
            self.cov.start()

    def end(self, tag):
        if self.cov is None:
            return
        self.cov.stop()
        d = self.cov.get_data()
        slot = self.data.setdefault(tag, {})
        for f in d.measured_files():
            e = slot.setdefault(os.path.basename(f), {'lines': set(), 'arcs': set()})
            e['lines'].update(d.lines(f) or ())
            e['arcs'].update(tuple(a) for a in (d.arcs(f) or ()))

    def abort(self):
        if self.cov is not None:
            try:
                self.cov.stop()
            except Exception:
                pass

    def dump(self):
        return dict((tag, dict((f, {'lines': sorted(e['lines']), 'arcs': sorted(list(a) for a in e['arcs'])})
                               for f, e in files.items())) for tag, files in self.data.items())


def merge(dumps):
    out = {}
    for d in dumps:
        for tag, files in (d or {}).items():
            slot = out.setdefault(tag, {})
            for f, e in files.items():
                s = slot.setdefault(f, {'lines': set(), 'arcs': set()})
                s['lines'].update(e['lines'])
                s['arcs'].update(tuple(a) for a in e['arcs'])
    return out


def _functions(path):
    """[(qualified name, first line, last line)] of every function / method, innermost last"""
    tree = ast.parse(open(path).read())
    out = []

    def walk(node, prefix):
        for ch in ast.iter_child_nodes(node):
            if isinstance(ch, (ast.FunctionDef, ast.AsyncFunctionDef)):
                out.append((prefix + ch.name, ch.lineno, ch.end_lineno))
                walk(ch, prefix + ch.name + '.')
            elif isinstance(ch, ast.ClassDef):
                walk(ch, prefix + ch.name + '.')
            else:
                walk(ch, prefix)
    walk(tree, '')
    return out


def _static(path):
    """executable statements and possible branch arcs of a file, from coverage.py's own parser"""
    from coverage.python import PythonParser
    p = PythonParser(filename=path)
    p.parse_source()
    stmts = set(p.statements) - set(p.excluded)
    arcs = set(p.arcs())
    # a branch = a line with more than one possible exit
    exits = {}
    for a, b in arcs:
        if a > 0:
            exits.setdefault(a, set()).add(b)
    branch_arcs = set((a, b) for a, bs in exits.items() if len(bs) > 1 and a in stmts for b in bs)
    return stmts, branch_arcs


def _ranges(nums):
    nums = sorted(nums)
    out, i = [], 0
    while i < len(nums):
        j = i
        while j + 1 < len(nums) and nums[j + 1] == nums[j] + 1:
            j += 1
        out.append('%d' % nums[i] if i == j else '%d-%d' % (nums[i], nums[j]))
        i = j + 1
    return out


def report(merged, files, only_functions=None, skip_functions=()):
    """files: basenames under pysyncobj/.  Returns {file: {...}} with statement and branch coverage of the traces tagged
    'compared' (every step diffed against the model) and of all traces, and the uncovered statements per function."""
    out = {}
    for fn in files:
        path = os.path.join(PKG, fn)
        if not os.path.exists(path):
            continue
        stmts, barcs = _static(path)
        funcs = _functions(path)

        def owner(line):
            best = None
            for name, a, b in funcs:
                if a <= line <= b and (best is None or a >= best[1]):
                    best = (name, a, b)
            return best[0] if best else '<module>'
        cmp_ = merged.get('compared', {}).get(fn, {'lines': set(), 'arcs': set()})
        mon = merged.get('monitored', {}).get(fn, {'lines': set(), 'arcs': set()})
        all_lines = set(cmp_['lines']) | set(mon['lines'])
        all_arcs = set(cmp_['arcs']) | set(mon['arcs'])
        # module-level statements (def/class/import lines) run at import, before the collector starts: leave them out
        body = set(l for l in stmts if owner(l) != '<module>' and not any(l == a for _, a, _ in funcs))
        if only_functions is not None:
            body = set(l for l in body if any(owner(l) == f or owner(l).startswith(f + '.') for f in only_functions))
        body = set(l for l in body if not any(owner(l) == f or owner(l).startswith(f + '.') for f in skip_functions))
        bb = set(a for a in barcs if a[0] in body)
        miss_cmp = body - set(cmp_['lines'])
        miss_all = body - all_lines
        per_func = {}
        for l in miss_cmp:
            per_func.setdefault(owner(l), []).append(l)
        out[fn] = {
            'statements': len(body),
            'statements_in_compared_traces': len(body & set(cmp_['lines'])),
            'statements_in_any_trace': len(body & all_lines),
            'branch_exits': len(bb),
            'branch_exits_in_compared_traces': len(bb & set(cmp_['arcs'])),
            'branch_exits_in_any_trace': len(bb & all_arcs),
            'not_reached_by_a_compared_trace': dict((k, _ranges(v)) for k, v in sorted(per_func.items())),
            'not_reached_by_any_trace': _ranges(miss_all),
            'branch_exits_not_taken_in_compared_traces': sorted('%d->%d' % a for a in (bb - set(cmp_['arcs'])))[:200],
        }
    return out
