(* Executable model of the code-version machinery of pysyncobj/syncobj.py:

     SyncObj.__init__            method enumeration: _methodToID / _idToMethod / __selfCodeVersion
     SyncObj.__onSetCodeVersion  the name table __currentVersionFuncNames
     SyncObj._getFuncName        lookup (KeyError when absent)
     SyncObj.setCodeVersion      the two validations in front of _applyCommand
     SyncObj.__doApplyCommand    VERSION branch (SyncObjExceptionWrongVer) and REGULAR dispatch
     SyncObj.__applyLogEntries   the loop that stops (break) at a wrong-version entry
     SyncObj.__loadDumpFile      enabled version restored, name table rebuilt for it
     replicated(ver=k)           the <name>_v<ver> attributes

   A class shape is the list of `@replicated(ver=k) def name` declarations in declaration
   order (base classes first), for the SyncObj itself (owner 0) and for consumer number k
   (owner k, k >= 1).  Python identifiers are lists of code points, the versioned attribute
   name is really built (name ++ "_v" ++ decimal ver) and compared as Python compares str
   (lexicographically by code point), so the order of ids is the real order and nothing
   about names is handed in as an oracle.

   Naming discipline assumed (and respected by the generator of the correspondence check):
   no replicated method is itself called <x>_v<digits>, so that a plain attribute never
   collides with a versioned one; versions are non-negative.

   Data supplied by the harness: the class shapes, the committed log (entries in log order
   are decided by Raft, which is not modelled here), and the commit index seen by each tick. *)
From Coq Require Import NArith List Bool Decimal.
Import ListNotations.
Open Scope N_scope.

(* ---------------------------------------------------------------------------------- *)
(* Python str as a list of code points                                                 *)
(* ---------------------------------------------------------------------------------- *)

Definition name := list N.

Fixpoint uint_codes (u : Decimal.uint) : list N :=
  match u with
  | Nil => []
  | D0 r => 48 :: uint_codes r
  | D1 r => 49 :: uint_codes r
  | D2 r => 50 :: uint_codes r
  | D3 r => 51 :: uint_codes r
  | D4 r => 52 :: uint_codes r
  | D5 r => 53 :: uint_codes r
  | D6 r => 54 :: uint_codes r
  | D7 r => 55 :: uint_codes r
  | D8 r => 56 :: uint_codes r
  | D9 r => 57 :: uint_codes r
  end.

(* str(v) *)
Definition dec_codes (v : N) : list N := uint_codes (N.to_uint v).

(* name + '_v' + str(ver) *)
Definition vname_of (nm : name) (v : N) : name := nm ++ 95 :: 118 :: dec_codes v.

(* a < b on str *)
Fixpoint str_ltb (a b : list N) : bool :=
  match a, b with
  | _, [] => false
  | [], _ :: _ => true
  | x :: a', y :: b' => if x <? y then true else if y <? x then false else str_ltb a' b'
  end.

Fixpoint str_eqb (a b : list N) : bool :=
  match a, b with
  | [], [] => true
  | x :: a', y :: b' => (x =? y) && str_eqb a' b'
  | _, _ => false
  end.

(* ---------------------------------------------------------------------------------- *)
(* Class shapes                                                                        *)
(* ---------------------------------------------------------------------------------- *)

Record decl := mkDecl { d_owner : N; d_name : name; d_ver : N }.
Definition shape := list decl.

Definition vname (d : decl) : name := vname_of (d_name d) (d_ver d).

Definition decl_eqb (a b : decl) : bool :=
  (d_owner a =? d_owner b) && (d_ver a =? d_ver b) && str_eqb (d_name a) (d_name b).

(* keep one copy of every element (the last one): a class namespace holds one attribute
   per name however often it was assigned *)
Fixpoint dedupb {A : Type} (eqb : A -> A -> bool) (l : list A) : list A :=
  match l with
  | [] => []
  | x :: r => if existsb (eqb x) r then dedupb eqb r else x :: dedupb eqb r
  end.

(* the versioned attributes of the object and its consumers: what
   [m for m in dir(o) if ... replicated ... and m != origName] ranges over *)
Definition attrs (s : shape) : list decl := dedupb decl_eqb s.

(* (ver, consumerNo, method, obj) < (ver', consumerNo', method', obj'): tuple comparison;
   obj is never reached because (consumerNo, method) is unique *)
Definition key_ltb (a b : decl) : bool :=
  if d_ver a <? d_ver b then true else if d_ver b <? d_ver a then false else
  if d_owner a <? d_owner b then true else if d_owner b <? d_owner a then false else
  str_ltb (vname a) (vname b).

(* sorted(): stable insertion sort *)
Fixpoint insert_decl (x : decl) (l : list decl) : list decl :=
  match l with
  | [] => [x]
  | y :: r => if key_ltb y x then y :: insert_decl x r else x :: y :: r
  end.

Fixpoint sort_decls (l : list decl) : list decl :=
  match l with
  | [] => []
  | x :: r => insert_decl x (sort_decls r)
  end.

(* _idToMethod: position -> method, positions 0, 1, 2, ... *)
Definition enumerate_ids (s : shape) : list decl := sort_decls (attrs s).

(* the keys of _methodToID in id order: 'foo_v1' for the object, (id(consumer), 'foo_v1') for
   consumer k, rendered as (k, 'foo_v1') *)
Definition id_table (s : shape) : list (N * name) :=
  map (fun d => (d_owner d, vname d)) (enumerate_ids s).

Fixpoint index_of (o : N) (vn : name) (l : list (N * name)) (i : N) : option N :=
  match l with
  | [] => None
  | (o', vn') :: r => if (o' =? o) && str_eqb vn' vn then Some i else index_of o vn r (i + 1)
  end.

(* _methodToID[...]; None = KeyError *)
Definition method_id (s : shape) (o : N) (vn : name) : option N := index_of o vn (id_table s) 0.

(* _idToMethod[funcID]; None = KeyError *)
Definition id_to_method (s : shape) (fid : N) : option decl := nth_error (enumerate_ids s) (N.to_nat fid).

(* __selfCodeVersion = max(0, every ver) *)
Definition self_code_version (s : shape) : N := fold_right (fun d m => N.max (d_ver d) m) 0 s.

(* ---------------------------------------------------------------------------------- *)
(* __onSetCodeVersion                                                                  *)
(* ---------------------------------------------------------------------------------- *)

Definition matches (o : N) (nm : name) (d : decl) : bool := (d_owner d =? o) && str_eqb (d_name d) nm.

(* versions carried by the attributes <nm>_v<k> of owner o *)
Definition versioned_vers (s : shape) (o : N) (nm : name) : list N := map d_ver (filter (matches o nm) s).

Fixpoint last_opt {A : Type} (l : list A) : option A :=
  match l with
  | [] => None
  | [x] => Some x
  | _ :: r => last_opt r
  end.

(* the `ver` of the plain attribute <nm>: the last declaration of that name wins *)
Definition plain_ver (s : shape) (o : N) (nm : name) : option N := last_opt (versioned_vers s o nm).

Fixpoint insert_N (x : N) (l : list N) : list N :=
  match l with
  | [] => [x]
  | y :: r => if y <? x then y :: insert_N x r else x :: y :: r
  end.

Fixpoint sort_N (l : list N) : list N :=
  match l with
  | [] => []
  | x :: r => insert_N x (sort_N r)
  end.

(* sorted(list(funcVersions[key])).  For the object the list comprehension filters
   m != origName; for consumers it does not, so the plain attribute contributes its ver too. *)
Definition func_versions (s : shape) (o : N) (nm : name) : list N :=
  sort_N (dedupb N.eqb (versioned_vers s o nm ++
                        (if o =? 0 then [] else match plain_ver s o nm with Some v => [v] | None => [] end))).

(* for v in versions: if v > newVersion: break; table[key] = ..._v<v>   (acc = current table slot) *)
Fixpoint pick (vs : list N) (newv : N) (acc : option N) : option N :=
  match vs with
  | [] => acc
  | v :: r => if newv <? v then acc else pick r newv (Some v)
  end.

Definition resolve (s : shape) (newv : N) (o : N) (nm : name) : option N := pick (func_versions s o nm) newv None.

Definition key := (N * name)%type.
Definition key_eqb (a b : key) : bool := (fst a =? fst b) && str_eqb (snd a) (snd b).

(* the keys of funcVersions *)
Definition keys (s : shape) : list key := dedupb key_eqb (map (fun d => (d_owner d, d_name d)) s).

Definition table := list (key * name).

(* __currentVersionFuncNames after __onSetCodeVersion(newv); a key whose every version is
   above newv gets no slot *)
Definition name_table (s : shape) (newv : N) : table :=
  flat_map (fun k => match resolve s newv (fst k) (snd k) with
                     | Some v => [(k, vname_of (snd k) v)]
                     | None => []
                     end) (keys s).

(* _getFuncName; None = KeyError *)
Fixpoint get_func_name (t : table) (o : N) (nm : name) : option name :=
  match t with
  | [] => None
  | (k, x) :: r => if key_eqb k (o, nm) then Some x else get_func_name r o nm
  end.

(* ---------------------------------------------------------------------------------- *)
(* One node                                                                            *)
(* ---------------------------------------------------------------------------------- *)

Inductive entry :=
| ERegular (fid : N) (arg : N)     (* pickled (funcID, args); arg identifies the call *)
| EVersion (v : N)
| EOther.                           (* no-op, membership *)

(* what a replicated method leaves in the user state: which implementation ran, with what *)
Definition exec := (decl * N)%type.

Record node := mkNode {
  n_code : shape;
  n_enabled : N;           (* __enabledCodeVersion *)
  n_table : table;         (* __currentVersionFuncNames *)
  n_hist : list exec;      (* the user state: executions, oldest first *)
  n_applied : N            (* number of log entries applied (= __raftLastApplied - 1) *)
}.

Definition fresh (s : shape) : node :=
  {| n_code := s; n_enabled := 0; n_table := name_table s 0; n_hist := []; n_applied := 0 |}.

Inductive outcome := Done | StoppedWrongVer (v : N).

(* __doApplyCommand; inr = SyncObjExceptionWrongVer: a VERSION entry above the node's code
   version (carries that version), or a REGULAR entry whose method id this code does not have
   (carries the enabled version).  An exception of the replicated method itself is returned as
   the result, the entry counts as applied (generated methods do not raise; C12). *)
Definition do_apply (n : node) (e : entry) : node + outcome :=
  match e with
  | EVersion v =>
      if self_code_version (n_code n) <? v then inr (StoppedWrongVer v)
      else inl {| n_code := n_code n; n_enabled := v; n_table := name_table (n_code n) v;
                  n_hist := n_hist n; n_applied := n_applied n |}
  | ERegular fid arg =>
      match id_to_method (n_code n) fid with
      | Some d => inl {| n_code := n_code n; n_enabled := n_enabled n; n_table := n_table n;
                         n_hist := n_hist n ++ [(d, arg)]; n_applied := n_applied n |}
      | None => inr (StoppedWrongVer (n_enabled n))
      end
  | EOther => inl n
  end.

Definition bump (n : node) : node :=
  {| n_code := n_code n; n_enabled := n_enabled n; n_table := n_table n; n_hist := n_hist n;
     n_applied := n_applied n + 1 |}.

(* for entry in entries: try: __doApplyCommand; __raftLastApplied += 1
                         except SyncObjExceptionWrongVer: log; break *)
Fixpoint apply_loop (n : node) (es : list entry) : node * outcome :=
  match es with
  | [] => (n, Done)
  | e :: r =>
      match do_apply n e with
      | inl n' => apply_loop (bump n') r
      | inr o => (n, o)
      end
  end.

(* __applyLogEntries: entries lastApplied+1 .. commitIndex of the log (log = entries from
   raft index 2 on; commit = commitIndex - 1) *)
Definition tick (n : node) (log : list entry) (commit : N) : node * outcome :=
  if n_applied n <? commit
  then apply_loop n (firstn (N.to_nat (commit - n_applied n)) (skipn (N.to_nat (n_applied n)) log))
  else (n, Done).

Fixpoint ticks (n : node) (log : list entry) (commits : list N) : node :=
  match commits with
  | [] => n
  | c :: r => ticks (fst (tick n log c)) log r
  end.

(* setCodeVersion *)
Inductive verdict := Queued | RejectedAbove | RejectedBelow.

Definition set_code_version_request (n : node) (v : N) : verdict :=
  if self_code_version (n_code n) <? v then RejectedAbove
  else if v <? n_enabled n then RejectedBelow
  else Queued.

(* setCodeVersion in front of the commands queue *)
Definition submit_set_version (n : node) (queue : list entry) (v : N) : list entry * verdict :=
  match set_code_version_request n v with
  | Queued => (queue ++ [EVersion v], Queued)
  | r => (queue, r)
  end.

(* a replicated call on owner o: _getFuncName then _methodToID; None = KeyError *)
Definition call_id (n : node) (o : N) (nm : name) : option N :=
  match get_func_name (n_table n) o nm with
  | Some vn => method_id (n_code n) o vn
  | None => None
  end.

(* ---------------------------------------------------------------------------------- *)
(* Snapshots                                                                           *)
(* ---------------------------------------------------------------------------------- *)

(* what of this model's state the dump carries: __enabledCodeVersion and the user state are
   ordinary attributes of the object (not in __properies), lastApplied is data[1][1].
   With conf.serializer (user-supplied full-dump functions, `custom`) the object's attributes
   are not dumped at all: the user functions only get (lastEntry, prevEntry, cluster), so the
   enabled version is not in the dump; the user state is whatever the user functions save
   (here: all of it). *)
Record dump := mkDump { dp_enabled : option N; dp_hist : list exec; dp_applied : N }.

Definition take_dump (custom : bool) (n : node) : dump :=
  {| dp_enabled := if custom then None else Some (n_enabled n); dp_hist := n_hist n; dp_applied := n_applied n |}.

(* __loadDumpFile: if the dump carries an enabled version above the node's own code version
   the load fails before anything is touched (SyncObjExceptionWrongVer inside the try: returns
   False, no success reply).  Otherwise attributes restored (if data[0] is not None), then
   __onSetCodeVersion(self.__enabledCodeVersion). *)
Definition load_dump (n : node) (d : dump) : node :=
  match dp_enabled d with
  | Some e =>
      if self_code_version (n_code n) <? e then n
      else {| n_code := n_code n; n_enabled := e; n_table := name_table (n_code n) e;
              n_hist := dp_hist d; n_applied := dp_applied d |}
  | None =>
      {| n_code := n_code n; n_enabled := n_enabled n; n_table := name_table (n_code n) (n_enabled n);
         n_hist := dp_hist d; n_applied := dp_applied d |}
  end.

(* ---------------------------------------------------------------------------------- *)
(* Checking functions used by the correspondence harness                               *)
(* ---------------------------------------------------------------------------------- *)

Fixpoint list_eqb {A B : Type} (eqb : A -> B -> bool) (a : list A) (b : list B) : bool :=
  match a, b with
  | [], [] => true
  | x :: a', y :: b' => eqb x y && list_eqb eqb a' b'
  | _, _ => false
  end.

Definition opt_eqb {A : Type} (eqb : A -> A -> bool) (a b : option A) : bool :=
  match a, b with
  | None, None => true
  | Some x, Some y => eqb x y
  | _, _ => false
  end.

Definition verdict_code (v : verdict) : N :=
  match v with Queued => 0 | RejectedAbove => 1 | RejectedBelow => 2 end.

Definition outcome_code (o : outcome) : N * N :=
  match o with Done => (0, 0) | StoppedWrongVer v => (1, v) end.

(* static observables of one class shape, against what the implementation showed:
   ids    : keys of _methodToID in id order
   selfv  : __selfCodeVersion
   tables : for every version v tried on a fresh object through a VERSION entry:
            (v, None) when it raised SyncObjExceptionWrongVer,
            (v, Some answers) where answers are _getFuncName for the queried keys (None = KeyError)
            together with the id the call would put in the command
   valid  : (enabled version reached through VERSION entries, requested version, verdict code)
   result : numbers of the checks that failed *)
Definition exec_eqb (a b : exec) : bool := decl_eqb (fst a) (fst b) && (snd a =? snd b).

Definition check_static (s : shape)
           (ids : list (N * name)) (selfv : N)
           (queries : list key)
           (tables : list (N * option (list (option name * option N))))
           (valid : list (N * N * N)) : list N :=
  (if list_eqb key_eqb (id_table s) ids then [] else [1]) ++
  (if self_code_version s =? selfv then [] else [2]) ++
  flat_map (fun t : N * option (list (option name * option N)) =>
              let (v, exp) := t in
              match do_apply (fresh s) (EVersion v), exp with
              | inr (StoppedWrongVer _), None => []
              | inl n, Some answers =>
                  if list_eqb (fun (q : key) (a : option name * option N) =>
                                 opt_eqb str_eqb (get_func_name (n_table n) (fst q) (snd q)) (fst a)
                                 && opt_eqb N.eqb (call_id n (fst q) (snd q)) (snd a))
                              queries answers && (n_enabled n =? v)
                  then [] else [100 + v]
              | _, _ => [100 + v]
              end) tables ++
  flat_map (fun t : N * N * N =>
              let '(en, v, code) := t in
              match do_apply (fresh s) (EVersion en) with
              | inl n => if verdict_code (set_code_version_request n v) =? code then [] else [1000 + 100 * en + v]
              | inr _ => [1000 + 100 * en + v]
              end) valid.

(* ---- cluster traces ---- *)

Record cnode := mkCnode { c_node : node; c_dump : option dump }.

Inductive event :=
| EvTick (n : nat) (commit : N)                 (* __applyLogEntries of node n with this commit *)
| EvCall (n : nat) (o : N) (nm : name)          (* replicated call issued on node n *)
| EvSetVer (n : nat) (v : N)                    (* setCodeVersion on node n *)
| EvCompact (n : nat)                           (* node n serialises its state *)
| EvRestart (n : nat) (code : shape) (from_dump : bool)   (* new process, maybe other code; starts empty (false) / has
                                                             loaded its own dump file (true); the file survives *)
| EvInstall (src dst : nat)                     (* dst loads the dump received from src *)
| EvTable (n : nat) (queries : list key).       (* _getFuncName for the queried keys *)

Inductive expect :=
| XTick (applied enabled : N) (out : N * N) (new_execs : list exec)
| XCall (fid : option N)
| XSetVer (code : N)
| XState (applied enabled : N) (hist : list exec)
| XTable (answers : list (option name)).

Fixpoint update {A : Type} (l : list A) (i : nat) (x : A) : list A :=
  match l, i with
  | [], _ => []
  | _ :: r, O => x :: r
  | y :: r, S j => y :: update r j x
  end.

Definition state_ok (n : node) (applied enabled : N) (hist : list exec) : bool :=
  (n_applied n =? applied) && (n_enabled n =? enabled) && list_eqb exec_eqb (n_hist n) hist.

(* one step: new cluster and whether the expectation was met; None = malformed trace *)
Definition step (custom : bool) (log : list entry) (cl : list cnode) (ev : event) (ex : expect) : option (list cnode * bool) :=
  match ev, ex with
  | EvTick i commit, XTick applied enabled out new_execs =>
      match nth_error cl i with
      | Some c =>
          let (n', o) := tick (c_node c) log commit in
          let ok := (n_applied n' =? applied) && (n_enabled n' =? enabled)
                    && (fst (outcome_code o) =? fst out) && (snd (outcome_code o) =? snd out)
                    && list_eqb exec_eqb (n_hist n') (n_hist (c_node c) ++ new_execs) in
          Some (update cl i {| c_node := n'; c_dump := c_dump c |}, ok)
      | None => None
      end
  | EvCall i o nm, XCall fid =>
      match nth_error cl i with
      | Some c => Some (cl, opt_eqb N.eqb (call_id (c_node c) o nm) fid)
      | None => None
      end
  | EvSetVer i v, XSetVer code =>
      match nth_error cl i with
      | Some c => Some (cl, verdict_code (set_code_version_request (c_node c) v) =? code)
      | None => None
      end
  | EvCompact i, XState applied enabled hist =>
      match nth_error cl i with
      | Some c => Some (update cl i {| c_node := c_node c; c_dump := Some (take_dump custom (c_node c)) |},
                        state_ok (c_node c) applied enabled hist)
      | None => None
      end
  | EvRestart i code from_dump, XState applied enabled hist =>
      match nth_error cl i with
      | Some c =>
          let n' := match from_dump, c_dump c with
                    | true, Some d => load_dump (fresh code) d
                    | _, _ => fresh code
                    end in
          Some (update cl i {| c_node := n'; c_dump := c_dump c |},
                state_ok n' applied enabled hist)
      | None => None
      end
  | EvInstall src dst, XState applied enabled hist =>
      match nth_error cl src, nth_error cl dst with
      | Some cs, Some cd =>
          match c_dump cs with
          | Some d =>
              let n' := load_dump (c_node cd) d in
              Some (update cl dst {| c_node := n'; c_dump := Some d |}, state_ok n' applied enabled hist)
          | None => None
          end
      | _, _ => None
      end
  | EvTable i queries, XTable answers =>
      match nth_error cl i with
      | Some c => Some (cl, list_eqb (fun (q : key) (a : option name) =>
                                        opt_eqb str_eqb (get_func_name (n_table (c_node c)) (fst q) (snd q)) a)
                                     queries answers)
      | None => None
      end
  | _, _ => None
  end.

(* index of the first step whose expectation is not met (None = the whole trace agrees) *)
Fixpoint run_trace (custom : bool) (log : list entry) (cl : list cnode) (evs : list (event * expect)) (i : N) : option N :=
  match evs with
  | [] => None
  | (ev, ex) :: r =>
      match step custom log cl ev ex with
      | Some (cl', true) => run_trace custom log cl' r (i + 1)
      | _ => Some i
      end
  end.

Definition check_trace (custom : bool) (codes : list shape) (log : list entry) (evs : list (event * expect)) : option N :=
  run_trace custom log (map (fun s => {| c_node := fresh s; c_dump := None |}) codes) evs 0.
