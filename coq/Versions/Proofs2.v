(* Lemmas about coq/Versions/Model.v, part 2: name resolution, validation, the apply loop,
   old/new code agreement, snapshots. *)
From Coq Require Import NArith List Bool Lia Sorted.
From PSO Require Import Versions.Model Versions.Proofs.
Import ListNotations.
Open Scope N_scope.

(* ---------------------------------------------------------------------------------- *)
(* __onSetCodeVersion resolves a name to its greatest version <= the enabled one        *)
(* ---------------------------------------------------------------------------------- *)

Definition declared (s : shape) (o : N) (nm : name) (r : N) : Prop := In (mkDecl o nm r) s.

(* r is the newest version of (o, nm) that is not above v *)
Definition newest_le (s : shape) (o : N) (nm : name) (v r : N) : Prop :=
  declared s o nm r /\ r <= v /\ forall r', declared s o nm r' -> r' <= v -> r' <= r.

Lemma In_insert_N : forall x y l, In y (insert_N x l) <-> y = x \/ In y l.
Proof.
  intros x y l. induction l as [|z r IH]; simpl. intuition.
  destruct (z <? x); simpl; [rewrite IH|]; intuition.
Qed.

Lemma In_sort_N : forall y l, In y (sort_N l) <-> In y l.
Proof.
  intros y l. induction l as [|x r IH]; simpl. tauto.
  rewrite In_insert_N, IH. intuition.
Qed.

Lemma insert_N_sorted : forall x l, StronglySorted N.le l -> StronglySorted N.le (insert_N x l).
Proof.
  intros x l H. induction H as [|z r Hr IH Hz]; simpl.
  - constructor; constructor.
  - destruct (z <? x) eqn:E.
    + constructor. assumption. apply Forall_forall. intros y Hy.
      apply (proj1 (In_insert_N _ _ _)) in Hy. destruct Hy as [Hy|Hy].
      * subst. apply N.ltb_lt in E. lia.
      * rewrite Forall_forall in Hz. apply Hz. assumption.
    + apply N.ltb_ge in E. constructor. constructor; assumption.
      constructor. assumption. apply Forall_forall. intros y Hy. rewrite Forall_forall in Hz.
      specialize (Hz y Hy). lia.
Qed.

Lemma sort_N_sorted : forall l, StronglySorted N.le (sort_N l).
Proof.
  induction l as [|x r IH]; simpl. constructor. apply insert_N_sorted. assumption.
Qed.

(* the loop `for v in versions: if v > newVersion: break; slot = v` over an ascending list *)
Lemma pick_sorted : forall vs v acc,
  StronglySorted N.le vs ->
  (forall a, acc = Some a -> a <= v /\ forall x, In x vs -> a <= x) ->
  match pick vs v acc with
  | Some r => (In r vs \/ acc = Some r) /\ r <= v /\ (forall x, In x vs -> x <= v -> x <= r)
              /\ (forall a, acc = Some a -> a <= r)
  | None => acc = None /\ forall x, In x vs -> v < x
  end.
Proof.
  intros vs v. induction vs as [|x r IH]; intros acc Hs Hacc; simpl.
  - destruct acc as [a|].
    + destruct (Hacc a eq_refl) as [Ha _]. split. right; reflexivity. split. assumption.
      split. intros y []. intros a' E. inversion E; subst. lia.
    + split. reflexivity. intros y [].
  - inversion Hs as [|? ? Hr Hx]; subst. rewrite Forall_forall in Hx.
    destruct (v <? x) eqn:E.
    + apply N.ltb_lt in E.
      assert (Hall : forall y, In y (x :: r) -> v < y).
      { intros y [Hy|Hy]. subst; assumption. specialize (Hx y Hy). lia. }
      destruct acc as [a|].
      * destruct (Hacc a eq_refl) as [Ha _]. split. right; reflexivity. split. assumption.
        split. intros y Hy Hle. specialize (Hall y Hy). lia.
        intros a' E'. inversion E'; subst. lia.
      * split. reflexivity. assumption.
    + apply N.ltb_ge in E.
      specialize (IH (Some x) Hr).
      assert (Hpre : forall a, Some x = Some a -> a <= v /\ forall y, In y r -> a <= y).
      { intros a Ea. inversion Ea; subst. split. assumption. intros y Hy. apply Hx. assumption. }
      specialize (IH Hpre).
      destruct (pick r v (Some x)) as [r0|].
      * destruct IH as [Hin [Hle [Hmax Hge]]].
        assert (Hxr : x <= r0) by (apply Hge; reflexivity).
        split.
        { left. destruct Hin as [Hin|Hin]. right; assumption. inversion Hin; subst. left; reflexivity. }
        split. assumption.
        split.
        { intros y [Hy|Hy] Hyv. subst; assumption. apply Hmax; assumption. }
        intros a Ea. destruct (Hacc a Ea) as [_ Hax]. specialize (Hax x (or_introl eq_refl)). lia.
      * destruct IH as [Hn _]. discriminate.
Qed.

Lemma last_opt_In : forall (A : Type) (l : list A) x, last_opt l = Some x -> In x l.
Proof.
  intros A l. induction l as [|y r IH]; intros x H; simpl in H. discriminate.
  destruct r as [|z r']. inversion H; subst. left; reflexivity.
  right. apply IH. assumption.
Qed.

Lemma matches_true : forall o nm d, matches o nm d = true <-> d_owner d = o /\ d_name d = nm.
Proof.
  intros o nm d. unfold matches. rewrite andb_true_iff, N.eqb_eq, str_eqb_eq. tauto.
Qed.

Lemma In_versioned_vers : forall s o nm r, In r (versioned_vers s o nm) <-> declared s o nm r.
Proof.
  intros s o nm r. unfold versioned_vers, declared. rewrite in_map_iff. split.
  - intros [d [Hv Hd]]. apply filter_In in Hd. destruct Hd as [Hd Hm]. apply matches_true in Hm.
    destruct d as [o' n' v']. simpl in *. destruct Hm; subst. assumption.
  - intro H. exists (mkDecl o nm r). split. reflexivity. apply filter_In. split. assumption.
    apply matches_true. split; reflexivity.
Qed.

(* the plain attribute a consumer contributes (no `m != origName` filter there) adds no version *)
Lemma In_func_versions : forall s o nm r, In r (func_versions s o nm) <-> declared s o nm r.
Proof.
  intros s o nm r. unfold func_versions.
  rewrite In_sort_N. rewrite (In_dedupb N N.eqb N.eqb_eq). rewrite in_app_iff, In_versioned_vers.
  split; [|tauto]. intros [H|H]. assumption.
  destruct (o =? 0). destruct H.
  destruct (plain_ver s o nm) as [p|] eqn:E; [|destruct H].
  destruct H as [H|[]]. subst. apply In_versioned_vers. apply last_opt_In. assumption.
Qed.

Definition func_versions_filtered (s : shape) (o : N) (nm : name) : list N :=
  sort_N (dedupb N.eqb (versioned_vers s o nm)).

Lemma resolve_spec : forall s v o nm,
  match resolve s v o nm with
  | Some r => newest_le s o nm v r
  | None => forall r', declared s o nm r' -> v < r'
  end.
Proof.
  intros s v o nm. unfold resolve.
  pose proof (pick_sorted (func_versions s o nm) v None (sort_N_sorted _)) as H.
  assert (Hn : forall a : N, None = Some a -> a <= v /\ (forall x, In x (func_versions s o nm) -> a <= x))
    by (intros a E; discriminate).
  specialize (H Hn). destruct (pick (func_versions s o nm) v None) as [r|].
  - destruct H as [Hin [Hle [Hmax _]]]. destruct Hin as [Hin|Hin]; [|discriminate].
    split. apply In_func_versions. assumption. split. assumption.
    intros r' Hd Hr'. apply Hmax. apply In_func_versions. assumption. assumption.
  - destruct H as [_ H]. intros r' Hd. apply H. apply In_func_versions. assumption.
Qed.

Lemma newest_le_unique : forall s o nm v r r', newest_le s o nm v r -> newest_le s o nm v r' -> r = r'.
Proof.
  intros s o nm v r r' [Hd [Hle Hm]] [Hd' [Hle' Hm']].
  specialize (Hm r' Hd' Hle'). specialize (Hm' r Hd Hle). lia.
Qed.

(* the missing filter for consumers is harmless: same answer as with the filter *)
Lemma resolve_quirk_harmless : forall s v o nm,
  resolve s v o nm = pick (func_versions_filtered s o nm) v None.
Proof.
  intros s v o nm.
  pose proof (resolve_spec s v o nm) as H1.
  pose proof (pick_sorted (func_versions_filtered s o nm) v None (sort_N_sorted _)) as H2.
  assert (Hn : forall a : N, None = Some a -> a <= v /\ (forall x, In x (func_versions_filtered s o nm) -> a <= x))
    by (intros a E; discriminate).
  specialize (H2 Hn).
  assert (Hin : forall r, In r (func_versions_filtered s o nm) <-> declared s o nm r).
  { intro r. unfold func_versions_filtered. rewrite In_sort_N, (In_dedupb N N.eqb N.eqb_eq). apply In_versioned_vers. }
  destruct (resolve s v o nm) as [r|]; destruct (pick (func_versions_filtered s o nm) v None) as [r2|].
  - f_equal. apply (newest_le_unique s o nm v); [assumption|].
    destruct H2 as [[Hi|Hi] [Hle [Hmax _]]]; [|discriminate].
    split. apply Hin; assumption. split. assumption. intros r' Hd Hr'. apply Hmax. apply Hin; assumption. assumption.
  - destruct H2 as [_ H2]. destruct H1 as [Hd [Hle _]]. apply Hin in Hd. specialize (H2 r Hd). lia.
  - destruct H2 as [[Hi|Hi] [Hle _]]; [|discriminate]. apply Hin in Hi. specialize (H1 r2 Hi). lia.
  - reflexivity.
Qed.

Lemma resolve_undeclared : forall s v o nm, (forall r, ~ declared s o nm r) -> resolve s v o nm = None.
Proof.
  intros s v o nm H. pose proof (resolve_spec s v o nm) as R.
  destruct (resolve s v o nm) as [r|]; [|reflexivity]. destruct R as [Hd _]. exfalso. apply (H r). assumption.
Qed.

Lemma get_func_name_flat : forall (f : key -> option N) ks o nm,
  get_func_name (flat_map (fun k => match f k with Some v => [(k, vname_of (snd k) v)] | None => [] end) ks) o nm =
  if existsb (key_eqb (o, nm)) ks then option_map (vname_of nm) (f (o, nm)) else None.
Proof.
  intros f ks o nm. induction ks as [|k r IH]; simpl. reflexivity.
  destruct (key_eqb (o, nm) k) eqn:E.
  - apply key_eqb_eq in E. subst k. simpl. destruct (f (o, nm)) as [v|]; simpl.
    + assert (Ek : key_eqb (o, nm) (o, nm) = true) by (apply key_eqb_eq; reflexivity). rewrite Ek. reflexivity.
    + rewrite IH. destruct (existsb (key_eqb (o, nm)) r); reflexivity.
  - simpl. destruct (f k) as [v|]; simpl; [|assumption].
    assert (Ek : key_eqb k (o, nm) = false).
    { destruct (key_eqb k (o, nm)) eqn:E2; [|reflexivity]. apply key_eqb_eq in E2. subst k.
      assert (E3 : key_eqb (o, nm) (o, nm) = true) by (apply key_eqb_eq; reflexivity). congruence. }
    rewrite Ek. assumption.
Qed.

Lemma get_func_name_table : forall s v o nm,
  get_func_name (name_table s v) o nm = option_map (vname_of nm) (resolve s v o nm).
Proof.
  intros s v o nm. unfold name_table.
  rewrite (get_func_name_flat (fun k => resolve s v (fst k) (snd k))). simpl.
  destruct (existsb (key_eqb (o, nm)) (keys s)) eqn:E. reflexivity.
  rewrite resolve_undeclared. reflexivity.
  intros r Hd. assert (Hk : In (o, nm) (keys s)).
  { unfold keys. apply (In_dedupb key key_eqb key_eqb_eq). apply in_map_iff. exists (mkDecl o nm r). split. reflexivity. assumption. }
  apply (existsb_eqb_In key key_eqb key_eqb_eq) in Hk. congruence.
Qed.

Lemma resolution : forall s v o nm,
  match get_func_name (name_table s v) o nm with
  | Some x => exists r, x = vname_of nm r /\ newest_le s o nm v r
  | None => forall r', declared s o nm r' -> v < r'
  end.
Proof.
  intros s v o nm. rewrite get_func_name_table. pose proof (resolve_spec s v o nm) as R.
  destruct (resolve s v o nm) as [r|]; simpl. exists r. split. reflexivity. assumption. assumption.
Qed.

(* ---------------------------------------------------------------------------------- *)
(* nodes                                                                               *)
(* ---------------------------------------------------------------------------------- *)

Definition table_ok (n : node) : Prop := n_table n = name_table (n_code n) (n_enabled n).

Lemma do_apply_code : forall n e n', do_apply n e = inl n' -> n_code n' = n_code n.
Proof.
  intros n e n' H. destruct e as [fid arg|v|]; simpl in H.
  - destruct (id_to_method (n_code n) fid); inversion H; subst; reflexivity.
  - destruct (self_code_version (n_code n) <? v); inversion H; subst; reflexivity.
  - inversion H; subst; reflexivity.
Qed.

Lemma do_apply_table_ok : forall n e n', table_ok n -> do_apply n e = inl n' -> table_ok n'.
Proof.
  intros n e n' T H. unfold table_ok in *. destruct e as [fid arg|v|]; simpl in H.
  - destruct (id_to_method (n_code n) fid); inversion H; subst; simpl; assumption.
  - destruct (self_code_version (n_code n) <? v); inversion H; subst; simpl; reflexivity.
  - inversion H; subst; assumption.
Qed.

Lemma do_apply_applied : forall n e n', do_apply n e = inl n' -> n_applied n' = n_applied n.
Proof.
  intros n e n' H. destruct e as [fid arg|v|]; simpl in H.
  - destruct (id_to_method (n_code n) fid); inversion H; subst; reflexivity.
  - destruct (self_code_version (n_code n) <? v); inversion H; subst; reflexivity.
  - inversion H; subst; reflexivity.
Qed.

Lemma do_apply_inr_not_done : forall n e o, do_apply n e = inr o -> o <> Done.
Proof.
  intros n e o H. destruct e as [fid arg|v|]; simpl in H.
  - destruct (id_to_method (n_code n) fid); inversion H; subst; discriminate.
  - destruct (self_code_version (n_code n) <? v); inversion H; subst; discriminate.
  - discriminate.
Qed.

(* what the entries execute, read with the ids of code s *)
Definition execs_of (s : shape) (es : list entry) : list exec :=
  flat_map (fun e => match e with
                     | ERegular fid arg => match id_to_method s fid with Some d => [(d, arg)] | None => [] end
                     | _ => []
                     end) es.

Lemma apply_loop_done : forall es n n', apply_loop n es = (n', Done) ->
  n_code n' = n_code n /\ n_applied n' = n_applied n + N.of_nat (length es) /\
  n_hist n' = n_hist n ++ execs_of (n_code n) es.
Proof.
  induction es as [|e r IH]; intros n n' H; simpl in H.
  - inversion H; subst. split. reflexivity. split. simpl. lia. simpl. rewrite app_nil_r. reflexivity.
  - destruct (do_apply n e) as [n1|o] eqn:E.
    2: { inversion H; subst. exfalso. apply (do_apply_inr_not_done _ _ _ E). reflexivity. }
    apply IH in H. destruct H as [Hc [Ha Hh]]. simpl in Hc, Ha, Hh.
    pose proof (do_apply_code _ _ _ E) as Hc1. pose proof (do_apply_applied _ _ _ E) as Ha1.
    split. congruence. split. rewrite Ha, Ha1. simpl length. lia.
    rewrite Hh, Hc1. simpl execs_of.
    destruct e as [fid arg|v|]; simpl in E.
    + destruct (id_to_method (n_code n) fid) as [d|]; inversion E; subst; simpl.
      rewrite <- app_assoc. reflexivity.
    + destruct (self_code_version (n_code n) <? v); inversion E; subst; reflexivity.
    + inversion E; subst. reflexivity.
Qed.

Lemma apply_loop_any : forall es n n' o, apply_loop n es = (n', o) ->
  n_code n' = n_code n /\ n_applied n <= n_applied n' /\ exists more, n_hist n' = n_hist n ++ more.
Proof.
  induction es as [|e r IH]; intros n n' o H; simpl in H.
  - inversion H; subst. split. reflexivity. split. lia. exists []. rewrite app_nil_r. reflexivity.
  - destruct (do_apply n e) as [n1|o1] eqn:E.
    + apply IH in H. destruct H as [Hc [Ha [more Hh]]]. simpl in Hc, Ha, Hh.
      pose proof (do_apply_code _ _ _ E) as Hc1. pose proof (do_apply_applied _ _ _ E) as Ha1.
      split. congruence. split. lia.
      destruct e as [fid arg|v|]; simpl in E.
      * destruct (id_to_method (n_code n) fid) as [d|]; inversion E; subst; simpl in *.
        exists ([(d, arg)] ++ more). rewrite Hh. rewrite <- app_assoc. reflexivity.
      * destruct (self_code_version (n_code n) <? v); inversion E; subst; simpl in *. exists more. assumption.
      * inversion E; subst. exists more. assumption.
    + inversion H; subst. split. reflexivity. split. lia. exists []. rewrite app_nil_r. reflexivity.
Qed.

Lemma apply_loop_table_ok : forall es n n' o, table_ok n -> apply_loop n es = (n', o) -> table_ok n'.
Proof.
  induction es as [|e r IH]; intros n n' o T H; simpl in H.
  - inversion H; subst. assumption.
  - destruct (do_apply n e) as [n1|o1] eqn:E.
    + apply (IH (bump n1) n' o); [|assumption]. apply (do_apply_table_ok _ _ _ T) in E. unfold table_ok in *. simpl. assumption.
    + inversion H; subst. assumption.
Qed.

Lemma apply_loop_app : forall a b n,
  apply_loop n (a ++ b) = match apply_loop n a with
                          | (n', Done) => apply_loop n' b
                          | r => r
                          end.
Proof.
  induction a as [|e r IH]; intros b n; simpl. reflexivity.
  destruct (do_apply n e) as [n1|o1] eqn:E. apply IH.
  destruct o1; try reflexivity. exfalso. apply (do_apply_inr_not_done _ _ _ E). reflexivity.
Qed.

(* enabled version never exceeds what the code supports *)
Lemma apply_loop_enabled_supported : forall es n n' o,
  n_enabled n <= self_code_version (n_code n) -> apply_loop n es = (n', o) ->
  n_enabled n' <= self_code_version (n_code n').
Proof.
  induction es as [|e r IH]; intros n n' o Hs H; simpl in H.
  - inversion H; subst. assumption.
  - destruct (do_apply n e) as [n1|o1] eqn:E.
    + apply (IH (bump n1) n' o); [|assumption]. simpl.
      destruct e as [fid arg|v|]; simpl in E.
      * destruct (id_to_method (n_code n) fid); inversion E; subst; simpl; assumption.
      * destruct (self_code_version (n_code n) <? v) eqn:Ev; inversion E; subst; simpl. apply N.ltb_ge in Ev. assumption.
      * inversion E; subst. assumption.
    + inversion H; subst. assumption.
Qed.

(* ... also across loading a dump that carries its version (full-dump mode) *)
Lemma load_dump_enabled_supported : forall n d,
  n_enabled n <= self_code_version (n_code n) ->
  n_enabled (load_dump n d) <= self_code_version (n_code (load_dump n d)).
Proof.
  intros n d H. unfold load_dump. destruct (dp_enabled d) as [e|]; [|simpl; assumption].
  destruct (self_code_version (n_code n) <? e) eqn:E. assumption. apply N.ltb_ge in E. simpl. assumption.
Qed.

(* ---- setCodeVersion ---- *)

Lemma validation : forall n q v,
  (snd (submit_set_version n q v) = Queued <-> n_enabled n <= v /\ v <= self_code_version (n_code n)) /\
  (snd (submit_set_version n q v) = Queued -> fst (submit_set_version n q v) = q ++ [EVersion v]) /\
  (snd (submit_set_version n q v) <> Queued -> fst (submit_set_version n q v) = q) /\
  (snd (submit_set_version n q v) = RejectedAbove <-> self_code_version (n_code n) < v) /\
  (snd (submit_set_version n q v) = RejectedBelow <-> v <= self_code_version (n_code n) /\ v < n_enabled n).
Proof.
  intros n q v. unfold submit_set_version, set_code_version_request.
  destruct (self_code_version (n_code n) <? v) eqn:E1.
  - apply N.ltb_lt in E1. simpl. repeat split; try intro H; try discriminate; try reflexivity; try lia; try (destruct H; lia).
  - apply N.ltb_ge in E1. destruct (v <? n_enabled n) eqn:E2.
    + apply N.ltb_lt in E2. simpl. repeat split; try intro H; try discriminate; try reflexivity; try lia; try (destruct H; lia).
    + apply N.ltb_ge in E2. simpl. repeat split; try intro H; try discriminate; try reflexivity; try lia; try congruence; try (destruct H; lia).
Qed.

(* ---- a call runs the newest implementation not above the enabled version ---- *)

Lemma call_runs_newest : forall n o nm, table_ok n ->
  match call_id n o nm with
  | Some fid => exists r, id_to_method (n_code n) fid = Some (mkDecl o nm r) /\
                          newest_le (n_code n) o nm (n_enabled n) r
  | None => forall r', declared (n_code n) o nm r' -> n_enabled n < r'
  end.
Proof.
  intros n o nm T. unfold call_id. rewrite T.
  pose proof (resolution (n_code n) (n_enabled n) o nm) as R.
  destruct (get_func_name (name_table (n_code n) (n_enabled n)) o nm) as [x|].
  - destruct R as [r [Hx Hn]]. subst x.
    destruct (method_id_declared (n_code n) o nm r) as [fid Hf]. destruct Hn; assumption.
    rewrite Hf. exists r. split. apply method_id_roundtrip. assumption. assumption.
  - assumption.
Qed.

(* ---------------------------------------------------------------------------------- *)
(* a node that lacks the version, or the method, stops                                  *)
(* ---------------------------------------------------------------------------------- *)

(* an entry this code cannot interpret: a VERSION above its code version, or a method id it
   does not have *)
Definition cannot_apply (s : shape) (e : entry) : Prop :=
  match e with
  | EVersion v => self_code_version s < v
  | ERegular fid _ => id_to_method s fid = None
  | EOther => False
  end.

(* the version named in the logged error *)
Definition stop_ver (n : node) (e : entry) : N :=
  match e with EVersion v => v | _ => n_enabled n end.

Lemma skipn_length_app : forall (A : Type) (a b : list A), skipn (length a) (a ++ b) = b.
Proof. induction a as [|x r IH]; intros b; simpl. reflexivity. apply IH. Qed.

Lemma firstn_app_le : forall (A : Type) k (a b : list A), (k <= length a)%nat -> firstn k (a ++ b) = firstn k a.
Proof.
  intros A k. induction k as [|k IH]; intros a b H. reflexivity.
  destruct a as [|x r]; simpl in *. lia. f_equal. apply IH. lia.
Qed.

Lemma firstn_app_gt : forall (A : Type) k (a : list A) x b, (length a < k)%nat ->
  exists rest, firstn k (a ++ x :: b) = a ++ x :: rest.
Proof.
  intros A k. induction k as [|k IH]; intros a x b H. lia.
  destruct a as [|y r]; simpl in *.
  - eexists. reflexivity.
  - destruct (IH r x b) as [rest Hr]. lia. exists rest. rewrite Hr. reflexivity.
Qed.

Lemma apply_loop_cannot : forall n e rest, cannot_apply (n_code n) e ->
  apply_loop n (e :: rest) = (n, StoppedWrongVer (stop_ver n e)).
Proof.
  intros n e rest H. destruct e as [fid arg|v|]; simpl in *.
  - rewrite H. reflexivity.
  - apply N.ltb_lt in H. rewrite H. reflexivity.
  - contradiction.
Qed.

Lemma tick_at_cannot : forall n done e post commit,
  n_applied n = N.of_nat (length done) -> cannot_apply (n_code n) e ->
  tick n (done ++ e :: post) commit =
  (n, if n_applied n <? commit then StoppedWrongVer (stop_ver n e) else Done).
Proof.
  intros n done e post commit Ha Hv. unfold tick.
  destruct (n_applied n <? commit) eqn:E; [|reflexivity].
  apply N.ltb_lt in E. rewrite Ha, Nnat.Nat2N.id, skipn_length_app.
  destruct (N.to_nat (commit - N.of_nat (length done))) eqn:Ek. lia.
  simpl firstn. apply apply_loop_cannot. assumption.
Qed.

Lemma ticks_at_cannot : forall commits n done e post,
  n_applied n = N.of_nat (length done) -> cannot_apply (n_code n) e ->
  ticks n (done ++ e :: post) commits = n.
Proof.
  induction commits as [|c r IH]; intros n done e post Ha Hv; simpl. reflexivity.
  rewrite tick_at_cannot by assumption. simpl. apply IH; assumption.
Qed.

Lemma apply_loop_enabled_bound : forall pre n0 n1 o,
  apply_loop n0 pre = (n1, o) ->
  n_enabled n1 <= N.max (n_enabled n0) (self_code_version (n_code n0)).
Proof.
  induction pre as [|e r IH]; intros n0 n1 o Hl; simpl in Hl.
  - inversion Hl; subst. lia.
  - destruct (do_apply n0 e) as [n2|o2] eqn:E.
    2: { inversion Hl; subst. lia. }
    specialize (IH _ _ _ Hl). simpl in IH.
    pose proof (do_apply_code _ _ _ E) as Hc. rewrite Hc in IH.
    destruct e as [fid arg|w|]; simpl in E.
    + destruct (id_to_method (n_code n0) fid); inversion E; subst; simpl in IH; assumption.
    + destruct (self_code_version (n_code n0) <? w) eqn:Ew; inversion E; subst. apply N.ltb_ge in Ew.
      simpl in IH. lia.
    + inversion E; subst. assumption.
Qed.

Lemma stops_not_misapplies : forall n0 done pre e post n1,
  n_applied n0 = N.of_nat (length done) ->
  cannot_apply (n_code n0) e ->
  apply_loop n0 pre = (n1, Done) ->
  let log := done ++ pre ++ e :: post in
  (* the tick that reaches the entry applies exactly the entries in front of it and stops *)
  (forall commit, N.of_nat (length done + length pre) < commit ->
     tick n0 log commit = (n1, StoppedWrongVer (stop_ver n1 e))) /\
  (* a tick with a smaller commit index applies a prefix of them *)
  (forall commit, n_applied n0 < commit -> commit <= N.of_nat (length done + length pre) ->
     tick n0 log commit = apply_loop n0 (firstn (N.to_nat (commit - n_applied n0)) pre)) /\
  (* from then on nothing moves, whatever the commit index does *)
  (forall commits, ticks n1 log commits = n1) /\
  (forall commit, tick n1 log commit =
     (n1, if n_applied n1 <? commit then StoppedWrongVer (stop_ver n1 e) else Done)) /\
  (* the state is the executions of the entries in front of that entry, nothing else *)
  n_applied n1 = N.of_nat (length done + length pre) /\
  n_hist n1 = n_hist n0 ++ execs_of (n_code n0) pre /\
  n_enabled n1 <= N.max (n_enabled n0) (self_code_version (n_code n0)).
Proof.
  intros n0 done pre e post n1 Ha Hv Hl log.
  pose proof (apply_loop_done _ _ _ Hl) as [Hc [Hap Hh]].
  assert (Ha1 : n_applied n1 = N.of_nat (length (done ++ pre))) by (rewrite app_length; lia).
  assert (Hv1 : cannot_apply (n_code n1) e) by (rewrite Hc; assumption).
  assert (Hlog : log = (done ++ pre) ++ e :: post) by (unfold log; rewrite <- app_assoc; reflexivity).
  split; [|split; [|split; [|split; [|split; [|split]]]]].
  - intros commit Hcm. unfold tick.
    assert (E : n_applied n0 <? commit = true) by (apply N.ltb_lt; lia). rewrite E.
    rewrite Ha, Nnat.Nat2N.id. unfold log. rewrite skipn_length_app.
    destruct (firstn_app_gt entry (N.to_nat (commit - N.of_nat (length done))) pre e post) as [rest Hr]. lia.
    rewrite Hr, apply_loop_app, Hl. apply apply_loop_cannot. assumption.
  - intros commit H1 H2. unfold tick.
    assert (E : n_applied n0 <? commit = true) by (apply N.ltb_lt; lia). rewrite E.
    rewrite Ha, Nnat.Nat2N.id. unfold log. rewrite skipn_length_app.
    rewrite firstn_app_le by lia. reflexivity.
  - intro commits. rewrite Hlog. apply ticks_at_cannot; assumption.
  - intro commit. rewrite Hlog. apply tick_at_cannot; assumption.
  - rewrite Ha1, app_length. reflexivity.
  - assumption.
  - apply (apply_loop_enabled_bound _ _ _ _ Hl).
Qed.

(* ---------------------------------------------------------------------------------- *)
(* old and new code read every entry alike                                              *)
(* ---------------------------------------------------------------------------------- *)

Definition same_state (n1 n2 : node) : Prop :=
  n_hist n1 = n_hist n2 /\ n_enabled n1 = n_enabled n2 /\ n_applied n1 = n_applied n2.

(* every added version is above the version of the old code *)
Definition newer_than_code (old added : shape) : Prop :=
  forall a, In a added -> self_code_version old < d_ver a.

Lemma d_ver_le_self : forall s d, In d s -> d_ver d <= self_code_version s.
Proof.
  induction s as [|x r IH]; intros d H; simpl in H. contradiction.
  unfold self_code_version in *. simpl. destruct H as [H|H]. subst. lia. specialize (IH d H). lia.
Qed.

Lemma newer_than_code_all_newer : forall old added, newer_than_code old added -> all_newer old added.
Proof.
  intros old added H o a Ho Ha. specialize (H a Ha). pose proof (d_ver_le_self old o Ho). lia.
Qed.

Lemma self_code_version_app : forall a b, self_code_version (a ++ b) = N.max (self_code_version a) (self_code_version b).
Proof.
  induction a as [|x r IH]; intros b.
  - simpl. unfold self_code_version at 2. simpl. rewrite N.max_0_l. reflexivity.
  - unfold self_code_version in *. simpl. rewrite IH. lia.
Qed.

(* whatever the old code applies, the new code applies as the same method *)
Lemma do_apply_old_new : forall old added n1 n2 e n1',
  all_newer old added -> n_code n1 = old -> n_code n2 = old ++ added -> same_state n1 n2 ->
  do_apply n1 e = inl n1' ->
  exists n2', do_apply n2 e = inl n2' /\ same_state n1' n2'.
Proof.
  intros old added n1 n2 e n1' H C1 C2 [Hh [He Ha]] D. subst old. destruct e as [fid arg|v|]; simpl in *.
  - destruct (id_to_method (n_code n1) fid) as [d|] eqn:E; inversion D; subst n1'.
    rewrite C2, (id_to_method_stable _ added _ _ H E). eexists. split. reflexivity.
    unfold same_state. simpl. rewrite Hh. auto.
  - destruct (self_code_version (n_code n1) <? v) eqn:E; inversion D; subst n1'.
    apply N.ltb_ge in E. rewrite C2, self_code_version_app.
    assert (E2 : N.max (self_code_version (n_code n1)) (self_code_version added) <? v = false) by (apply N.ltb_ge; lia).
    rewrite E2. eexists. split. reflexivity. unfold same_state. simpl. auto.
  - inversion D; subst n1'. exists n2. split. reflexivity. unfold same_state. auto.
Qed.

Lemma same_state_bump : forall a b, same_state a b -> same_state (bump a) (bump b).
Proof. intros a b [H1 [H2 H3]]. unfold same_state. simpl. rewrite H3. auto. Qed.

Lemma apply_loop_old_new : forall old added es n1 n2 n1' o1,
  all_newer old added -> n_code n1 = old -> n_code n2 = old ++ added -> same_state n1 n2 ->
  apply_loop n1 es = (n1', o1) ->
  exists n2' o2, apply_loop n2 es = (n2', o2) /\
                 (exists more, n_hist n2' = n_hist n1' ++ more) /\
                 (o1 = Done -> o2 = Done /\ same_state n1' n2').
Proof.
  intros old added es. induction es as [|e r IH]; intros n1 n2 n1' o1 H C1 C2 S L; simpl in L.
  - inversion L; subst. exists n2, Done. split. reflexivity. destruct S as [Hh [He Ha]]. split.
    exists []. rewrite app_nil_r. symmetry. assumption. intros _. split. reflexivity. split; auto.
  - destruct (do_apply n1 e) as [m1|x1] eqn:E.
    + destruct (do_apply_old_new old added n1 n2 e m1 H C1 C2 S E) as [m2 [E2 S2]].
      simpl. rewrite E2. apply (IH (bump m1) (bump m2)); try assumption.
      * simpl. rewrite (do_apply_code _ _ _ E). assumption.
      * simpl. rewrite (do_apply_code _ _ _ E2). assumption.
      * apply same_state_bump. assumption.
    + inversion L; subst.
      destruct (apply_loop n2 (e :: r)) as [n2' o2] eqn:L2. exists n2', o2. split. reflexivity.
      split.
      * destruct (apply_loop_any _ _ _ _ L2) as [_ [_ [more Hm]]]. exists more. destruct S as [Hh _]. rewrite Hh. assumption.
      * intro D. exfalso. apply (do_apply_inr_not_done _ _ _ E). assumption.
Qed.

(* calls issued while the enabled version is one the old code has carry ids the old code knows,
   whichever code the calling node runs *)
Lemma call_id_known_to_old : forall old added n o nm fid,
  newer_than_code old added -> table_ok n -> n_code n = old ++ added ->
  n_enabled n <= self_code_version old ->
  call_id n o nm = Some fid ->
  exists r, id_to_method old fid = Some (mkDecl o nm r) /\ newest_le old o nm (n_enabled n) r.
Proof.
  intros old added n o nm fid Hn T C Hle Hc.
  pose proof (newer_than_code_all_newer _ _ Hn) as Hall.
  pose proof (call_runs_newest n o nm T) as R. rewrite Hc in R.
  destruct R as [r [Hid [Hd [Hr Hmax]]]]. rewrite C in Hd, Hid, Hmax.
  assert (Hold : In (mkDecl o nm r) old).
  { unfold declared in Hd. apply in_app_or in Hd. destruct Hd as [Hd|Hd]. assumption.
    specialize (Hn _ Hd). simpl in Hn. lia. }
  exists r. split.
  - destruct (method_id_declared old o nm r Hold) as [i Hi].
    pose proof (method_id_roundtrip old o nm r i Hi) as Ri.
    unfold call_id in Hc. rewrite T, C in Hc.
    pose proof (resolution (old ++ added) (n_enabled n) o nm) as Q.
    destruct (get_func_name (name_table (old ++ added) (n_enabled n)) o nm) as [x|]; [|discriminate].
    destruct Q as [r2 [Hx Hn2]]. subst x.
    assert (r2 = r).
    { apply (newest_le_unique (old ++ added) o nm (n_enabled n)). assumption.
      split. assumption. split; assumption. }
    subst r2.
    pose proof (method_id_stable old added o (vname_of nm r) i Hall Hi) as Hi2.
    rewrite Hi2 in Hc. inversion Hc; subst. assumption.
  - split. assumption. split. assumption.
    intros r' Hd' Hr'. apply Hmax. unfold declared. apply in_or_app. left. assumption. assumption.
Qed.

(* the upgraded node goes through the same states up to the version entry and then on *)
Lemma resumes_after_upgrade : forall old added n1 n2 pre v post n1',
  all_newer old added -> n_code n1 = old -> n_code n2 = old ++ added -> same_state n1 n2 ->
  apply_loop n1 pre = (n1', Done) ->
  v <= self_code_version (old ++ added) ->
  exists n2', apply_loop n2 pre = (n2', Done) /\ same_state n1' n2' /\
    apply_loop n2 (pre ++ EVersion v :: post) =
    apply_loop (bump {| n_code := old ++ added; n_enabled := v; n_table := name_table (old ++ added) v;
                        n_hist := n_hist n2'; n_applied := n_applied n2' |}) post.
Proof.
  intros old added n1 n2 pre v post n1' H C1 C2 S L Hv.
  destruct (apply_loop_old_new old added pre n1 n2 n1' Done H C1 C2 S L) as [n2' [o2 [L2 [_ HD]]]].
  destruct (HD eq_refl) as [Ho S']. subst o2. exists n2'. split. assumption. split. assumption.
  rewrite apply_loop_app, L2. simpl.
  destruct (apply_loop_any _ _ _ _ L2) as [Hc _]. rewrite Hc, C2.
  assert (E : self_code_version (old ++ added) <? v = false) by (apply N.ltb_ge; assumption). rewrite E. reflexivity.
Qed.

(* ---------------------------------------------------------------------------------- *)
(* snapshots                                                                           *)
(* ---------------------------------------------------------------------------------- *)

Lemma fresh_table_ok : forall s, table_ok (fresh s).
Proof. intro s. reflexivity. Qed.

Lemma load_dump_table_ok : forall n d, table_ok n -> table_ok (load_dump n d).
Proof.
  intros n d T. unfold load_dump. destruct (dp_enabled d) as [e|]; [|reflexivity].
  destruct (self_code_version (n_code n) <? e). assumption. reflexivity.
Qed.

Lemma after_snapshot : forall n m, table_ok n ->
  n_enabled n <= self_code_version (n_code m) ->
  let m' := load_dump m (take_dump false n) in
  n_enabled m' = n_enabled n /\ n_hist m' = n_hist n /\ n_applied m' = n_applied n /\
  n_table m' = name_table (n_code m) (n_enabled n) /\
  (forall o nm, match get_func_name (n_table m') o nm with
                | Some x => exists r, x = vname_of nm r /\ newest_le (n_code m) o nm (n_enabled n) r
                | None => forall r', declared (n_code m) o nm r' -> n_enabled n < r'
                end) /\
  (n_code m = n_code n -> m' = n).
Proof.
  intros n m T Hs. unfold load_dump. simpl.
  assert (E : self_code_version (n_code m) <? n_enabled n = false) by (apply N.ltb_ge; assumption).
  rewrite E. simpl. repeat split.
  - intros o nm. apply resolution.
  - intro C. destruct n as [c e t h a]. unfold table_ok in T. simpl in *. subst. reflexivity.
Qed.

(* a node whose code lacks the version the dump has enabled does not load it: nothing changes *)
Lemma lacking_node_refuses_snapshot : forall n d v,
  dp_enabled d = Some v -> self_code_version (n_code n) < v -> load_dump n d = n.
Proof.
  intros n d v Hd Hv. unfold load_dump. rewrite Hd. apply N.ltb_lt in Hv. rewrite Hv. reflexivity.
Qed.

(* conf.serializer mode: the enabled version is not in the dump *)
Lemma after_snapshot_custom_refuted :
  exists n m, table_ok n /\ n_code m = n_code n /\ m = fresh (n_code n) /\
    n_enabled n = 1 /\ n_enabled (load_dump m (take_dump true n)) = 0 /\
    n_applied (load_dump m (take_dump true n)) = n_applied n /\
    call_id n 0 w_foo <> call_id (load_dump m (take_dump true n)) 0 w_foo.
Proof.
  pose (s := [mkDecl 0 w_foo 0; mkDecl 0 w_foo 1]).
  exists (fst (apply_loop (fresh s) [EVersion 1])), (fresh s).
  split. reflexivity. split. reflexivity. split. reflexivity. split. reflexivity. split. reflexivity.
  split. reflexivity. vm_compute. discriminate.
Qed.

(* ---------------------------------------------------------------------------------- *)
(* non-vacuity                                                                         *)
(* ---------------------------------------------------------------------------------- *)

Definition x_old : shape := [mkDecl 0 w_foo 0; mkDecl 1 w_bar 0; mkDecl 2 w_bar 0; mkDecl 0 w_bar 1].
Definition x_added : shape := [mkDecl 0 w_foo 2; mkDecl 2 w_bar 3].

Example x_all_newer : all_newer x_old x_added.
Proof.
  intros o a Ho Ha. simpl in Ho, Ha.
  destruct Ho as [Ho|[Ho|[Ho|[Ho|[]]]]]; destruct Ha as [Ha|[Ha|[]]]; subst; simpl; lia.
Qed.

Example x_newer_than_code : newer_than_code x_old x_added.
Proof. intros a [Ha|[Ha|[]]]; subst; vm_compute; reflexivity. Qed.

(* an old-code node in front of a VERSION 2 entry: applies the two entries before it, stops,
   the entry after it is never executed; the new-code node executes the same methods and goes on *)
Example x_stops :
  let log := [ERegular 0 11; ERegular 3 12; EVersion 2; ERegular 4 13] in
  tick (fresh x_old) log 4 =
    ({| n_code := x_old; n_enabled := 0; n_table := name_table x_old 0;
        n_hist := [(mkDecl 0 w_foo 0, 11); (mkDecl 0 w_bar 1, 12)]; n_applied := 2 |}, StoppedWrongVer 2) /\
  n_hist (fst (tick (fresh (x_old ++ x_added)) log 4)) =
    [(mkDecl 0 w_foo 0, 11); (mkDecl 0 w_bar 1, 12); (mkDecl 0 w_foo 2, 13)] /\
  apply_loop (fresh x_old) [ERegular 0 11; ERegular 3 12] =
    ({| n_code := x_old; n_enabled := 0; n_table := name_table x_old 0;
        n_hist := [(mkDecl 0 w_foo 0, 11); (mkDecl 0 w_bar 1, 12)]; n_applied := 2 |}, Done) /\
  cannot_apply x_old (EVersion 2) /\ 2 <= self_code_version (x_old ++ x_added).
Proof. repeat split; vm_compute; try reflexivity; discriminate. Qed.

(* the same with a method id the old code does not have in place of the version entry *)
Example x_stops_unknown_id :
  let log := [ERegular 0 11; ERegular 4 13; ERegular 3 12] in
  cannot_apply x_old (ERegular 4 13) /\
  tick (fresh x_old) log 3 =
    ({| n_code := x_old; n_enabled := 0; n_table := name_table x_old 0;
        n_hist := [(mkDecl 0 w_foo 0, 11)]; n_applied := 1 |}, StoppedWrongVer 0) /\
  ticks (fresh x_old) log [3; 3; 2; 3] = fst (tick (fresh x_old) log 3).
Proof. repeat split; vm_compute; reflexivity. Qed.

Example x_resolution :
  get_func_name (name_table (x_old ++ x_added) 2) 0 w_foo = Some (vname_of w_foo 2) /\
  get_func_name (name_table (x_old ++ x_added) 2) 2 w_bar = Some (vname_of w_bar 0) /\
  get_func_name (name_table (x_old ++ x_added) 0) 0 w_bar = None /\
  get_func_name (name_table (x_old ++ x_added) 3) 2 w_bar = Some (vname_of w_bar 3) /\
  get_func_name (name_table (x_old ++ x_added) 3) 1 w_bar = Some (vname_of w_bar 0).
Proof. repeat split; vm_compute; reflexivity. Qed.

Example x_validation :
  let n := fst (apply_loop (fresh (x_old ++ x_added)) [EVersion 2]) in
  submit_set_version n [] 3 = ([EVersion 3], Queued) /\
  submit_set_version n [] 4 = ([], RejectedAbove) /\
  submit_set_version n [] 1 = ([], RejectedBelow) /\
  submit_set_version n [] 2 = ([EVersion 2], Queued).
Proof. repeat split; vm_compute; reflexivity. Qed.

Example x_snapshot :
  let n := fst (apply_loop (fresh (x_old ++ x_added)) [ERegular 0 1; EVersion 2; ERegular 4 2]) in
  table_ok n /\ n_enabled n = 2 /\ n_enabled n <= self_code_version (x_old ++ x_added) /\
  load_dump (fresh (x_old ++ x_added)) (take_dump false n) = n /\
  call_id (load_dump (fresh (x_old ++ x_added)) (take_dump false n)) 0 w_foo = Some 4 /\
  (* the old code lacks version 2: it keeps its own state *)
  dp_enabled (take_dump false n) = Some 2 /\ self_code_version x_old < 2 /\
  load_dump (fresh x_old) (take_dump false n) = fresh x_old.
Proof. repeat split; vm_compute; try reflexivity; discriminate. Qed.

(* old and new code on one log: same executions, same version *)
Example x_same_interpretation :
  let es := [ERegular 0 11; ERegular 3 12; EVersion 1; ERegular 1 13; EOther] in
  snd (apply_loop (fresh x_old) es) = Done /\ snd (apply_loop (fresh (x_old ++ x_added)) es) = Done /\
  n_hist (fst (apply_loop (fresh x_old) es)) = n_hist (fst (apply_loop (fresh (x_old ++ x_added)) es)) /\
  n_hist (fst (apply_loop (fresh x_old) es)) =
    [(mkDecl 0 w_foo 0, 11); (mkDecl 0 w_bar 1, 12); (mkDecl 1 w_bar 0, 13)] /\
  n_enabled (fst (apply_loop (fresh x_old) es)) = 1.
Proof. repeat split; vm_compute; reflexivity. Qed.

(* a new-code node at enabled version 1 (which the old code has): its calls carry old ids *)
Example x_call_known_to_old :
  let n := fst (apply_loop (fresh (x_old ++ x_added)) [EVersion 1]) in
  table_ok n /\ n_enabled n <= self_code_version x_old /\
  call_id n 0 w_bar = Some 3 /\ id_to_method x_old 3 = Some (mkDecl 0 w_bar 1) /\
  call_id n 0 w_foo = Some 0 /\
  (* after the switch to 2 the same call carries an id the old code does not have *)
  call_id (fst (apply_loop (fresh (x_old ++ x_added)) [EVersion 2])) 0 w_foo = Some 4 /\
  id_to_method x_old 4 = None.
Proof. repeat split; vm_compute; try reflexivity; discriminate. Qed.
