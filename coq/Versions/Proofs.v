(* Lemmas about coq/Versions/Model.v, part 1: strings, the id enumeration, id stability. *)
From Coq Require Import NArith List Bool Lia Decimal DecimalN.
From PSO Require Import Versions.Model.
Import ListNotations.
Open Scope N_scope.

(* ---------------------------------------------------------------------------------- *)
(* strings                                                                             *)
(* ---------------------------------------------------------------------------------- *)

Lemma str_eqb_eq : forall a b, str_eqb a b = true <-> a = b.
Proof.
  induction a as [|x a IH]; destruct b as [|y b]; simpl; split; intro H; try reflexivity; try discriminate.
  - apply andb_true_iff in H. destruct H as [Hx Hr]. apply N.eqb_eq in Hx. apply IH in Hr. subst. reflexivity.
  - inversion H; subst. apply andb_true_iff. split. apply N.eqb_refl. apply IH. reflexivity.
Qed.

Lemma str_eqb_refl : forall a, str_eqb a a = true.
Proof. intro a. apply str_eqb_eq. reflexivity. Qed.

Lemma str_eqb_neq : forall a b, str_eqb a b = false <-> a <> b.
Proof.
  intros a b. split.
  - intros H E. apply str_eqb_eq in E. congruence.
  - intro H. destruct (str_eqb a b) eqn:E; [apply str_eqb_eq in E; contradiction | reflexivity].
Qed.

Definition is_digit (c : N) : Prop := 48 <= c /\ c <= 57.

Lemma uint_codes_digits : forall u, Forall is_digit (uint_codes u).
Proof.
  induction u; simpl; constructor; try assumption; unfold is_digit; lia.
Qed.

Lemma uint_codes_inj : forall u u', uint_codes u = uint_codes u' -> u = u'.
Proof.
  induction u as [|u IH|u IH|u IH|u IH|u IH|u IH|u IH|u IH|u IH|u IH];
    destruct u' as [|u'|u'|u'|u'|u'|u'|u'|u'|u'|u']; simpl; intro H;
    try reflexivity; try discriminate; inversion H as [H1]; apply IH in H1; subst; reflexivity.
Qed.

Lemma dec_codes_inj : forall v v', dec_codes v = dec_codes v' -> v = v'.
Proof.
  intros v v' H. unfold dec_codes in H. apply uint_codes_inj in H.
  rewrite <- (Unsigned.of_to v), <- (Unsigned.of_to v'), H. reflexivity.
Qed.

Lemma dec_codes_digits : forall v, Forall is_digit (dec_codes v).
Proof. intro v. apply uint_codes_digits. Qed.

(* a run of digits followed by 'v' splits uniquely *)
Lemma digits_then_v_inj : forall d1 d2 t1 t2,
  Forall is_digit d1 -> Forall is_digit d2 ->
  d1 ++ 118 :: t1 = d2 ++ 118 :: t2 -> d1 = d2 /\ t1 = t2.
Proof.
  induction d1 as [|x d1 IH]; intros d2 t1 t2 H1 H2 E.
  - destruct d2 as [|y d2]; simpl in E.
    + inversion E. split; reflexivity.
    + inversion E as [[Hy Hr]]. inversion H2 as [|? ? Hd _]; subst. unfold is_digit in Hd. lia.
  - destruct d2 as [|y d2]; simpl in E.
    + inversion E as [[Hx Hr]]. inversion H1 as [|? ? Hd _]; subst. unfold is_digit in Hd. lia.
    + inversion E as [[Hx Hr]]. inversion H1; inversion H2; subst.
      destruct (IH d2 t1 t2) as [A B]; try assumption. subst. split; reflexivity.
Qed.

Lemma Forall_rev_digit : forall l, Forall is_digit l -> Forall is_digit (List.rev l).
Proof.
  intros l H. apply Forall_forall. intros x Hx. apply in_rev in Hx.
  rewrite Forall_forall in H. apply H. assumption.
Qed.

(* name + '_v' + str(ver) determines name and ver *)
Lemma vname_of_inj : forall n1 v1 n2 v2, vname_of n1 v1 = vname_of n2 v2 -> n1 = n2 /\ v1 = v2.
Proof.
  intros n1 v1 n2 v2 H. unfold vname_of in H.
  apply (f_equal (@List.rev N)) in H.
  repeat (rewrite rev_app_distr in H; simpl in H).
  change (95 :: 118 :: dec_codes v1) with ([95; 118] ++ dec_codes v1) in H.
  change (95 :: 118 :: dec_codes v2) with ([95; 118] ++ dec_codes v2) in H.
  repeat (rewrite rev_app_distr in H; simpl in H).
  repeat rewrite <- app_assoc in H. simpl in H.
  apply digits_then_v_inj in H; try (apply Forall_rev_digit; apply dec_codes_digits).
  destruct H as [Hd Ht]. inversion Ht as [Hn].
  apply (f_equal (@List.rev N)) in Hd. apply (f_equal (@List.rev N)) in Hn.
  repeat rewrite rev_involutive in *. apply dec_codes_inj in Hd. split; assumption.
Qed.

(* ---------------------------------------------------------------------------------- *)
(* boolean equalities, dedup                                                           *)
(* ---------------------------------------------------------------------------------- *)

Lemma decl_eqb_eq : forall a b, decl_eqb a b = true <-> a = b.
Proof.
  intros [o n v] [o' n' v']. unfold decl_eqb. simpl. split; intro H.
  - apply andb_true_iff in H. destruct H as [H Hn]. apply andb_true_iff in H. destruct H as [Ho Hv].
    apply N.eqb_eq in Ho. apply N.eqb_eq in Hv. apply str_eqb_eq in Hn. subst. reflexivity.
  - inversion H; subst. rewrite !N.eqb_refl, str_eqb_refl. reflexivity.
Qed.

Lemma key_eqb_eq : forall a b : key, key_eqb a b = true <-> a = b.
Proof.
  intros [o n] [o' n']. unfold key_eqb. simpl. split; intro H.
  - apply andb_true_iff in H. destruct H as [Ho Hn]. apply N.eqb_eq in Ho. apply str_eqb_eq in Hn. subst. reflexivity.
  - inversion H; subst. rewrite N.eqb_refl, str_eqb_refl. reflexivity.
Qed.

Section Dedup.
  Variable A : Type.
  Variable eqb : A -> A -> bool.
  Hypothesis eqb_eq : forall a b, eqb a b = true <-> a = b.

  Lemma existsb_eqb_In : forall x l, existsb (eqb x) l = true <-> In x l.
  Proof.
    intros x l. rewrite existsb_exists. split.
    - intros [y [Hy E]]. apply eqb_eq in E. subst. assumption.
    - intro H. exists x. split. assumption. apply eqb_eq. reflexivity.
  Qed.

  Lemma In_dedupb : forall x l, In x (dedupb eqb l) <-> In x l.
  Proof.
    intros x l. induction l as [|y r IH]; simpl. tauto.
    destruct (existsb (eqb y) r) eqn:E.
    - rewrite IH. split; [tauto|]. intros [H|H]; [|assumption]. subst. apply existsb_eqb_In. assumption.
    - simpl. rewrite IH. tauto.
  Qed.

  Lemma NoDup_dedupb : forall l, NoDup (dedupb eqb l).
  Proof.
    induction l as [|y r IH]; simpl. constructor.
    destruct (existsb (eqb y) r) eqn:E. assumption.
    constructor; [|assumption]. rewrite In_dedupb. intro H. apply existsb_eqb_In in H. congruence.
  Qed.

  Lemma dedupb_app_disjoint : forall l1 l2,
    (forall x, In x l1 -> ~ In x l2) -> dedupb eqb (l1 ++ l2) = dedupb eqb l1 ++ dedupb eqb l2.
  Proof.
    induction l1 as [|y r IH]; intros l2 H; simpl. reflexivity.
    assert (Hr : forall x, In x r -> ~ In x l2) by (intros x Hx; apply H; right; assumption).
    assert (E : existsb (eqb y) (r ++ l2) = existsb (eqb y) r).
    { rewrite existsb_app. destruct (existsb (eqb y) l2) eqn:E2; [|apply orb_false_r].
      apply existsb_eqb_In in E2. exfalso. apply (H y); [left; reflexivity | assumption]. }
    rewrite E. destruct (existsb (eqb y) r); rewrite (IH l2 Hr); reflexivity.
  Qed.
End Dedup.

(* ---------------------------------------------------------------------------------- *)
(* sorted(): old ++ higher-versioned additions                                          *)
(* ---------------------------------------------------------------------------------- *)

Lemma key_ltb_ver_lt : forall a b, d_ver a < d_ver b -> key_ltb b a = false.
Proof.
  intros a b H. unfold key_ltb.
  destruct (d_ver b <? d_ver a) eqn:E1. apply N.ltb_lt in E1. lia.
  destruct (d_ver a <? d_ver b) eqn:E2. reflexivity. apply N.ltb_ge in E2. lia.
Qed.

Lemma insert_decl_app : forall x l1 l2,
  (forall y, In y l2 -> key_ltb y x = false) -> insert_decl x (l1 ++ l2) = insert_decl x l1 ++ l2.
Proof.
  intros x l1 l2 H. induction l1 as [|y r IH]; simpl.
  - destruct l2 as [|y r]; simpl. reflexivity. rewrite (H y) by (left; reflexivity). reflexivity.
  - destruct (key_ltb y x); simpl; [rewrite IH|]; reflexivity.
Qed.

Lemma In_insert_decl : forall x y l, In y (insert_decl x l) <-> y = x \/ In y l.
Proof.
  intros x y l. induction l as [|z r IH]; simpl. intuition.
  destruct (key_ltb z x); simpl; [rewrite IH|]; intuition.
Qed.

Lemma In_sort_decls : forall y l, In y (sort_decls l) <-> In y l.
Proof.
  intros y l. induction l as [|x r IH]; simpl. tauto.
  rewrite In_insert_decl, IH. intuition.
Qed.

Lemma length_insert_decl : forall x l, length (insert_decl x l) = S (length l).
Proof.
  intros x l. induction l as [|z r IH]; simpl. reflexivity.
  destruct (key_ltb z x); simpl; [rewrite IH|]; reflexivity.
Qed.

Lemma length_sort_decls : forall l, length (sort_decls l) = length l.
Proof.
  induction l as [|x r IH]; simpl. reflexivity. rewrite length_insert_decl, IH. reflexivity.
Qed.

Lemma sort_decls_app : forall l1 l2,
  (forall a b, In a l1 -> In b l2 -> d_ver a < d_ver b) ->
  sort_decls (l1 ++ l2) = sort_decls l1 ++ sort_decls l2.
Proof.
  induction l1 as [|x r IH]; intros l2 H; simpl. reflexivity.
  rewrite IH by (intros a b Ha Hb; apply H; [right|]; assumption).
  apply insert_decl_app. intros y Hy. apply key_ltb_ver_lt. apply H. left; reflexivity.
  apply (proj1 (In_sort_decls _ _)) in Hy. assumption.
Qed.

Definition all_newer (old added : shape) : Prop :=
  forall o a, In o old -> In a added -> d_ver o < d_ver a.

Lemma enumerate_ids_app : forall old added, all_newer old added ->
  enumerate_ids (old ++ added) = enumerate_ids old ++ enumerate_ids added.
Proof.
  intros old added H. unfold enumerate_ids, attrs.
  rewrite (dedupb_app_disjoint decl decl_eqb decl_eqb_eq).
  - apply sort_decls_app. intros a b Ha Hb.
    apply (proj1 (In_dedupb decl decl_eqb decl_eqb_eq _ _)) in Ha. apply (proj1 (In_dedupb decl decl_eqb decl_eqb_eq _ _)) in Hb.
    apply H; assumption.
  - intros x H1 H2. specialize (H x x H1 H2). lia.
Qed.

Lemma index_of_app : forall o vn l1 l2 i j, index_of o vn l1 i = Some j -> index_of o vn (l1 ++ l2) i = Some j.
Proof.
  intros o vn l1. induction l1 as [|[o' vn'] r IH]; intros l2 i j H; simpl in *. discriminate.
  destruct ((o' =? o) && str_eqb vn' vn). assumption. apply IH. assumption.
Qed.

Lemma method_id_stable : forall old added o vn i, all_newer old added ->
  method_id old o vn = Some i -> method_id (old ++ added) o vn = Some i.
Proof.
  intros old added o vn i H Hi. unfold method_id, id_table in *.
  rewrite (enumerate_ids_app old added H), map_app. apply index_of_app. assumption.
Qed.

Lemma id_to_method_stable : forall old added fid d, all_newer old added ->
  id_to_method old fid = Some d -> id_to_method (old ++ added) fid = Some d.
Proof.
  intros old added fid d H Hd. unfold id_to_method in *.
  rewrite (enumerate_ids_app old added H). rewrite nth_error_app1. assumption.
  apply nth_error_Some. congruence.
Qed.

(* an id the old code does not know denotes an added method in the new code *)
Lemma id_to_method_new_only : forall old added fid d, all_newer old added ->
  id_to_method old fid = None -> id_to_method (old ++ added) fid = Some d -> In d added.
Proof.
  intros old added fid d H Hn Hs. unfold id_to_method in *.
  rewrite (enumerate_ids_app old added H) in Hs.
  apply nth_error_None in Hn. rewrite nth_error_app2 in Hs by assumption.
  apply nth_error_In in Hs. unfold enumerate_ids, attrs in Hs.
  apply (proj1 (In_sort_decls _ _)) in Hs. apply (proj1 (In_dedupb decl decl_eqb decl_eqb_eq _ _)) in Hs. assumption.
Qed.

(* ---- roundtrip between the two id tables ---- *)

Lemma index_of_spec : forall o vn l i j, index_of o vn l i = Some j ->
  exists k, j = i + N.of_nat k /\ nth_error l k = Some (o, vn).
Proof.
  intros o vn l. induction l as [|[o' vn'] r IH]; intros i j H; simpl in H. discriminate.
  destruct ((o' =? o) && str_eqb vn' vn) eqn:E.
  - inversion H; subst. exists 0%nat. split. lia. simpl.
    apply andb_true_iff in E. destruct E as [Eo En]. apply N.eqb_eq in Eo. apply str_eqb_eq in En. subst. reflexivity.
  - apply IH in H. destruct H as [k [Hj Hk]]. exists (S k). split. lia. assumption.
Qed.

Lemma index_of_complete : forall o vn l i, In (o, vn) l -> exists j, index_of o vn l i = Some j.
Proof.
  intros o vn l. induction l as [|[o' vn'] r IH]; intros i H; simpl in *. contradiction.
  destruct ((o' =? o) && str_eqb vn' vn) eqn:E. eexists; reflexivity.
  destruct H as [H|H].
  - inversion H; subst. rewrite N.eqb_refl, str_eqb_refl in E. discriminate.
  - apply IH. assumption.
Qed.

(* the id a name maps to denotes, in _idToMethod, the method of that owner, name and version *)
Lemma method_id_roundtrip : forall s o nm v fid,
  method_id s o (vname_of nm v) = Some fid -> id_to_method s fid = Some (mkDecl o nm v).
Proof.
  intros s o nm v fid H. unfold method_id in H. apply index_of_spec in H.
  destruct H as [k [Hf Hk]]. unfold id_to_method. subst fid. simpl.
  rewrite Nnat.Nat2N.id. unfold id_table in Hk. rewrite nth_error_map in Hk.
  destruct (nth_error (enumerate_ids s) k) as [d|]; simpl in Hk; [|discriminate].
  inversion Hk as [[Ho Hn]]. unfold vname in Hn. apply vname_of_inj in Hn. destruct Hn as [Hn Hv].
  destruct d as [o' n' v']. simpl in *. subst. reflexivity.
Qed.

Lemma method_id_declared : forall s o nm v, In (mkDecl o nm v) s -> exists fid, method_id s o (vname_of nm v) = Some fid.
Proof.
  intros s o nm v H. unfold method_id. apply index_of_complete.
  unfold id_table. apply in_map_iff. exists (mkDecl o nm v). split. reflexivity.
  unfold enumerate_ids, attrs. apply In_sort_decls. apply (In_dedupb decl decl_eqb decl_eqb_eq). assumption.
Qed.

(* ---- necessity of "higher than every old version": a witness where ids shift ---- *)

Definition w_foo : name := [102; 111; 111].
Definition w_bar : name := [98; 97; 114].
Definition w_abc : name := [97; 98; 99].
Definition w_old : shape := [mkDecl 0 w_foo 0; mkDecl 0 w_bar 1].
Definition w_added_bad : shape := [mkDecl 0 w_abc 0].       (* version 0 <= an old version *)
Definition w_added_good : shape := [mkDecl 0 w_abc 2; mkDecl 1 w_foo 3].

Lemma ids_shift_witness :
  exists old added o vn i j,
    (exists a b, In a added /\ In b old /\ d_ver a <= d_ver b) /\
    method_id old o vn = Some i /\ method_id (old ++ added) o vn = Some j /\ i <> j.
Proof.
  exists w_old, w_added_bad, 0, (vname_of w_foo 0), 0, 1.
  split.
  - exists (mkDecl 0 w_abc 0), (mkDecl 0 w_foo 0). simpl. split; [left; reflexivity|]. split; [left; reflexivity|]. lia.
  - split; [vm_compute; reflexivity|]. split; [vm_compute; reflexivity|]. lia.
Qed.

(* the same entry is a different method for old and new code in that witness *)
Lemma ids_shift_misinterprets :
  id_to_method w_old 0 = Some (mkDecl 0 w_foo 0) /\
  id_to_method (w_old ++ w_added_bad) 0 = Some (mkDecl 0 w_abc 0).
Proof. split; vm_compute; reflexivity. Qed.

Example all_newer_nonvacuous :
  all_newer w_old w_added_good /\
  enumerate_ids (w_old ++ w_added_good) = enumerate_ids w_old ++ enumerate_ids w_added_good /\
  method_id (w_old ++ w_added_good) 0 (vname_of w_bar 1) = Some 1 /\
  method_id (w_old ++ w_added_good) 1 (vname_of w_foo 3) = Some 3.
Proof.
  split.
  - intros o a Ho Ha. simpl in Ho, Ha.
    destruct Ho as [Ho|[Ho|[]]]; destruct Ha as [Ha|[Ha|[]]]; subst; simpl; lia.
  - repeat split; vm_compute; reflexivity.
Qed.
