From Coq Require Import ZArith NArith List Lia Bool.
From PSO Require Import Base.PyBytes.
Import ListNotations.
Open Scope Z_scope.

Lemma le_bytes_of_length w u : length (le_bytes_of w u) = w.
Proof.
  revert u; induction w as [|w IH]; intro u; [reflexivity|].
  change (le_bytes_of (S w) u) with (Z.to_N (u mod 256) :: le_bytes_of w (u / 256)).
  simpl; now rewrite IH.
Qed.

Lemma le_value_le_bytes_of w u :
  0 <= u -> le_value (le_bytes_of w u) = u mod (256 ^ Z.of_nat w).
Proof.
  revert u; induction w as [|w IH]; intros u Hu.
  - simpl. now rewrite Z.mod_1_r.
  - change (le_bytes_of (S w) u) with (Z.to_N (u mod 256) :: le_bytes_of w (u / 256)).
    cbn [le_value]. rewrite IH by (apply Z.div_pos; lia).
    rewrite Z2N.id by (apply Z.mod_pos_bound; lia).
    rewrite Nat2Z.inj_succ, Z.pow_succ_r by lia.
    assert (H256 : 0 < 256 ^ Z.of_nat w) by (apply Z.pow_pos_nonneg; lia).
    rewrite (Z.rem_mul_r u 256 (256 ^ Z.of_nat w)) by lia. lia.
Qed.

Lemma pack_i_length z : length (pack_i z) = 4%nat.
Proof. apply le_bytes_of_length. Qed.

Lemma firstn_app_exact {A} (a b : list A) n : length a = n -> firstn n (a ++ b) = a.
Proof.
  intros <-. rewrite firstn_app, Nat.sub_diag, firstn_all. simpl. apply app_nil_r.
Qed.

Lemma skipn_app_exact {A} (a b : list A) n : length a = n -> skipn n (a ++ b) = b.
Proof.
  intros <-. rewrite skipn_app, Nat.sub_diag, skipn_all. reflexivity.
Qed.

Lemma unpack_pack_i z rest :
  - two31 <= z < two31 -> unpack_i (pack_i z ++ rest) = z.
Proof.
  intros Hz. unfold unpack_i.
  rewrite (firstn_app_exact (pack_i z) rest 4) by apply pack_i_length.
  unfold pack_i. rewrite le_value_le_bytes_of by (apply Z.mod_pos_bound; reflexivity).
  change (256 ^ Z.of_nat 4) with two32.
  rewrite Z.mod_mod by (unfold two32; lia).
  unfold two31, two32 in *.
  destruct (Z_lt_ge_dec z 0) as [Hneg|Hpos].
  - replace (z mod 4294967296) with (z + 4294967296).
    + destruct (z + 4294967296 <? 2147483648) eqn:E; [apply Z.ltb_lt in E|]; lia.
    + apply Zmod_unique with (-1); lia.
  - rewrite Z.mod_small by lia.
    destruct (z <? 2147483648) eqn:E; [reflexivity|apply Z.ltb_ge in E; lia].
Qed.

(* ---- slices with non-negative bounds ---- *)

Lemma zlen_nonneg {A} (l : list A) : 0 <= zlen l.
Proof. unfold zlen; lia. Qed.

Lemma zlen_app {A} (a b : list A) : zlen (a ++ b) = zlen a + zlen b.
Proof. unfold zlen. rewrite app_length. lia. Qed.

Lemma pyslice_nonneg {A} (l : list A) lo hi :
  0 <= lo <= hi -> hi <= zlen l ->
  pyslice l lo hi = firstn (Z.to_nat (hi - lo)) (skipn (Z.to_nat lo) l).
Proof.
  intros H1 H2. unfold pyslice, norm_idx.
  destruct (lo <? 0) eqn:E1; [apply Z.ltb_lt in E1; lia|].
  destruct (hi <? 0) eqn:E2; [apply Z.ltb_lt in E2; lia|].
  rewrite !Z.min_l by lia.
  destruct (hi <=? lo) eqn:E3; [|reflexivity].
  apply Z.leb_le in E3. replace (hi - lo) with 0 by lia. reflexivity.
Qed.

Lemma pyslice_from_nonneg {A} (l : list A) lo :
  0 <= lo <= zlen l -> pyslice_from l lo = skipn (Z.to_nat lo) l.
Proof.
  intros H. unfold pyslice_from, norm_idx.
  destruct (lo <? 0) eqn:E1; [apply Z.ltb_lt in E1; lia|].
  now rewrite Z.min_l by lia.
Qed.
