(* Python bytes: slices with Python's index normalisation, struct.pack/unpack of
   the fixed-width fields the code uses ('i' = signed 32-bit little endian,
   '<I' = unsigned 32-bit, '<QQ' = two unsigned 64-bit). *)
From Coq Require Import ZArith NArith List Lia Bool.
Import ListNotations.
Open Scope Z_scope.

Definition bytes := list N.

Definition zlen {A} (l : list A) : Z := Z.of_nat (length l).

(* index normalisation of a[lo:hi] (step 1): negative indices count from the
   end, everything is clamped to [0, len] *)
Definition norm_idx (len i : Z) : Z :=
  if i <? 0 then Z.max 0 (len + i) else Z.min i len.

Definition pyslice {A} (l : list A) (lo hi : Z) : list A :=
  let n := zlen l in
  let a := norm_idx n lo in
  let b := norm_idx n hi in
  if b <=? a then [] else firstn (Z.to_nat (b - a)) (skipn (Z.to_nat a) l).

Definition pyslice_from {A} (l : list A) (lo : Z) : list A :=
  skipn (Z.to_nat (norm_idx (zlen l) lo)) l.

Definition pyslice_to {A} (l : list A) (hi : Z) : list A :=
  firstn (Z.to_nat (norm_idx (zlen l) hi)) l.

(* ---- fixed width integers ---- *)

Definition le_bytes_of (width : nat) (u : Z) : bytes :=
  (fix go (k : nat) (u : Z) : bytes :=
     match k with
     | O => []
     | S k' => Z.to_N (u mod 256) :: go k' (u / 256)
     end) width u.

Fixpoint le_value (b : bytes) : Z :=
  match b with
  | [] => 0
  | x :: r => Z.of_N x + 256 * le_value r
  end.

Definition two31 : Z := 2147483648.
Definition two32 : Z := 4294967296.

(* struct.pack('i', z); Python raises struct.error outside the range, the
   callers only pack lengths *)
Definition pack_i (z : Z) : bytes := le_bytes_of 4 (z mod two32).

Definition unpack_i (b : bytes) : Z :=
  let u := le_value (firstn 4 b) in
  if u <? two31 then u else u - two32.

Definition pack_u32 (z : Z) : bytes := le_bytes_of 4 (z mod two32).
Definition unpack_u32 (b : bytes) : Z := le_value (firstn 4 b).

Definition two64 : Z := 18446744073709551616.
Definition pack_u64 (z : Z) : bytes := le_bytes_of 8 (z mod two64).
Definition unpack_u64 (b : bytes) : Z := le_value (firstn 8 b).

Definition byte_ok (x : N) : Prop := (x < 256)%N.
Definition bytes_ok (b : bytes) : Prop := Forall byte_ok b.
