(* C15 proofs, part 2: heapq.  The executable model of CPython's heappush / heappop
   (PySpec.siftdown / siftup, hole-moving as in Lib/heapq.py) keeps the heap invariant, preserves the
   multiset, and heappop returns a minimum; hence ReplPriorityQueue refines the bounded-multiset spec. *)
From Coq Require Import ZArith String List Bool Lia Arith Permutation Sorted ZifyNat.
From PSO Require Import Batteries.PySpec Batteries.Gen Batteries.Spec Batteries.Proofs.
Import ListNotations.
Ltac Zify.zify_post_hook ::= Z.div_mod_to_equations.

Definition par (i : nat) : nat := ((i - 1) / 2)%nat.
Definition swap (g : list Z) (i j : nat) : list Z := upd (upd g i (getn g j)) j (getn g i).

Lemma par_lt : forall i, (0 < i)%nat -> (par i < i)%nat.
Proof. intros. unfold par. lia. Qed.
Lemma par_cases : forall c, (0 < c)%nat -> (c = 2 * par c + 1 \/ c = 2 * par c + 2)%nat.
Proof. intros. unfold par. lia. Qed.

(* ---- upd / getn ---------------------------------------------------------------------------- *)
Lemma length_upd : forall l i x, length (upd l i x) = length l.
Proof. induction l as [|a l IH]; intros [|i] x; simpl; auto. Qed.
Lemma getn_upd_eq : forall l i x, (i < length l)%nat -> getn (upd l i x) i = x.
Proof.
  unfold getn. induction l as [|a l IH]; intros [|i] x H; simpl in *; try lia; auto. apply IH. lia.
Qed.
Lemma getn_upd_neq : forall l i k x, k <> i -> getn (upd l i x) k = getn l k.
Proof.
  unfold getn. induction l as [|a l IH]; intros [|i] [|k] x H; simpl in *; try congruence; auto.
Qed.
Lemma upd_same : forall l i, upd l i (getn l i) = l.
Proof.
  unfold getn. induction l as [|a l IH]; intros [|i]; simpl; auto. f_equal. apply IH.
Qed.
Lemma upd_upd_eq : forall l i x y, upd (upd l i x) i y = upd l i y.
Proof. induction l as [|a l IH]; intros [|i] x y; simpl; auto. f_equal. apply IH. Qed.

Lemma length_swap : forall g i j, length (swap g i j) = length g.
Proof. intros. unfold swap. rewrite !length_upd. reflexivity. Qed.
Lemma getn_swap : forall g i j k, (i < length g)%nat -> (j < length g)%nat ->
  getn (swap g i j) k = if (k =? j)%nat then getn g i else if (k =? i)%nat then getn g j else getn g k.
Proof.
  intros g i j k Hi Hj. unfold swap.
  destruct (k =? j)%nat eqn:Ej.
  - apply Nat.eqb_eq in Ej. subst k. apply getn_upd_eq. rewrite length_upd. assumption.
  - apply Nat.eqb_neq in Ej. rewrite getn_upd_neq by assumption.
    destruct (k =? i)%nat eqn:Ei.
    + apply Nat.eqb_eq in Ei. subst k. apply getn_upd_eq. assumption.
    + apply Nat.eqb_neq in Ei. apply getn_upd_neq. assumption.
Qed.

(* ---- multisets ------------------------------------------------------------------------------ *)
Definition ind (a b : Z) : nat := if Z.eq_dec a b then 1%nat else 0%nat.
Lemma count_upd : forall l i x z, (i < length l)%nat ->
  (count_occ Z.eq_dec (upd l i x) z + ind (getn l i) z = count_occ Z.eq_dec l z + ind x z)%nat.
Proof.
  unfold getn, ind. induction l as [|a l IH]; intros [|i] x z H; simpl in *; try lia.
  - destruct (Z.eq_dec x z), (Z.eq_dec a z); lia.
  - specialize (IH i x z). destruct (Z.eq_dec a z); lia.
Qed.
Lemma swap_perm : forall g i j, (i < length g)%nat -> (j < length g)%nat -> Permutation (swap g i j) g.
Proof.
  intros g i j Hi Hj. apply (Permutation_count_occ Z.eq_dec). intros z. unfold swap.
  pose proof (count_upd (upd g i (getn g j)) j (getn g i) z) as H1. rewrite length_upd in H1. specialize (H1 Hj).
  pose proof (count_upd g i (getn g j) z Hi) as H2.
  destruct (Nat.eq_dec j i) as [->|Hne].
  - rewrite getn_upd_eq in H1 by assumption. lia.
  - rewrite getn_upd_neq in H1 by assumption. lia.
Qed.

(* ---- the hole-moving loops of heapq are swap loops on the list with the carried item put in the hole ---- *)
Fixpoint bub (fuel : nat) (g : list Z) (p : nat) : list Z :=
  match fuel with
  | O => g
  | S f => if (0 <? p)%nat then
             if getn g p <? getn g (par p) then bub f (swap g p (par p)) (par p) else g
           else g
  end.

Lemma siftdown_go_S : forall f h s pos x,
  siftdown_go (S f) h s pos x =
  if (s <? pos)%nat then
    if x <? getn h (par pos) then siftdown_go f (upd h pos (getn h (par pos))) s (par pos) x else upd h pos x
  else upd h pos x.
Proof. reflexivity. Qed.
Lemma bub_S : forall f g p,
  bub (S f) g p = if (0 <? p)%nat then
                    if getn g p <? getn g (par p) then bub f (swap g p (par p)) (par p) else g
                  else g.
Proof. reflexivity. Qed.

Lemma siftdown_go_bub : forall fuel h pos x, (pos < length h)%nat ->
  siftdown_go fuel h 0 pos x = bub fuel (upd h pos x) pos.
Proof.
  induction fuel as [|f IH]; intros h pos x Hpos.
  - reflexivity.
  - rewrite siftdown_go_S, bub_S.
    destruct (0 <? pos)%nat eqn:E0; [|reflexivity].
    apply Nat.ltb_lt in E0. pose proof (par_lt pos E0) as Hp.
    rewrite getn_upd_eq by assumption. rewrite (getn_upd_neq h pos (par pos)) by lia.
    destruct (x <? getn h (par pos)); [|reflexivity].
    rewrite IH by (rewrite length_upd; lia). f_equal.
    unfold swap. rewrite (getn_upd_neq h pos (par pos)) by lia. rewrite getn_upd_eq by assumption.
    rewrite upd_upd_eq. reflexivity.
Qed.

Definition child (g : list Z) (n p : nat) : nat :=
  if ((2 * p + 1) + 1 <? n)%nat && negb (getn g (2 * p + 1) <? getn g ((2 * p + 1) + 1))
  then ((2 * p + 1) + 1)%nat else (2 * p + 1)%nat.

Fixpoint sink (fuel : nat) (g : list Z) (n p : nat) : list Z * nat :=
  match fuel with
  | O => (g, p)
  | S f => if (2 * p + 1 <? n)%nat then sink f (swap g p (child g n p)) n (child g n p) else (g, p)
  end.

Lemma siftup_go_S : forall f h n pos,
  siftup_go (S f) h n pos =
  if (2 * pos + 1 <? n)%nat then siftup_go f (upd h pos (getn h (child h n pos))) n (child h n pos) else (h, pos).
Proof. reflexivity. Qed.
Lemma sink_S : forall f g n p,
  sink (S f) g n p = if (2 * p + 1 <? n)%nat then sink f (swap g p (child g n p)) n (child g n p) else (g, p).
Proof. reflexivity. Qed.

Lemma child_range : forall g n p, (2 * p + 1 < n)%nat ->
  (child g n p = 2 * p + 1 \/ child g n p = 2 * p + 2)%nat /\ (child g n p < n)%nat.
Proof.
  intros g n p H. unfold child. destruct (2 * p + 1 + 1 <? n)%nat eqn:E; simpl.
  - apply Nat.ltb_lt in E. destruct (negb _); lia.
  - lia.
Qed.

Lemma child_min : forall g n p c2, (2 * p + 1 < n)%nat -> (c2 < n)%nat ->
  (c2 = 2 * p + 1 \/ c2 = 2 * p + 2)%nat -> getn g (child g n p) <= getn g c2.
Proof.
  intros g n p c2 H Hc2 Hc. unfold child. replace (2 * p + 2)%nat with (2 * p + 1 + 1)%nat in Hc by lia.
  destruct (2 * p + 1 + 1 <? n)%nat eqn:Er; destruct (getn g (2 * p + 1) <? getn g (2 * p + 1 + 1)) eqn:Ez;
    cbv [andb negb];
    try apply Nat.ltb_lt in Er; try apply Nat.ltb_ge in Er; try apply Z.ltb_lt in Ez; try apply Z.ltb_ge in Ez;
    destruct Hc as [->| ->]; lia.
Qed.

Lemma siftup_go_sink : forall fuel h n pos x, (n <= length h)%nat -> (pos < length h)%nat ->
  snd (siftup_go fuel h n pos) = snd (sink fuel (upd h pos x) n pos) /\
  upd (fst (siftup_go fuel h n pos)) (snd (siftup_go fuel h n pos)) x = fst (sink fuel (upd h pos x) n pos) /\
  (snd (siftup_go fuel h n pos) < length h)%nat /\
  length (fst (siftup_go fuel h n pos)) = length h.
Proof.
  induction fuel as [|f IH]; intros h n pos x Hn Hpos.
  - simpl. auto.
  - rewrite siftup_go_S, sink_S.
    destruct (2 * pos + 1 <? n)%nat eqn:E; [|simpl; auto].
    apply Nat.ltb_lt in E.
    assert (Hc : child (upd h pos x) n pos = child h n pos).
    { unfold child. rewrite !(getn_upd_neq h pos) by lia. reflexivity. }
    rewrite Hc.
    destruct (child_range h n pos E) as [Hcr Hcn]. set (c := child h n pos) in *.
    assert (Hsw : swap (upd h pos x) pos c = upd (upd h pos (getn h c)) c x).
    { unfold swap. rewrite (getn_upd_neq h pos c) by lia. rewrite getn_upd_eq by assumption.
      rewrite upd_upd_eq. reflexivity. }
    rewrite Hsw.
    specialize (IH (upd h pos (getn h c)) n c x). rewrite length_upd in IH.
    destruct IH as (I1 & I2 & I3 & I4); try lia. auto.
Qed.

(* ---- the heap invariant ------------------------------------------------------------------------ *)
Definition heap_ok (g : list Z) : Prop :=
  forall i, (0 < i < length g)%nat -> getn g (par i) <= getn g i.

(* bubbling up from p: every edge is fine except the one into p, and the children of p are not below
   p's parent *)
Definition Inv (g : list Z) (p : nat) : Prop :=
  (forall i, (0 < i < length g)%nat -> i <> p -> getn g (par i) <= getn g i) /\
  ((0 < p)%nat -> forall c, (0 < c < length g)%nat -> par c = p -> getn g (par p) <= getn g c).

Lemma bub_length : forall fuel g p, (p < length g)%nat -> length (bub fuel g p) = length g.
Proof.
  induction fuel as [|f IH]; intros g p Hp; [reflexivity|]. rewrite bub_S.
  destruct (0 <? p)%nat eqn:E0; [|reflexivity]. apply Nat.ltb_lt in E0. pose proof (par_lt p E0).
  destruct (getn g p <? getn g (par p)); [|reflexivity].
  rewrite IH; rewrite length_swap; lia.
Qed.
Lemma bub_perm : forall fuel g p, (p < length g)%nat -> Permutation (bub fuel g p) g.
Proof.
  induction fuel as [|f IH]; intros g p Hp; [reflexivity|]. rewrite bub_S.
  destruct (0 <? p)%nat eqn:E0; [|reflexivity]. apply Nat.ltb_lt in E0. pose proof (par_lt p E0).
  destruct (getn g p <? getn g (par p)); [|reflexivity].
  rewrite IH by (rewrite length_swap; lia). apply swap_perm; lia.
Qed.

Lemma bub_heap : forall fuel g p, (p < fuel)%nat -> (p < length g)%nat -> Inv g p -> heap_ok (bub fuel g p).
Proof.
  induction fuel as [|f IH]; intros g p Hf Hp [I1 I2]; [lia|]. rewrite bub_S.
  destruct (0 <? p)%nat eqn:E0.
  - apply Nat.ltb_lt in E0. pose proof (par_lt p E0) as Hpp.
    destruct (getn g p <? getn g (par p)) eqn:Ec.
    + apply Z.ltb_lt in Ec. apply IH; try lia; [rewrite length_swap; lia|].
      split.
      * intros i Hi Hne. rewrite length_swap in Hi.
        rewrite !getn_swap by lia.
        destruct (Nat.eq_dec i p) as [->|Hip].
        { rewrite Nat.eqb_refl. rewrite (proj2 (Nat.eqb_neq p (par p))) by lia. rewrite Nat.eqb_refl. lia. }
        rewrite (proj2 (Nat.eqb_neq i (par p))) by assumption.
        rewrite (proj2 (Nat.eqb_neq i p)) by assumption.
        destruct (Nat.eq_dec (par i) (par p)) as [Hpe|Hpne].
        { rewrite Hpe, Nat.eqb_refl. specialize (I1 i Hi Hip). rewrite Hpe in I1. lia. }
        rewrite (proj2 (Nat.eqb_neq (par i) (par p))) by assumption.
        destruct (Nat.eq_dec (par i) p) as [Hpi|Hpni].
        { rewrite Hpi, Nat.eqb_refl. apply (I2 E0 i Hi Hpi). }
        rewrite (proj2 (Nat.eqb_neq (par i) p)) by assumption. apply I1; assumption.
      * intros Hpp0 c Hc Hpc. rewrite length_swap in Hc.
        assert (Hc0 : (par p < c)%nat) by (rewrite <- Hpc; apply par_lt; lia).
        pose proof (par_lt (par p) Hpp0) as Hgp.
        rewrite !getn_swap by lia.
        rewrite (proj2 (Nat.eqb_neq (par (par p)) (par p))) by lia.
        rewrite (proj2 (Nat.eqb_neq (par (par p)) p)) by lia.
        rewrite (proj2 (Nat.eqb_neq c (par p))) by lia.
        assert (Hg : getn g (par (par p)) <= getn g (par p)) by (apply I1; lia).
        destruct (Nat.eq_dec c p) as [->|Hcp].
        { rewrite Nat.eqb_refl. assumption. }
        rewrite (proj2 (Nat.eqb_neq c p)) by assumption.
        specialize (I1 c Hc Hcp). rewrite Hpc in I1. lia.
    + apply Z.ltb_ge in Ec. intros i Hi. destruct (Nat.eq_dec i p) as [->|Hip]; [lia|]. apply I1; assumption.
  - apply Nat.ltb_ge in E0. intros i Hi. apply I1; lia.
Qed.

(* sinking from p: every edge that does not touch p is fine, and the children of p are not below p's
   parent *)
Definition Q (g : list Z) (p : nat) : Prop :=
  (forall i, (0 < i < length g)%nat -> i <> p -> par i <> p -> getn g (par i) <= getn g i) /\
  ((0 < p)%nat -> forall c, (0 < c < length g)%nat -> par c = p -> getn g (par p) <= getn g c).

Lemma sink_facts : forall fuel g p, (p < length g)%nat ->
  length (fst (sink fuel g (length g) p)) = length g /\
  (snd (sink fuel g (length g) p) < length g)%nat /\
  Permutation (fst (sink fuel g (length g) p)) g.
Proof.
  induction fuel as [|f IH]; intros g p Hp; [simpl; auto|]. rewrite sink_S.
  destruct (2 * p + 1 <? length g)%nat eqn:E; [|simpl; auto].
  apply Nat.ltb_lt in E. destruct (child_range g (length g) p E) as [Hcr Hcn].
  set (c := child g (length g) p) in *.
  specialize (IH (swap g p c) c). rewrite length_swap in IH. destruct (IH Hcn) as (I1 & I2 & I3).
  repeat split; auto. rewrite I3. apply swap_perm; lia.
Qed.

Lemma sink_heap : forall fuel g p, (length g <= fuel + p)%nat -> (p < length g)%nat -> Q g p ->
  Inv (fst (sink fuel g (length g) p)) (snd (sink fuel g (length g) p)).
Proof.
  induction fuel as [|f IH]; intros g p Hf Hp [Q1 Q2]; [simpl in *; lia|]. rewrite sink_S.
  destruct (2 * p + 1 <? length g)%nat eqn:E.
  - apply Nat.ltb_lt in E. destruct (child_range g (length g) p E) as [Hcr Hcn].
    set (c := child g (length g) p) in *.
    specialize (IH (swap g p c) c). rewrite length_swap in IH. apply IH; try lia.
    assert (Hparc : par c = p) by (unfold par; lia).
    (* the child that was chosen is not above its sibling *)
    assert (Hsib : forall c2, (0 < c2 < length g)%nat -> par c2 = p -> getn g c <= getn g c2).
    { intros c2 Hc2 Hp2. apply child_min; try lia.
      destruct (par_cases c2 (proj1 Hc2)); lia. }
    split.
    + intros i Hi Hic Hpic. rewrite length_swap in Hi. rewrite !getn_swap by lia.
      rewrite (proj2 (Nat.eqb_neq i c)) by assumption.
      rewrite (proj2 (Nat.eqb_neq (par i) c)) by assumption.
      destruct (Nat.eq_dec i p) as [->|Hip].
      { rewrite Nat.eqb_refl. pose proof (par_lt p (proj1 Hi)).
        rewrite (proj2 (Nat.eqb_neq (par p) p)) by lia. apply Q2; lia. }
      rewrite (proj2 (Nat.eqb_neq i p)) by assumption.
      destruct (Nat.eq_dec (par i) p) as [Hpi|Hpni].
      { rewrite Hpi, Nat.eqb_refl. apply Hsib; assumption. }
      rewrite (proj2 (Nat.eqb_neq (par i) p)) by assumption. apply Q1; assumption.
    + intros Hc0 d Hd Hpd. rewrite length_swap in Hd. rewrite !getn_swap by lia.
      pose proof (par_lt d (proj1 Hd)) as Hdl.
      rewrite Hparc. rewrite (proj2 (Nat.eqb_neq p c)) by lia. rewrite Nat.eqb_refl.
      rewrite (proj2 (Nat.eqb_neq d c)) by lia. rewrite (proj2 (Nat.eqb_neq d p)) by lia.
      specialize (Q1 d Hd). rewrite Hpd in Q1. apply Q1; lia.
  - apply Nat.ltb_ge in E. simpl. split.
    + intros i Hi Hip. apply Q1; try assumption. intro Hpi.
      destruct (par_cases i (proj1 Hi)); lia.
    + intros Hp0 c Hc Hpc. apply Q2; assumption.
Qed.

(* ---- heappush / heappop ------------------------------------------------------------------------- *)
Lemma root_min : forall g, heap_ok g -> forall i, (i < length g)%nat -> getn g 0 <= getn g i.
Proof.
  intros g Hg i. induction i as [i IH] using lt_wf_ind. intros Hi.
  destruct (Nat.eq_dec i 0) as [->|Hne]; [lia|].
  assert (H0 : (0 < i)%nat) by lia. pose proof (par_lt i H0) as Hp.
  specialize (IH (par i) Hp). specialize (Hg i). lia.
Qed.

Lemma getn_app1 : forall (a b : list Z) i, (i < length a)%nat -> getn (a ++ b) i = getn a i.
Proof. intros. unfold getn. apply app_nth1. assumption. Qed.

Lemma heap_push_bub : forall h z, heap_push h z = bub (S (length h)) (h ++ [z]) (length h).
Proof.
  intros h z. unfold heap_push, siftdown. rewrite app_length. simpl length.
  replace (length h + 1 - 1)%nat with (length h) by lia.
  rewrite siftdown_go_bub by (rewrite app_length; simpl; lia).
  rewrite upd_same. reflexivity.
Qed.

Lemma heap_push_ok : forall h z, heap_ok h ->
  heap_ok (heap_push h z) /\ Permutation (heap_push h z) (z :: h).
Proof.
  intros h z Hh. rewrite heap_push_bub.
  assert (Hlen : length (h ++ [z]) = S (length h)) by (rewrite app_length; simpl; lia).
  split.
  - apply bub_heap; try lia. split.
    + intros i Hi Hne. rewrite Hlen in Hi. pose proof (par_lt i (proj1 Hi)).
      rewrite !getn_app1 by lia. apply Hh. lia.
    + intros Hp c Hc Hpc. rewrite Hlen in Hc. pose proof (par_lt c (proj1 Hc)). lia.
  - rewrite bub_perm by lia. symmetry. apply Permutation_cons_append.
Qed.

Lemma siftup_root : forall g, g <> [] ->
  siftup g 0 = bub (S (snd (sink (length g) g (length g) 0))) (fst (sink (length g) g (length g) 0))
                   (snd (sink (length g) g (length g) 0)).
Proof.
  intros g Hg. unfold siftup.
  assert (H0 : (0 < length g)%nat) by (destruct g; [congruence|simpl; lia]).
  destruct (siftup_go_sink (length g) g (length g) 0 (getn g 0)) as (S1 & S2 & S3 & S4); try lia.
  rewrite upd_same in S1, S2.
  destruct (siftup_go (length g) g (length g) 0) as [h1 p]. simpl in S1, S2, S3, S4.
  unfold siftdown. rewrite S2. rewrite <- S1.
  destruct (sink_facts (length g) g 0 H0) as (F1 & F2 & F3). rewrite <- S1 in F2.
  rewrite siftdown_go_bub by lia. rewrite upd_same. reflexivity.
Qed.

Lemma siftup_ok : forall x t top, heap_ok (top :: t) ->
  heap_ok (siftup (x :: t) 0) /\ Permutation (siftup (x :: t) 0) (x :: t).
Proof.
  intros x t top Hh. rewrite siftup_root by discriminate. set (g := x :: t).
  assert (H0 : (0 < length g)%nat) by (simpl; lia).
  destruct (sink_facts (length g) g 0 H0) as (F1 & F2 & F3).
  assert (HQ : Q g 0).
  { split; [|lia]. intros i Hi Hi0 Hpi. specialize (Hh i Hi).
    unfold getn in *. destruct i as [|i]; [lia|]. destruct (par (S i)) as [|k] eqn:Ek; [congruence|].
    simpl in *. assumption. }
  pose proof (sink_heap (length g) g 0 ltac:(lia) H0 HQ) as HI.
  split.
  - apply bub_heap; try lia. assumption.
  - rewrite bub_perm by lia. assumption.
Qed.

Lemma heap_pop_ok : forall h, h <> [] -> heap_ok h ->
  (forall y, In y h -> fst (heap_pop h) <= y) /\
  Permutation h (fst (heap_pop h) :: snd (heap_pop h)) /\
  heap_ok (snd (heap_pop h)).
Proof.
  intros h Hne Hh. unfold heap_pop.
  pose proof (app_removelast_last 0 Hne) as Hsplit.
  set (h' := removelast h) in *. set (lastelt := last h 0) in *.
  assert (Hh' : heap_ok h').
  { intros i Hi. specialize (Hh i). rewrite Hsplit in Hh. rewrite app_length in Hh. simpl in Hh.
    pose proof (par_lt i (proj1 Hi)). rewrite !getn_app1 in Hh by lia. apply Hh. lia. }
  destruct h' as [|top t] eqn:Eh'.
  - simpl. simpl in Hsplit. rewrite Hsplit. repeat split.
    + intros y [<-|[]]. lia.
    + reflexivity.
    + intros i Hi. simpl in Hi. lia.
  - simpl fst. simpl snd. change (upd (top :: t) 0 lastelt) with (lastelt :: t).
    destruct (siftup_ok lastelt t top Hh') as [Hok Hperm]. repeat split.
    + intros y Hy. destruct (In_nth h y 0 Hy) as (i & Hi & Hnth).
      pose proof (root_min h Hh i Hi) as Hm. unfold getn in Hm. rewrite Hnth in Hm.
      rewrite Hsplit in Hm. simpl in Hm. assumption.
    + rewrite Hsplit. rewrite Hperm. simpl. constructor.
      symmetry. apply Permutation_cons_append.
    + assumption.
Qed.

(* ---- sorted lists (the multiset spec) ---------------------------------------------------------------- *)
Lemma insert_sorted_perm : forall z q, Permutation (insert_sorted z q) (z :: q).
Proof.
  induction q as [|y t IH]; simpl; [reflexivity|].
  destruct (z <=? y); [reflexivity|]. rewrite IH. apply perm_swap.
Qed.
Lemma insert_sorted_sorted : forall z q, StronglySorted Z.le q -> StronglySorted Z.le (insert_sorted z q).
Proof.
  induction q as [|y t IH]; intros Hs; simpl.
  - constructor; constructor.
  - inversion Hs as [|? ? Hst Hall]; subst. destruct (z <=? y) eqn:E.
    + apply Z.leb_le in E. constructor; [assumption|]. constructor; [assumption|].
      eapply Forall_impl; [|exact Hall]. intros; lia.
    + apply Z.leb_gt in E. constructor; [apply IH; assumption|].
      rewrite insert_sorted_perm. constructor; [lia|assumption].
Qed.

(* ================================ ReplPriorityQueue ================================================ *)
Definition R_pq (mx : Z) (s : ReplPriorityQueue_state) (t : Z * list Z) : Prop :=
  fst t = mx /\
  exists h, s = ReplPriorityQueue_mk (VInt mx) (VList h) /\ heap_ok h /\ Permutation h (snd t) /\
            StronglySorted Z.le (snd t).

Lemma zlen_perm : forall a b : list Z, Permutation a b -> zlen a = zlen b.
Proof. intros. unfold zlen. f_equal. apply Permutation_length. assumption. Qed.

Lemma heap_ok_nil : heap_ok [].
Proof. intros i Hi. simpl in Hi. lia. Qed.

(* characterisation of the two replicated methods *)
Lemma ReplPriorityQueue_put_char : forall mx h orc z, 0 <= mx ->
  ReplPriorityQueue_put orc [VInt z] (ReplPriorityQueue_mk (VInt mx) (VList h)) =
  if bounded_full mx (zlen h) then Ok (VBool false) (ReplPriorityQueue_mk (VInt mx) (VList h))
  else Ok (VBool true) (ReplPriorityQueue_mk (VInt mx) (VList (heap_push h z))).
Proof.
  intros mx h orc z Hmx. unfold_gen. simpl. bool_cases mx h; crush; contra_bool.
Qed.
Lemma ReplPriorityQueue_get_char : forall mx h orc dflt,
  ReplPriorityQueue_get_body orc dflt (ReplPriorityQueue_mk (VInt mx) (VList h)) =
  match h with
  | [] => Ok dflt (ReplPriorityQueue_mk (VInt mx) (VList h))
  | _ => Ok (VInt (fst (heap_pop h))) (ReplPriorityQueue_mk (VInt mx) (VList (snd (heap_pop h))))
  end.
Proof.
  intros mx h orc dflt. unfold_gen. simpl. destruct h as [|a h0]; [reflexivity|].
  simpl. destruct (heap_pop (a :: h0)). reflexivity.
Qed.

Lemma pq_get_sim : forall mx h q dflt, heap_ok h -> Permutation h q -> StronglySorted Z.le q ->
  res_rel (R_pq mx)
    (match h with
     | [] => Ok dflt (ReplPriorityQueue_mk (VInt mx) (VList h))
     | _ => Ok (VInt (fst (heap_pop h))) (ReplPriorityQueue_mk (VInt mx) (VList (snd (heap_pop h))))
     end)
    (match q with [] => Ok dflt (mx, q) | x :: t => Ok (VInt x) (mx, t) end).
Proof.
  intros mx h q dflt Hh Hp Hs. destruct h as [|a h0].
  - apply Permutation_nil in Hp. subst q. simpl. split; [reflexivity|]. split; [reflexivity|].
    exists []. auto.
  - destruct q as [|y t]; [symmetry in Hp; apply Permutation_nil in Hp; discriminate|].
    destruct (heap_pop_ok (a :: h0) ltac:(discriminate) Hh) as (Hmin & Hperm & Hok).
    set (x := fst (heap_pop (a :: h0))) in *. set (r := snd (heap_pop (a :: h0))) in *.
    inversion Hs as [|? ? Hst Hall]; subst.
    assert (Hxy : x = y).
    { assert (Hyin : In y (a :: h0)) by (apply (Permutation_in y (Permutation_sym Hp)); left; reflexivity).
      assert (Hxin : In x (y :: t)).
      { apply (Permutation_in x Hp). apply (Permutation_in x (Permutation_sym Hperm)). left. reflexivity. }
      pose proof (Hmin y Hyin) as H1.
      destruct Hxin as [Heq|Hin]; [auto|].
      rewrite Forall_forall in Hall. specialize (Hall x Hin). lia. }
    simpl. split; [congruence|]. split; [reflexivity|]. exists r. repeat split; auto.
    simpl. apply Permutation_cons_inv with (a := y).
    transitivity (a :: h0); [symmetry; rewrite <- Hxy; exact Hperm | exact Hp].
Qed.

Lemma ReplPriorityQueue_step : forall mx, 0 <= mx ->
  step_sim ReplPriorityQueue_call spec_pqueue (R_pq mx).
Proof.
  intros mx Hmx m orc args s [mx' q] [Hfst (h & -> & Hh & Hp & Hs)]. simpl in Hfst, Hp, Hs. subst mx'.
  pose proof (zlen_perm h q Hp) as Hlen.
  assert (HR : R_pq mx (ReplPriorityQueue_mk (VInt mx) (VList h)) (mx, q)).
  { split; [reflexivity|]. exists h. auto. }
  destruct m; destruct args as [|a1 [|a2 r]];
    try (unfold_gen; simpl; rewrite <- ?Hlen; split; [reflexivity | exact HR]).
  - (* full *) unfold_gen. simpl. rewrite <- Hlen. bool_cases mx h; split; auto.
  - (* put *)
    destruct a1 as [| |z| | | |];
      try solve [unfold_gen; simpl; rewrite <- Hlen; bool_cases mx h; crush; try contra_bool; split; auto].
    change (ReplPriorityQueue_call ReplPriorityQueue_m_put orc [VInt z]) with (ReplPriorityQueue_put orc [VInt z]).
    rewrite ReplPriorityQueue_put_char by assumption. simpl. rewrite <- Hlen.
    destruct (bounded_full mx (zlen h)); simpl; [split; auto|].
    split; [reflexivity|]. split; [reflexivity|]. destruct (heap_push_ok h z Hh) as [Hok Hperm].
    exists (heap_push h z). repeat split; auto.
    + simpl. rewrite Hperm, insert_sorted_perm. constructor. assumption.
    + simpl. apply insert_sorted_sorted. assumption.
  - (* get() *)
    change (ReplPriorityQueue_call ReplPriorityQueue_m_get orc []) with (ReplPriorityQueue_get_body orc VNone).
    rewrite ReplPriorityQueue_get_char. simpl spec_pqueue. apply pq_get_sim; assumption.
  - (* get(default) *)
    change (ReplPriorityQueue_call ReplPriorityQueue_m_get orc [a1]) with (ReplPriorityQueue_get_body orc a1).
    rewrite ReplPriorityQueue_get_char. simpl spec_pqueue. apply pq_get_sim; assumption.
Qed.

(* results and error kinds are those of the bounded multiset; the contents are a heap-ordered
   permutation of the multiset's sorted list *)
Definition pq_same_contents (s : ReplPriorityQueue_state) (t : Z * list Z) : Prop :=
  exists h, b_fields B_ReplPriorityQueue s = [VInt (fst t); VList h] /\ Permutation h (snd t) /\
            StronglySorted Z.le (snd t) /\ heap_ok h.

Lemma ReplPriorityQueue_refines :
  b_init B_ReplPriorityQueue [] = b_init B_ReplPriorityQueue [VInt 0] /\
  forall mx, 0 <= mx -> forall ops : list (op B_ReplPriorityQueue),
  match b_init B_ReplPriorityQueue [VInt mx] with
  | None => False
  | Some s0 =>
    fst (run B_ReplPriorityQueue ops s0) = fst (run_gen spec_pqueue ops (mx, [])) /\
    pq_same_contents (snd (run B_ReplPriorityQueue ops s0)) (snd (run_gen spec_pqueue ops (mx, [])))
  end.
Proof.
  split; [reflexivity|]. intros mx Hmx ops.
  change (b_init B_ReplPriorityQueue [VInt mx]) with (Some (ReplPriorityQueue_init_body (VInt mx))). cbv iota beta.
  unfold run. change (b_call B_ReplPriorityQueue) with ReplPriorityQueue_call.
  destruct (run_sim ReplPriorityQueue_call spec_pqueue (R_pq mx) (ReplPriorityQueue_step mx Hmx) ops
                    (ReplPriorityQueue_init_body (VInt mx)) (mx, [])) as [H1 H2].
  - split; [reflexivity|]. exists []. repeat split; auto using heap_ok_nil. constructor.
  - split; [assumption|]. destruct H2 as [Hf (h & Hs & Hh & Hp & Hso)].
    unfold pq_same_contents. exists h. split; [|auto].
    transitivity (b_fields B_ReplPriorityQueue (ReplPriorityQueue_mk (VInt mx) (VList h))); [f_equal; exact Hs|].
    simpl. rewrite Hf. reflexivity.
Qed.

Example ReplPriorityQueue_refines_instance :
  fst (run B_ReplPriorityQueue
           [(ReplPriorityQueue_m_put, [VInt 5], 0); (ReplPriorityQueue_m_put, [VInt 1], 0);
            (ReplPriorityQueue_m_put, [VInt 3], 0); (ReplPriorityQueue_m_put, [VInt 0], 0);
            (ReplPriorityQueue_m_get, [], 0); (ReplPriorityQueue_m_get, [], 0); (ReplPriorityQueue_m_get, [], 0);
            (ReplPriorityQueue_m_get, [VInt 7], 0)]
           (ReplPriorityQueue_init_body (VInt 3)))
  = [ORes (VBool true); ORes (VBool true); ORes (VBool true); ORes (VBool false);
     ORes (VInt 1); ORes (VInt 3); ORes (VInt 5); ORes (VInt 7)].
Proof. vm_compute. reflexivity. Qed.

(* the hypotheses of the heapq theorems are satisfiable by a non-trivial heap *)
Example heap_ok_instance :
  heap_ok [1; 3; 2; 7; 4] /\ [1; 3; 2; 7; 4] <> [] /\ heap_pop [1; 3; 2; 7; 4] = (1, [2; 3; 4; 7]) /\
  heap_push [1; 3; 2; 7; 4] 0 = [0; 3; 1; 7; 4; 2].
Proof.
  split; [|split; [discriminate|split; vm_compute; reflexivity]].
  intros i Hi. simpl in Hi.
  assert (Hc : i = 1%nat \/ i = 2%nat \/ i = 3%nat \/ i = 4%nat) by lia.
  destruct Hc as [->|[->|[->| ->]]]; vm_compute; discriminate.
Qed.
