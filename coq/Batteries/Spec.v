(* Reference specifications: what the Python container that each battery mimics does for each
   public operation of the battery (int; list; dict; set; FIFO queue bounded by maxsize, 0 =
   unbounded; bounded priority queue as a MULTISET kept as a sorted list, get = the minimum).
   Written by hand over the typed contents, using the builtin semantics of PySpec.v; indexed by
   the method enumeration generated into Gen.v, so an added / removed / renamed public method
   makes this file fail to compile (fail closed).  Definitions only.

   Validated against the real CPython builtins on every run (props/c15.py part b). *)
From Coq Require Import ZArith String List Bool.
From PSO Require Import Batteries.PySpec Batteries.Gen.
Import ListNotations.
Open Scope Z_scope.

(* ---- int ---------------------------------------------------------------------------------- *)
Definition lift_val (p : pres) (cur : pyval) : res pyval pyval :=
  match p with POk v => Ok v v | PErr e => Raise e cur end.

Definition spec_counter (m : ReplCounter_meth) (orc : Z) (args : list pyval) (c : pyval) : res pyval pyval :=
  match m, args with
  | ReplCounter_m_set, [v] => Ok v v
  | ReplCounter_m_add, [v] => lift_val (py_add c v) c
  | ReplCounter_m_sub, [v] => lift_val (py_sub c v) c
  | ReplCounter_m_inc, [] => lift_val (py_add c (VInt 1)) c
  | ReplCounter_m_get, [] => Ok c c
  | _, _ => Raise TypeError c
  end.
Definition spec_counter_init : pyval := VInt 0.
Definition spec_counter_fields (c : pyval) : list pyval := [c].

(* ---- list --------------------------------------------------------------------------------- *)
Definition spec_list (m : ReplList_meth) (orc : Z) (args : list pyval) (l : list Z) : res (list Z) pyval :=
  match m, args with
  | ReplList_m_reset, [VList n] => Ok VNone n
  | ReplList_m_reset, [_] => Raise AssertionError l
  | ReplList_m_set, [p; x] => list_setitem l p x
  | ReplList_m___setitem__, [p; x] => list_setitem l p x
  | ReplList_m_append, [x] => list_append l x
  | ReplList_m_extend, [o] => list_extend l o
  | ReplList_m_insert, [p; x] => list_insert l p x
  | ReplList_m_remove, [x] => list_remove l x
  | ReplList_m_pop, [] => list_pop_last l
  | ReplList_m_pop, [VNone] => list_pop_last l          (* position=None means "default" *)
  | ReplList_m_pop, [p] => list_pop_at l p
  | ReplList_m_sort, [] => list_sort l (VBool false)
  | ReplList_m_sort, [r] => list_sort l r
  | ReplList_m_index, [x] => list_index l x
  | ReplList_m_count, [x] => list_count l x
  | ReplList_m_get, [p] => list_getitem l p
  | ReplList_m___getitem__, [p] => list_getitem l p
  | ReplList_m___len__, [] => Ok (VInt (zlen l)) l
  | ReplList_m_rawData, [] => Ok (VList l) l
  | _, _ => Raise TypeError l
  end.
Definition spec_list_fields (l : list Z) : list pyval := [VList l].

(* ---- dict --------------------------------------------------------------------------------- *)
Definition spec_dict (m : ReplDict_meth) (orc : Z) (args : list pyval) (d : list (Z * Z)) : res (list (Z * Z)) pyval :=
  match m, args with
  | ReplDict_m_reset, [VDict n] => Ok VNone n
  | ReplDict_m_reset, [_] => Raise AssertionError d
  | ReplDict_m___setitem__, [k; v] => dict_setitem d k v
  | ReplDict_m_set, [k; v] => dict_setitem d k v
  | ReplDict_m_setdefault, [k; v] => dict_setdefault d k v
  | ReplDict_m_update, [o] => dict_update d o
  | ReplDict_m_pop, [k] => dict_pop d k (Some VNone)     (* documented: returns default, never raises KeyError *)
  | ReplDict_m_pop, [k; v] => dict_pop d k (Some v)
  | ReplDict_m_clear, [] => Ok VNone []
  | ReplDict_m___getitem__, [k] => dict_getitem d k
  | ReplDict_m_get, [k] => dict_get d k VNone
  | ReplDict_m_get, [k; v] => dict_get d k v
  | ReplDict_m___len__, [] => Ok (VInt (zlen d)) d
  | ReplDict_m___contains__, [k] => dict_contains d k
  | ReplDict_m_keys, [] => Ok (VList (map fst d)) d
  | ReplDict_m_values, [] => Ok (VList (map snd d)) d
  | ReplDict_m_items, [] => Ok (VDict d) d
  | ReplDict_m_rawData, [] => Ok (VDict d) d
  | _, _ => Raise TypeError d
  end.
Definition spec_dict_fields (d : list (Z * Z)) : list pyval := [VDict d].

(* ---- set ---------------------------------------------------------------------------------- *)
Definition spec_set (m : ReplSet_meth) (orc : Z) (args : list pyval) (s : list Z) : res (list Z) pyval :=
  match m, args with
  | ReplSet_m_reset, [VSet n] => Ok VNone n
  | ReplSet_m_reset, [_] => Raise AssertionError s
  | ReplSet_m_add, [x] => set_add s x
  | ReplSet_m_remove, [x] => set_remove s x
  | ReplSet_m_discard, [x] => set_discard s x
  | ReplSet_m_pop, [] => set_pop s orc
  | ReplSet_m_clear, [] => Ok VNone []
  | ReplSet_m_update, [o] => set_update s o
  | ReplSet_m_rawData, [] => Ok (VSet s) s
  | ReplSet_m___len__, [] => Ok (VInt (zlen s)) s
  | ReplSet_m___contains__, [x] => set_contains s x
  | _, _ => Raise TypeError s
  end.
Definition spec_set_fields (s : list Z) : list pyval := [VSet s].

(* ---- FIFO queue bounded by maxsize (0 = unbounded) ------------------------------------------ *)
Definition bounded_full (maxsize : Z) (n : Z) : bool := (0 <? maxsize) && (maxsize <=? n).

Definition spec_queue (m : ReplQueue_meth) (orc : Z) (args : list pyval) (st : Z * list Z) : res (Z * list Z) pyval :=
  let '(maxsize, q) := st in
  match m, args with
  | ReplQueue_m_qsize, [] => Ok (VInt (zlen q)) st
  | ReplQueue_m___len__, [] => Ok (VInt (zlen q)) st
  | ReplQueue_m_empty, [] => Ok (VBool (zlen q =? 0)) st
  | ReplQueue_m_full, [] => Ok (VBool (bounded_full maxsize (zlen q))) st
  | ReplQueue_m_put, [x] =>
    if bounded_full maxsize (zlen q) then Ok (VBool false) st
    else match x with
         | VInt z => Ok (VBool true) (maxsize, q ++ [z])
         | _ => Raise OutOfModel st
         end
  | ReplQueue_m_get, [] => match q with [] => Ok VNone st | x :: t => Ok (VInt x) (maxsize, t) end
  | ReplQueue_m_get, [dflt] => match q with [] => Ok dflt st | x :: t => Ok (VInt x) (maxsize, t) end
  | _, _ => Raise TypeError st
  end.
Definition spec_queue_fields (st : Z * list Z) : list pyval := [VInt (fst st); VDeque (snd st)].

(* ---- bounded priority queue: a multiset (sorted list), get removes a minimum ------------------ *)
Definition spec_pqueue (m : ReplPriorityQueue_meth) (orc : Z) (args : list pyval) (st : Z * list Z)
  : res (Z * list Z) pyval :=
  let '(maxsize, q) := st in
  match m, args with
  | ReplPriorityQueue_m_qsize, [] => Ok (VInt (zlen q)) st
  | ReplPriorityQueue_m___len__, [] => Ok (VInt (zlen q)) st
  | ReplPriorityQueue_m_empty, [] => Ok (VBool (zlen q =? 0)) st
  | ReplPriorityQueue_m_full, [] => Ok (VBool (bounded_full maxsize (zlen q))) st
  | ReplPriorityQueue_m_put, [x] =>
    if bounded_full maxsize (zlen q) then Ok (VBool false) st
    else match x with
         | VInt z => Ok (VBool true) (maxsize, insert_sorted z q)
         | _ => Raise OutOfModel st
         end
  | ReplPriorityQueue_m_get, [] => match q with [] => Ok VNone st | x :: t => Ok (VInt x) (maxsize, t) end
  | ReplPriorityQueue_m_get, [dflt] => match q with [] => Ok dflt st | x :: t => Ok (VInt x) (maxsize, t) end
  | _, _ => Raise TypeError st
  end.
(* observed contents of a priority queue = its items in sorted order *)
Definition spec_pqueue_fields (st : Z * list Z) : list pyval := [VInt (fst st); VList (snd st)].

(* ---- correspondence check of the specs against the CPython builtins --------------------------- *)
Definition check_spec {Mth S : Type} (call : Mth -> Z -> list pyval -> M S pyval) (fields : S -> list pyval)
           (s0 : S) (steps : list (gop Mth * obs * list pyval)) : option N :=
  check_steps_gen call fields 1 s0 steps.
