(* Hand-written semantics of the Python values and builtin container operations that
   pysyncobj/batteries.py calls (ReplCounter, ReplList, ReplDict, ReplSet, ReplQueue,
   ReplPriorityQueue).  Definitions only (no proofs) so the model still runs when a
   proof breaks.  Everything here is an ORACLE about CPython: it is validated by
   differential testing against the real builtins on every run (props/c15.py, part b),
   never assumed by an axiom.

   Universe.  Container elements, dict keys and dict values are Python ints (Z).  A value
   is None, a bool, an int, or a flat container of ints.  Whenever an operation would have
   to store a non-int into a container (or use a bool as key/element, where True == 1
   would need a second notion of equality) the model answers [OutOfModel]; the harness
   never generates such operations and the theorems treat OutOfModel like any other
   outcome (both sides agree on it).  Not modelled: aliasing of the argument of reset()
   / the result of rawData(), ints beyond the machine index range (OverflowError),
   user-defined element types, tuples as priority-queue items. *)
From Coq Require Import ZArith String List Bool.
Import ListNotations.
Open Scope Z_scope.

Inductive pyval :=
| VNone
| VBool (b : bool)
| VInt (z : Z)
| VList (l : list Z)            (* list *)
| VDeque (l : list Z)           (* collections.deque, left end first *)
| VDict (d : list (Z * Z))      (* dict, in insertion order, keys distinct *)
| VSet (s : list Z).            (* set, canonical form: strictly increasing *)

Inductive err := TypeError | IndexError | ValueError | KeyError | AssertionError | AttributeError | OutOfModel.

(* outcome of running something against a mutable state S *)
Inductive res (S A : Type) :=
| Ok (a : A) (s : S)
| Raise (e : err) (s : S).
Arguments Ok {S A} a s.
Arguments Raise {S A} e s.

(* outcome of a pure operation *)
Inductive pres := POk (v : pyval) | PErr (e : err).

(* ---- equality on values (for the correspondence check) ------------------------------- *)
Fixpoint zlist_eqb (a b : list Z) : bool :=
  match a, b with
  | [], [] => true
  | x :: a', y :: b' => (x =? y) && zlist_eqb a' b'
  | _, _ => false
  end.
Fixpoint zzlist_eqb (a b : list (Z * Z)) : bool :=
  match a, b with
  | [], [] => true
  | (x, u) :: a', (y, v) :: b' => (x =? y) && (u =? v) && zzlist_eqb a' b'
  | _, _ => false
  end.
Definition pyval_eqb (a b : pyval) : bool :=
  match a, b with
  | VNone, VNone => true
  | VBool x, VBool y => Bool.eqb x y
  | VInt x, VInt y => x =? y
  | VList x, VList y => zlist_eqb x y
  | VDeque x, VDeque y => zlist_eqb x y
  | VDict x, VDict y => zzlist_eqb x y
  | VSet x, VSet y => zlist_eqb x y
  | _, _ => false
  end.
Fixpoint pyvals_eqb (a b : list pyval) : bool :=
  match a, b with
  | [], [] => true
  | x :: a', y :: b' => pyval_eqb x y && pyvals_eqb a' b'
  | _, _ => false
  end.
Definition err_eqb (a b : err) : bool :=
  match a, b with
  | TypeError, TypeError | IndexError, IndexError | ValueError, ValueError | KeyError, KeyError
  | AssertionError, AssertionError | AttributeError, AttributeError | OutOfModel, OutOfModel => true
  | _, _ => false
  end.

(* ---- scalars ---------------------------------------------------------------------------- *)
Definition zlen {A} (l : list A) : Z := Z.of_nat (length l).

Definition py_truth (v : pyval) : bool :=
  match v with
  | VNone => false
  | VBool b => b
  | VInt z => negb (z =? 0)
  | VList l | VDeque l | VSet l => negb (zlen l =? 0)
  | VDict d => negb (zlen d =? 0)
  end.

Definition py_is_none (v : pyval) : bool := match v with VNone => true | _ => false end.

(* int(x) for x an int or a bool; None for everything else *)
Definition as_num (v : pyval) : option Z :=
  match v with VInt z => Some z | VBool b => Some (if b then 1 else 0) | _ => None end.
Definition is_container (v : pyval) : bool :=
  match v with VList _ | VDeque _ | VDict _ | VSet _ => true | _ => false end.

(* a binary operator that is only modelled on numbers: number op number is computed; None or a
   number against anything else is a TypeError in Python for + - < <= > >=; container against
   container (list + list, set - set, list < list ...) is outside the model *)
Definition num_binop (f : Z -> Z -> pyval) (a b : pyval) : pres :=
  match as_num a, as_num b with
  | Some x, Some y => POk (f x y)
  | _, _ => if is_container a && is_container b then PErr OutOfModel else PErr TypeError
  end.
Definition py_add := num_binop (fun x y => VInt (x + y)).
Definition py_sub := num_binop (fun x y => VInt (x - y)).
Definition py_gt := num_binop (fun x y => VBool (x >? y)).
Definition py_ge := num_binop (fun x y => VBool (x >=? y)).
Definition py_lt := num_binop (fun x y => VBool (x <? y)).
Definition py_le := num_binop (fun x y => VBool (x <=? y)).
(* == never raises; only the numeric case (len(x) == 0) is modelled *)
Definition py_eq (a b : pyval) : pres :=
  match as_num a, as_num b with
  | Some x, Some y => POk (VBool (x =? y))
  | _, _ => match a, b with
            | VNone, VNone => POk (VBool true)
            | VNone, _ | _, VNone => POk (VBool false)
            | _, _ => if is_container a && is_container b then PErr OutOfModel else POk (VBool false)
            end
  end.

Definition py_len (v : pyval) : pres :=
  match v with
  | VList l | VDeque l | VSet l => POk (VInt (zlen l))
  | VDict d => POk (VInt (zlen d))
  | _ => PErr TypeError
  end.

Inductive pytype := TList | TDict | TSet.
Definition py_isinstance (v : pyval) (t : pytype) : bool :=
  match v, t with
  | VList _, TList | VDict _, TDict | VSet _, TSet => true
  | _, _ => false
  end.

(* ---- indices ------------------------------------------------------------------------------ *)
(* list indices must be integers (bool is an int) *)
Definition as_index (v : pyval) : option Z := as_num v.

(* i or i+n, if that is inside [0, n) *)
Definition norm_index (n i : Z) : option nat :=
  let j := if i <? 0 then i + n else i in
  if (0 <=? j) && (j <? n) then Some (Z.to_nat j) else None.

(* list.insert clamps instead of raising *)
Definition clamp_index (n i : Z) : nat :=
  let j := if i <? 0 then i + n else i in
  Z.to_nat (if j <? 0 then 0 else if n <? j then n else j).

Fixpoint upd (l : list Z) (i : nat) (x : Z) : list Z :=
  match l, i with
  | [], _ => []
  | _ :: t, O => x :: t
  | a :: t, S j => a :: upd t j x
  end.
Fixpoint del_nth (l : list Z) (i : nat) : list Z :=
  match l, i with
  | [], _ => []
  | _ :: t, O => t
  | a :: t, S j => a :: del_nth t j
  end.
Definition getn (l : list Z) (i : nat) : Z := nth i l 0.

(* ---- elements and keys ---------------------------------------------------------------------- *)
(* what a value is when it is STORED as element / key / dict value *)
Inductive eclass := EInt (z : Z) | EUnhashable | EOut.
Definition as_stored (v : pyval) : eclass :=
  match v with
  | VInt z => EInt z
  | VNone | VBool _ => EOut                       (* hashable, but not an int: outside the model *)
  | _ => EUnhashable                              (* list, deque, dict, set *)
  end.
(* what a value is when it is LOOKED UP by == (list.index/count/remove): anything but an int
   or a bool simply never equals an int *)
Inductive lclass := LInt (z : Z) | LMiss | LOut.
Definition as_eq_lookup (v : pyval) : lclass :=
  match v with VInt z => LInt z | VBool _ => LOut | _ => LMiss end.
(* ... looked up by hash (dict): unhashable raises TypeError *)
Inductive hclass := HInt (z : Z) | HMiss | HUnhashable | HOut.
Definition as_dict_lookup (v : pyval) : hclass :=
  match v with
  | VInt z => HInt z
  | VNone => HMiss
  | VBool _ => HOut
  | _ => HUnhashable
  end.
(* ... looked up in a set: a set argument is converted to a frozenset (a miss), other
   unhashables raise *)
Definition as_set_lookup (v : pyval) : hclass :=
  match v with
  | VInt z => HInt z
  | VNone | VSet _ => HMiss
  | VBool _ => HOut
  | _ => HUnhashable
  end.

(* ---- list ------------------------------------------------------------------------------------- *)
Definition LR := res (list Z) pyval.

Fixpoint mem (x : Z) (l : list Z) : bool :=
  match l with [] => false | y :: t => (x =? y) || mem x t end.
Fixpoint remove_first (x : Z) (l : list Z) : list Z :=
  match l with [] => [] | y :: t => if x =? y then t else y :: remove_first x t end.
Fixpoint index_of (x : Z) (l : list Z) : option Z :=
  match l with
  | [] => None
  | y :: t => if x =? y then Some 0 else match index_of x t with Some i => Some (i + 1) | None => None end
  end.
Fixpoint count_of (x : Z) (l : list Z) : Z :=
  match l with [] => 0 | y :: t => (if x =? y then 1 else 0) + count_of x t end.
Fixpoint insert_sorted (x : Z) (l : list Z) : list Z :=
  match l with
  | [] => [x]
  | y :: t => if x <=? y then x :: l else y :: insert_sorted x t
  end.
Fixpoint sort_asc (l : list Z) : list Z :=
  match l with [] => [] | x :: t => insert_sorted x (sort_asc t) end.

Definition list_getitem (l : list Z) (pos : pyval) : LR :=
  match as_index pos with
  | None => Raise TypeError l
  | Some i => match norm_index (zlen l) i with
              | Some j => Ok (VInt (getn l j)) l
              | None => Raise IndexError l
              end
  end.
Definition list_setitem (l : list Z) (pos x : pyval) : LR :=
  match as_index pos with
  | None => Raise TypeError l
  | Some i => match norm_index (zlen l) i with
              | None => Raise IndexError l
              | Some j => match x with
                          | VInt z => Ok VNone (upd l j z)
                          | _ => Raise OutOfModel l
                          end
              end
  end.
Definition list_append (l : list Z) (x : pyval) : LR :=
  match x with VInt z => Ok VNone (l ++ [z]) | _ => Raise OutOfModel l end.
Definition list_extend (l : list Z) (other : pyval) : LR :=
  match other with
  | VList o | VDeque o => Ok VNone (l ++ o)
  | VDict d => Ok VNone (l ++ map fst d)
  | VSet [] => Ok VNone l
  | VSet _ => Raise OutOfModel l                 (* iteration order of a set *)
  | _ => Raise TypeError l                        (* not iterable *)
  end.
Definition list_insert (l : list Z) (pos x : pyval) : LR :=
  match as_index pos with
  | None => Raise TypeError l
  | Some i => match x with
              | VInt z => let j := clamp_index (zlen l) i in Ok VNone (firstn j l ++ z :: skipn j l)
              | _ => Raise OutOfModel l
              end
  end.
Definition list_remove (l : list Z) (x : pyval) : LR :=
  match as_eq_lookup x with
  | LInt z => if mem z l then Ok VNone (remove_first z l) else Raise ValueError l
  | LMiss => Raise ValueError l
  | LOut => Raise OutOfModel l
  end.
Definition list_pop_last (l : list Z) : LR :=
  match l with
  | [] => Raise IndexError l
  | _ => Ok (VInt (last l 0)) (removelast l)
  end.
Definition list_pop_at (l : list Z) (pos : pyval) : LR :=
  match as_index pos with
  | None => Raise TypeError l
  | Some i => match norm_index (zlen l) i with
              | Some j => Ok (VInt (getn l j)) (del_nth l j)
              | None => Raise IndexError l
              end
  end.
(* reverse= is taken by truth value (CPython 3.12: any object, None is false) *)
Definition list_sort (l : list Z) (reverse : pyval) : LR :=
  Ok VNone (if py_truth reverse then rev (sort_asc l) else sort_asc l).
Definition list_index (l : list Z) (x : pyval) : LR :=
  match as_eq_lookup x with
  | LInt z => match index_of z l with Some i => Ok (VInt i) l | None => Raise ValueError l end
  | LMiss => Raise ValueError l
  | LOut => Raise OutOfModel l
  end.
Definition list_count (l : list Z) (x : pyval) : LR :=
  match as_eq_lookup x with
  | LInt z => Ok (VInt (count_of z l)) l
  | LMiss => Ok (VInt 0) l
  | LOut => Raise OutOfModel l
  end.

(* ---- dict --------------------------------------------------------------------------------------- *)
Definition DR := res (list (Z * Z)) pyval.

Fixpoint dlookup (k : Z) (d : list (Z * Z)) : option Z :=
  match d with [] => None | (k', v) :: t => if k =? k' then Some v else dlookup k t end.
Fixpoint dstore (k v : Z) (d : list (Z * Z)) : list (Z * Z) :=
  match d with
  | [] => [(k, v)]
  | (k', v') :: t => if k =? k' then (k', v) :: t else (k', v') :: dstore k v t
  end.
Fixpoint dremove (k : Z) (d : list (Z * Z)) : list (Z * Z) :=
  match d with [] => [] | (k', v') :: t => if k =? k' then t else (k', v') :: dremove k t end.

Definition dict_getitem (d : list (Z * Z)) (k : pyval) : DR :=
  match as_dict_lookup k with
  | HInt z => match dlookup z d with Some v => Ok (VInt v) d | None => Raise KeyError d end
  | HMiss => Raise KeyError d
  | HUnhashable => Raise TypeError d
  | HOut => Raise OutOfModel d
  end.
Definition dict_setitem (d : list (Z * Z)) (k v : pyval) : DR :=
  match as_stored k with
  | EUnhashable => Raise TypeError d
  | EOut => Raise OutOfModel d
  | EInt z => match v with VInt w => Ok VNone (dstore z w d) | _ => Raise OutOfModel d end
  end.
Definition dict_setdefault (d : list (Z * Z)) (k default : pyval) : DR :=
  match as_stored k with
  | EUnhashable => Raise TypeError d
  | EOut => Raise OutOfModel d
  | EInt z => match dlookup z d with
              | Some v => Ok (VInt v) d
              | None => match default with
                        | VInt w => Ok default (dstore z w d)
                        | _ => Raise OutOfModel d
                        end
              end
  end.
Definition dict_update (d : list (Z * Z)) (other : pyval) : DR :=
  match other with
  | VDict o => Ok VNone (fold_left (fun acc kv => dstore (fst kv) (snd kv) acc) o d)
  | VList [] | VDeque [] | VSet [] => Ok VNone d
  | _ => Raise TypeError d      (* not iterable, or an element that is not a key/value pair *)
  end.
(* CPython's dict.pop answers "missing" on an EMPTY dict before it hashes the key, so an
   unhashable key only raises TypeError on a non-empty dict *)
Definition dict_pop (d : list (Z * Z)) (k : pyval) (default : option pyval) : DR :=
  let miss := match default with Some v => Ok v d | None => Raise KeyError d end in
  match d with
  | [] => miss
  | _ =>
    match as_dict_lookup k with
    | HInt z => match dlookup z d with Some v => Ok (VInt v) (dremove z d) | None => miss end
    | HMiss => miss
    | HUnhashable => Raise TypeError d
    | HOut => Raise OutOfModel d
    end
  end.
Definition dict_get (d : list (Z * Z)) (k default : pyval) : DR :=
  match as_dict_lookup k with
  | HInt z => match dlookup z d with Some v => Ok (VInt v) d | None => Ok default d end
  | HMiss => Ok default d
  | HUnhashable => Raise TypeError d
  | HOut => Raise OutOfModel d
  end.
Definition dict_contains (d : list (Z * Z)) (k : pyval) : DR :=
  match as_dict_lookup k with
  | HInt z => Ok (VBool (match dlookup z d with Some _ => true | None => false end)) d
  | HMiss => Ok (VBool false) d
  | HUnhashable => Raise TypeError d
  | HOut => Raise OutOfModel d
  end.

(* ---- set ----------------------------------------------------------------------------------------- *)
Definition SR := res (list Z) pyval.

Fixpoint set_insert (x : Z) (s : list Z) : list Z :=
  match s with
  | [] => [x]
  | y :: t => if x <? y then x :: s else if x =? y then s else y :: set_insert x t
  end.
Definition set_union (s : list Z) (o : list Z) : list Z := fold_left (fun acc x => set_insert x acc) o s.

Definition set_add (s : list Z) (x : pyval) : SR :=
  match as_stored x with
  | EInt z => Ok VNone (set_insert z s)
  | EUnhashable => Raise TypeError s
  | EOut => Raise OutOfModel s
  end.
Definition set_remove (s : list Z) (x : pyval) : SR :=
  match as_set_lookup x with
  | HInt z => if mem z s then Ok VNone (remove_first z s) else Raise KeyError s
  | HMiss => Raise KeyError s
  | HUnhashable => Raise TypeError s
  | HOut => Raise OutOfModel s
  end.
Definition set_discard (s : list Z) (x : pyval) : SR :=
  match as_set_lookup x with
  | HInt z => Ok VNone (remove_first z s)
  | HMiss => Ok VNone s
  | HUnhashable => Raise TypeError s
  | HOut => Raise OutOfModel s
  end.
(* set.pop(): WHICH element is removed is decided by CPython's hash table layout (it depends on
   the history of the table, not only on its contents).  It is an ORACLE input [orc]: the harness
   passes the element the implementation popped.  An oracle value that is not a member is
   outside the model. *)
Definition set_pop (s : list Z) (orc : Z) : SR :=
  match s with
  | [] => Raise KeyError s
  | _ => if mem orc s then Ok (VInt orc) (remove_first orc s) else Raise OutOfModel s
  end.
Definition set_update (s : list Z) (other : pyval) : SR :=
  match other with
  | VSet o | VList o | VDeque o => Ok VNone (set_union s o)
  | VDict d => Ok VNone (set_union s (map fst d))
  | _ => Raise TypeError s
  end.
Definition set_contains (s : list Z) (x : pyval) : SR :=
  match as_set_lookup x with
  | HInt z => Ok (VBool (mem z s)) s
  | HMiss => Ok (VBool false) s
  | HUnhashable => Raise TypeError s
  | HOut => Raise OutOfModel s
  end.

(* ---- deque ------------------------------------------------------------------------------------------ *)
Definition deque_append (q : list Z) (x : pyval) : res (list Z) pyval :=
  match x with VInt z => Ok VNone (q ++ [z]) | _ => Raise OutOfModel q end.
Definition deque_popleft (q : list Z) : res (list Z) pyval :=
  match q with [] => Raise IndexError q | x :: t => Ok (VInt x) t end.

(* ---- heapq on a list, as CPython does it (Lib/heapq.py == Modules/_heapqmodule.c) ---------------- *)
(* _siftdown(heap, startpos, pos): carry newitem towards the root *)
Fixpoint siftdown_go (fuel : nat) (h : list Z) (startpos pos : nat) (newitem : Z) : list Z :=
  match fuel with
  | O => upd h pos newitem
  | S f =>
    if (startpos <? pos)%nat then
      let pp := ((pos - 1) / 2)%nat in
      let parent := getn h pp in
      if newitem <? parent then siftdown_go f (upd h pos parent) startpos pp newitem
      else upd h pos newitem
    else upd h pos newitem
  end.
Definition siftdown (h : list Z) (startpos pos : nat) : list Z :=
  siftdown_go (S pos) h startpos pos (getn h pos).

(* the loop of _siftup(heap, pos): bubble the smaller child up until a leaf is reached;
   returns the heap and the position of the hole *)
Fixpoint siftup_go (fuel : nat) (h : list Z) (endpos pos : nat) : list Z * nat :=
  match fuel with
  | O => (h, pos)
  | S f =>
    let c := (2 * pos + 1)%nat in
    if (c <? endpos)%nat then
      let r := (c + 1)%nat in
      let c' := if (r <? endpos)%nat && negb (getn h c <? getn h r) then r else c in
      siftup_go f (upd h pos (getn h c')) endpos c'
    else (h, pos)
  end.
Definition siftup (h : list Z) (pos : nat) : list Z :=
  let newitem := getn h pos in
  let '(h', p) := siftup_go (length h) h (length h) pos in
  siftdown (upd h' p newitem) pos p.

Definition heap_push (h : list Z) (z : Z) : list Z :=
  let h' := h ++ [z] in siftdown h' 0 (length h' - 1).
(* heappop on a non-empty heap: (smallest, rest) *)
Definition heap_pop (h : list Z) : Z * list Z :=
  let lastelt := last h 0 in
  let h' := removelast h in
  match h' with
  | [] => (lastelt, [])
  | top :: _ => (top, siftup (upd h' 0 lastelt) 0)
  end.

(* heapq.heappush(heap, item) / heapq.heappop(heap) as calls on a value *)
Definition py_heappush (obj : pyval) (item : pyval) : res pyval pyval :=
  match obj with
  | VList h => match item with
               | VInt z => Ok VNone (VList (heap_push h z))
               | _ => Raise OutOfModel obj
               end
  | _ => Raise TypeError obj          (* heap argument must be a list *)
  end.
Definition py_heappop (obj : pyval) : res pyval pyval :=
  match obj with
  | VList [] => Raise IndexError obj
  | VList h => let '(x, h') := heap_pop h in Ok (VInt x) (VList h')
  | _ => Raise TypeError obj
  end.

(* ---- method calls on a value: dynamic dispatch on the runtime type ------------------------------ *)
Inductive bmeth :=
| M_append | M_extend | M_insert | M_remove | M_pop | M_sort | M_index | M_count
| M_setdefault | M_update | M_clear | M_get | M_keys | M_values | M_items
| M_add | M_discard | M_popleft.

Definition wrap {A} (inj : A -> pyval) (r : res A pyval) : res pyval pyval :=
  match r with Ok a s => Ok a (inj s) | Raise e s => Raise e (inj s) end.

(* obj.m(args..., reverse=kw) -- [kw] is only ever the reverse= keyword of sort; [orc] is the
   set.pop oracle.  A call with the wrong number of arguments is a TypeError; a method the type
   does not have is an AttributeError. *)
Definition py_method (m : bmeth) (obj : pyval) (args : list pyval) (kw : option pyval) (orc : Z)
  : res pyval pyval :=
  match obj with
  | VList l =>
    match kw, m, args with
    | None, M_append, [x] => wrap VList (list_append l x)
    | None, M_extend, [x] => wrap VList (list_extend l x)
    | None, M_insert, [p; x] => wrap VList (list_insert l p x)
    | None, M_remove, [x] => wrap VList (list_remove l x)
    | None, M_pop, [] => wrap VList (list_pop_last l)
    | None, M_pop, [p] => wrap VList (list_pop_at l p)
    | None, M_sort, [] => wrap VList (list_sort l (VBool false))
    | Some r, M_sort, [] => wrap VList (list_sort l r)
    | None, M_index, [x] => wrap VList (list_index l x)
    | None, M_count, [x] => wrap VList (list_count l x)
    | None, M_clear, [] => Ok VNone (VList [])
    | _, (M_append | M_extend | M_insert | M_remove | M_pop | M_sort | M_index | M_count | M_clear), _ =>
      Raise TypeError obj
    | _, _, _ => Raise AttributeError obj
    end
  | VDict d =>
    match kw, m, args with
    | None, M_setdefault, [k; v] => wrap VDict (dict_setdefault d k v)
    | None, M_update, [o] => wrap VDict (dict_update d o)
    | None, M_pop, [k] => wrap VDict (dict_pop d k None)
    | None, M_pop, [k; v] => wrap VDict (dict_pop d k (Some v))
    | None, M_clear, [] => Ok VNone (VDict [])
    | None, M_get, [k] => wrap VDict (dict_get d k VNone)
    | None, M_get, [k; v] => wrap VDict (dict_get d k v)
    | None, M_keys, [] => Ok (VList (map fst d)) obj
    | None, M_values, [] => Ok (VList (map snd d)) obj
    | None, M_items, [] => Ok (VDict d) obj         (* a view of the pairs: observed as the pair list *)
    | _, (M_setdefault | M_update | M_pop | M_clear | M_get | M_keys | M_values | M_items), _ =>
      Raise TypeError obj
    | _, _, _ => Raise AttributeError obj
    end
  | VSet s =>
    match kw, m, args with
    | None, M_add, [x] => wrap VSet (set_add s x)
    | None, M_remove, [x] => wrap VSet (set_remove s x)
    | None, M_discard, [x] => wrap VSet (set_discard s x)
    | None, M_pop, [] => wrap VSet (set_pop s orc)
    | None, M_clear, [] => Ok VNone (VSet [])
    | None, M_update, [o] => wrap VSet (set_update s o)
    | _, (M_add | M_remove | M_discard | M_pop | M_clear | M_update), _ => Raise TypeError obj
    | _, _, _ => Raise AttributeError obj
    end
  | VDeque q =>
    match kw, m, args with
    | None, M_append, [x] => wrap VDeque (deque_append q x)
    | None, M_popleft, [] => wrap VDeque (deque_popleft q)
    | None, M_clear, [] => Ok VNone (VDeque [])
    | _, (M_append | M_popleft | M_clear), _ => Raise TypeError obj
    | _, (M_extend | M_insert | M_remove | M_pop | M_index | M_count), _ => Raise OutOfModel obj
    | _, _, _ => Raise AttributeError obj
    end
  | _ => Raise AttributeError obj
  end.

(* obj[idx] and obj[idx] = v *)
Definition py_getitem (obj idx : pyval) : res pyval pyval :=
  match obj with
  | VList l => wrap VList (list_getitem l idx)
  | VDict d => wrap VDict (dict_getitem d idx)
  | VDeque _ => Raise OutOfModel obj
  | _ => Raise TypeError obj                  (* not subscriptable *)
  end.
Definition py_setitem (obj idx v : pyval) : res pyval pyval :=
  match obj with
  | VList l => wrap VList (list_setitem l idx v)
  | VDict d => wrap VDict (dict_setitem d idx v)
  | VDeque _ => Raise OutOfModel obj
  | _ => Raise TypeError obj
  end.
(* x in obj *)
Definition py_contains (obj x : pyval) : res pyval pyval :=
  match obj with
  | VDict d => wrap VDict (dict_contains d x)
  | VSet s => wrap VSet (set_contains s x)
  | VList _ | VDeque _ => Raise OutOfModel obj
  | _ => Raise TypeError obj                  (* not iterable *)
  end.

(* ---- the monad the generated method bodies live in ------------------------------------------------ *)
Definition M (S A : Type) := S -> res S A.
Definition ret {S A} (a : A) : M S A := fun s => Ok a s.
Definition raise {S A} (e : err) : M S A := fun s => Raise e s.
Definition bind {S A B} (m : M S A) (f : A -> M S B) : M S B :=
  fun s => match m s with Ok a s' => f a s' | Raise e s' => Raise e s' end.
Definition lift_p {S} (p : pres) : M S pyval :=
  fun s => match p with POk v => Ok v s | PErr e => Raise e s end.
Definition get_field {S} (get : S -> pyval) : M S pyval := fun s => Ok (get s) s.
Definition set_field {S} (set : pyval -> S -> S) (v : pyval) : M S pyval := fun s => Ok VNone (set v s).
(* an operation on the object held by a field; the (possibly mutated) object is stored back *)
Definition on_field {S} (get : S -> pyval) (set : pyval -> S -> S) (f : pyval -> res pyval pyval) : M S pyval :=
  fun s => match f (get s) with Ok r o => Ok r (set o s) | Raise e o => Raise e (set o s) end.
(* try: m  except: h   (a bare except catches everything) *)
Definition try_except {S A} (m h : M S A) : M S A :=
  fun s => match m s with Ok a s' => Ok a s' | Raise _ s' => h s' end.
Definition truth {S} (m : M S pyval) : M S bool := bind m (fun v => ret (py_truth v)).

Fixpoint assoc_or (k : string) (d : list (string * pyval)) (dflt : pyval) : pyval :=
  match d with
  | [] => dflt
  | (k', v) :: t => if String.eqb k k' then v else assoc_or k t dflt
  end.

(* ---- a battery = a class of batteries.py, as generated into Gen.v --------------------------------- *)
Record battery := {
  b_state : Type;
  b_meth : Type;
  b_init : list pyval -> option b_state;                 (* None: TypeError (wrong number of arguments) *)
  b_call : b_meth -> Z -> list pyval -> M b_state pyval;  (* method, set.pop oracle, positional arguments *)
  b_fields : b_state -> list pyval;                      (* the instance attributes, in __init__ order *)
  b_ser : b_state -> list (string * pyval);              (* SyncObjConsumer._serialize *)
  b_deser : list (string * pyval) -> b_state -> b_state  (* SyncObjConsumer._deserialize *)
}.

Inductive obs := ORes (v : pyval) | OErr (e : err).
Definition obs_eqb (a b : obs) : bool :=
  match a, b with
  | ORes x, ORes y => pyval_eqb x y
  | OErr x, OErr y => err_eqb x y
  | _, _ => false
  end.

Definition obs_of {S} (r : res S pyval) : obs * S :=
  match r with Ok v s => (ORes v, s) | Raise e s => (OErr e, s) end.

(* an operation: method, positional arguments, oracle input (the element set.pop removes) *)
Definition gop (Mth : Type) : Type := (Mth * list pyval * Z)%type.

(* run an operation list; observations in order, and the final state *)
Fixpoint run_gen {Mth S : Type} (call : Mth -> Z -> list pyval -> M S pyval) (ops : list (gop Mth)) (s : S)
  : list obs * S :=
  match ops with
  | [] => ([], s)
  | (m, args, orc) :: rest =>
    let '(o, s') := obs_of (call m orc args s) in
    let '(os, s'') := run_gen call rest s' in
    (o :: os, s'')
  end.

Definition op (B : battery) : Type := gop (b_meth B).
Definition run (B : battery) (ops : list (op B)) (s : b_state B) : list obs * b_state B :=
  run_gen (b_call B) ops s.

(* one replica takes a snapshot and a fresh instance loads it *)
Definition restore (B : battery) (fresh s : b_state B) : b_state B := b_deser B (b_ser B s) fresh.

(* ---- correspondence check: first step whose observation or contents differ ---------------------- *)
Fixpoint check_steps_gen {Mth S : Type} (call : Mth -> Z -> list pyval -> M S pyval) (fields : S -> list pyval)
         (i : N) (s : S) (steps : list (gop Mth * obs * list pyval)) : option N :=
  match steps with
  | [] => None
  | ((m, args, orc), eo, ef) :: rest =>
    let '(o, s') := obs_of (call m orc args s) in
    if obs_eqb o eo && pyvals_eqb (fields s') ef then check_steps_gen call fields (i + 1) s' rest else Some i
  end.
(* index 0 = the constructor (expected fields after __init__), i+1 = i-th operation *)
Definition check_case (B : battery) (init_args : list pyval) (init_fields : list pyval)
           (steps : list (op B * obs * list pyval)) : option N :=
  match b_init B init_args with
  | None => Some 0%N
  | Some s => if pyvals_eqb (b_fields B s) init_fields then check_steps_gen (b_call B) (b_fields B) 1 s steps else Some 0%N
  end.
