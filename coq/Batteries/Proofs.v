(* C15 proofs, part 1: generic simulation lemma, characterising lemmas for every generated method of
   ReplCounter / ReplList / ReplDict / ReplSet / ReplQueue, refinement of the reference specs,
   read-only-ness of the methods that are not @replicated, determinism / snapshot transparency. *)
From Coq Require Import ZArith String List Bool Lia.
From PSO Require Import Batteries.PySpec Batteries.Gen Batteries.Spec.
Import ListNotations.
Open Scope Z_scope.

#[global] Hint Unfold bind ret raise lift_p get_field set_field on_field try_except truth : pymonad.

Definition map_res {S T A} (f : S -> T) (r : res S A) : res T A :=
  match r with Ok a s => Ok a (f s) | Raise e s => Raise e (f s) end.

(* destruct the innermost scrutinee of some match in the goal *)
Ltac break_match :=
  match goal with
  | |- context [match ?x with _ => _ end] =>
    lazymatch x with
    | context [match _ with _ => _ end] => fail
    | _ => destruct x eqn:?
    end
  end.
Ltac crush := repeat (simpl in *; try reflexivity; try congruence; break_match).
Ltac contra_bool :=
  repeat match goal with
         | H : ?b = _, H' : context [?b] |- _ => rewrite H in H'
         end; simpl in *; congruence.
Ltac unfold_gen := autounfold with pygen pymonad; unfold wrap, map_res.
(* the mutators of the batteries discard the builtin's result and return None: that the builtin
   returned None as well needs the definition of the builtin *)
Ltac open_prims :=
  unfold wrap, list_setitem, list_append, list_extend, list_insert, list_remove, list_sort,
         dict_setitem, dict_update, set_add, set_remove, set_discard, set_update in *.

(* ---- generic: a step-wise simulation lifts to operation lists --------------------------------- *)
Section Sim.
  Context {Mth S T : Type}.
  Variable call : Mth -> Z -> list pyval -> M S pyval.
  Variable scall : Mth -> Z -> list pyval -> M T pyval.
  Variable R : S -> T -> Prop.

  Definition res_rel (a : res S pyval) (b : res T pyval) : Prop :=
    match a, b with
    | Ok v s, Ok w t => v = w /\ R s t
    | Raise e s, Raise f t => e = f /\ R s t
    | _, _ => False
    end.
  Definition step_sim : Prop :=
    forall m orc args s t, R s t -> res_rel (call m orc args s) (scall m orc args t).

  Lemma run_sim : step_sim -> forall ops s t, R s t ->
    fst (run_gen call ops s) = fst (run_gen scall ops t) /\
    R (snd (run_gen call ops s)) (snd (run_gen scall ops t)).
  Proof.
    intros Hstep ops. induction ops as [|[[m args] orc] rest IH]; intros s t HR.
    - simpl. auto.
    - simpl. specialize (Hstep m orc args s t HR). unfold res_rel in Hstep.
      destruct (call m orc args s) as [v s'|e s'], (scall m orc args t) as [w t'|f t']; try contradiction;
        destruct Hstep as [Heq HR']; subst; simpl;
        specialize (IH s' t' HR');
        destruct (run_gen call rest s') as [o1 s1], (run_gen scall rest t') as [o2 t1];
        simpl in *; destruct IH as [IH1 IH2]; subst; auto.
  Qed.
End Sim.

(* the functional special case: the implementation state is a function of the spec state *)
Lemma run_abs {Mth S T : Type} (call : Mth -> Z -> list pyval -> M S pyval)
      (scall : Mth -> Z -> list pyval -> M T pyval) (abs : T -> S) :
  (forall m orc args t, call m orc args (abs t) = map_res abs (scall m orc args t)) ->
  forall ops t, run_gen call ops (abs t) = (fst (run_gen scall ops t), abs (snd (run_gen scall ops t))).
Proof.
  intros Hc ops t.
  destruct (run_sim call scall (fun s t => s = abs t)) with (ops := ops) (s := abs t) (t := t) as [H1 H2]; auto.
  - intros m orc args s t' ->. rewrite Hc. unfold res_rel. destruct (scall m orc args t'); simpl; auto.
  - destruct (run_gen call ops (abs t)); simpl in *; subst; reflexivity.
Qed.

(* ================================ ReplCounter =================================================== *)
Definition abs_counter (c : pyval) : ReplCounter_state := ReplCounter_mk c.

Lemma ReplCounter_char : forall m orc args c,
  ReplCounter_call m orc args (abs_counter c) = map_res abs_counter (spec_counter m orc args c).
Proof.
  intros m orc args c. unfold abs_counter.
  destruct m; destruct args as [|a1 [|a2 r]]; unfold_gen; unfold lift_val; crush.
Qed.

Lemma ReplCounter_refines : forall ops : list (op B_ReplCounter),
  match b_init B_ReplCounter [] with
  | None => False
  | Some s0 =>
    fst (run B_ReplCounter ops s0) = fst (run_gen spec_counter ops spec_counter_init) /\
    b_fields B_ReplCounter (snd (run B_ReplCounter ops s0)) =
    spec_counter_fields (snd (run_gen spec_counter ops spec_counter_init))
  end.
Proof.
  intros ops. simpl. unfold run. simpl b_call.
  change ReplCounter_init_body with (abs_counter spec_counter_init).
  rewrite (run_abs ReplCounter_call spec_counter abs_counter ReplCounter_char). simpl. auto.
Qed.

(* ================================ ReplList ====================================================== *)
Definition abs_list (l : list Z) : ReplList_state := ReplList_mk (VList l).

Lemma ReplList_char : forall m orc args l,
  ReplList_call m orc args (abs_list l) = map_res abs_list (spec_list m orc args l).
Proof.
  intros m orc args l. unfold abs_list.
  destruct m; destruct args as [|a1 [|a2 [|a3 r]]]; unfold_gen; first [ solve [crush] | solve [simpl; open_prims; crush] ].
Qed.

(* the two characterisations the fix of D13a is about *)
Lemma ReplList_pop_default : forall orc l,
  ReplList_pop orc [] (abs_list l) = map_res abs_list (list_pop_last l).
Proof. intros. apply (ReplList_char ReplList_m_pop orc [] l). Qed.
Lemma ReplList_pop_none : forall orc l,
  ReplList_pop orc [VNone] (abs_list l) = map_res abs_list (list_pop_last l).
Proof. intros. apply (ReplList_char ReplList_m_pop orc [VNone] l). Qed.

Lemma ReplList_refines : forall ops : list (op B_ReplList),
  match b_init B_ReplList [] with
  | None => False
  | Some s0 =>
    fst (run B_ReplList ops s0) = fst (run_gen spec_list ops []) /\
    b_fields B_ReplList (snd (run B_ReplList ops s0)) = spec_list_fields (snd (run_gen spec_list ops []))
  end.
Proof.
  intros ops. simpl. unfold run. simpl b_call.
  change ReplList_init_body with (abs_list []).
  rewrite (run_abs ReplList_call spec_list abs_list ReplList_char). simpl. auto.
Qed.

(* ================================ ReplDict ====================================================== *)
Definition abs_dict (d : list (Z * Z)) : ReplDict_state := ReplDict_mk (VDict d).

Lemma ReplDict_char : forall m orc args d,
  ReplDict_call m orc args (abs_dict d) = map_res abs_dict (spec_dict m orc args d).
Proof.
  intros m orc args d. unfold abs_dict.
  destruct m; destruct args as [|a1 [|a2 [|a3 r]]]; unfold_gen; first [ solve [crush] | solve [simpl; open_prims; crush] ].
Qed.

Lemma ReplDict_refines : forall ops : list (op B_ReplDict),
  match b_init B_ReplDict [] with
  | None => False
  | Some s0 =>
    fst (run B_ReplDict ops s0) = fst (run_gen spec_dict ops []) /\
    b_fields B_ReplDict (snd (run B_ReplDict ops s0)) = spec_dict_fields (snd (run_gen spec_dict ops []))
  end.
Proof.
  intros ops. simpl. unfold run. simpl b_call.
  change ReplDict_init_body with (abs_dict []).
  rewrite (run_abs ReplDict_call spec_dict abs_dict ReplDict_char). simpl. auto.
Qed.

(* ================================ ReplSet ======================================================= *)
Definition abs_set (s : list Z) : ReplSet_state := ReplSet_mk (VSet s).

Lemma ReplSet_char : forall m orc args s,
  ReplSet_call m orc args (abs_set s) = map_res abs_set (spec_set m orc args s).
Proof.
  intros m orc args s. unfold abs_set.
  destruct m; destruct args as [|a1 [|a2 [|a3 r]]]; unfold_gen; first [ solve [crush] | solve [simpl; open_prims; crush] ].
Qed.

Lemma ReplSet_refines : forall ops : list (op B_ReplSet),
  match b_init B_ReplSet [] with
  | None => False
  | Some s0 =>
    fst (run B_ReplSet ops s0) = fst (run_gen spec_set ops []) /\
    b_fields B_ReplSet (snd (run B_ReplSet ops s0)) = spec_set_fields (snd (run_gen spec_set ops []))
  end.
Proof.
  intros ops. simpl. unfold run. simpl b_call.
  change ReplSet_init_body with (abs_set []).
  rewrite (run_abs ReplSet_call spec_set abs_set ReplSet_char). simpl. auto.
Qed.

(* ================================ ReplQueue ===================================================== *)
Definition abs_queue (t : Z * list Z) : ReplQueue_state := ReplQueue_mk (VInt (fst t)) (VDeque (snd t)).

Ltac bool_cases mx q :=
  unfold bounded_full; rewrite ?Z.gtb_ltb;
  destruct (mx =? 0) eqn:?; destruct (0 <? mx) eqn:?; try (exfalso; lia); simpl;
  unfold py_ge, num_binop; simpl; rewrite ?Z.geb_leb; destruct (mx <=? zlen q) eqn:?; simpl.

Lemma ReplQueue_char : forall mx, 0 <= mx -> forall m orc args q,
  ReplQueue_call m orc args (abs_queue (mx, q)) = map_res abs_queue (spec_queue m orc args (mx, q)).
Proof.
  intros mx Hmx m orc args q. unfold abs_queue.
  destruct m; destruct args as [|a1 [|a2 r]]; unfold_gen; simpl; try reflexivity.
  - (* full *) bool_cases mx q; crush.
  - (* put *) bool_cases mx q; unfold wrap, deque_append; crush; contra_bool.
  - (* get() *) unfold wrap, deque_popleft; crush.
  - (* get(default) *) unfold wrap, deque_popleft; crush.
Qed.

Lemma spec_queue_keeps_maxsize : forall m orc args mx q,
  fst (match spec_queue m orc args (mx, q) with Ok _ t => t | Raise _ t => t end) = mx.
Proof.
  intros. destruct m; destruct args as [|a1 [|a2 r]]; simpl; crush.
Qed.

Lemma ReplQueue_run : forall mx, 0 <= mx -> forall ops q,
  run_gen ReplQueue_call ops (abs_queue (mx, q)) =
  (fst (run_gen spec_queue ops (mx, q)), abs_queue (snd (run_gen spec_queue ops (mx, q)))).
Proof.
  intros mx Hmx ops q.
  destruct (run_sim ReplQueue_call spec_queue (fun s t => s = abs_queue t /\ fst t = mx))
    with (ops := ops) (s := abs_queue (mx, q)) (t := (mx, q)) as [H1 [H2 _]]; auto.
  - intros m orc args s [mx' q'] [-> Hfst]. simpl in Hfst. subst mx'.
    rewrite ReplQueue_char by assumption. unfold res_rel.
    pose proof (spec_queue_keeps_maxsize m orc args mx q') as Hk.
    destruct (spec_queue m orc args (mx, q')); simpl in *; auto.
  - destruct (run_gen ReplQueue_call ops (abs_queue (mx, q))); simpl in *; subst; reflexivity.
Qed.

(* maxsize = 0 (also the default) is "unbounded" *)
Lemma ReplQueue_refines :
  b_init B_ReplQueue [] = b_init B_ReplQueue [VInt 0] /\
  forall mx, 0 <= mx -> forall ops : list (op B_ReplQueue),
  match b_init B_ReplQueue [VInt mx] with
  | None => False
  | Some s0 =>
    fst (run B_ReplQueue ops s0) = fst (run_gen spec_queue ops (mx, [])) /\
    b_fields B_ReplQueue (snd (run B_ReplQueue ops s0)) = spec_queue_fields (snd (run_gen spec_queue ops (mx, [])))
  end.
Proof.
  split; [reflexivity|]. intros mx Hmx ops. simpl. unfold run. simpl b_call.
  change (ReplQueue_init_body (VInt mx)) with (abs_queue (mx, [])).
  rewrite (ReplQueue_run mx Hmx). simpl. auto.
Qed.

(* the hypothesis 0 <= maxsize is necessary: with maxsize = -1 the battery reports "not full" and
   still refuses every put, which no bounded or unbounded queue does *)
Lemma ReplQueue_negative_maxsize :
  match b_init B_ReplQueue [VInt (-1)] with
  | None => False
  | Some s0 =>
    fst (run B_ReplQueue [(ReplQueue_m_full, [], 0); (ReplQueue_m_put, [VInt 5], 0)] s0)
    = [ORes (VBool false); ORes (VBool false)]
  end.
Proof. vm_compute. reflexivity. Qed.

Example ReplQueue_refines_instance :
  fst (run_gen spec_queue [(ReplQueue_m_put, [VInt 1], 0); (ReplQueue_m_put, [VInt 2], 0); (ReplQueue_m_full, [], 0);
                           (ReplQueue_m_get, [], 0); (ReplQueue_m_get, [VInt 9], 0)] (1, []))
  = [ORes (VBool true); ORes (VBool false); ORes (VBool true); ORes (VInt 1); ORes (VInt 9)].
Proof. vm_compute. reflexivity. Qed.

(* ================================ methods that are not @replicated never change the state ========= *)
Definition state_of {S A} (r : res S A) : S := match r with Ok _ s => s | Raise _ s => s end.

Ltac open_lookups :=
  unfold wrap, list_index, list_count, list_getitem, dict_getitem, dict_get, dict_contains, set_contains in *.

Lemma ReplCounter_plain_readonly : forall m orc args s,
  ReplCounter_replicated m = false -> state_of (ReplCounter_call m orc args s) = s.
Proof.
  intros m orc args s H. destruct m; try discriminate H; destruct args as [|a1 [|a2 r]]; destruct s;
    unfold_gen; crush.
Qed.
Lemma ReplList_plain_readonly : forall m orc args s,
  ReplList_replicated m = false -> state_of (ReplList_call m orc args s) = s.
Proof.
  intros m orc args s H. destruct m; try discriminate H; destruct args as [|a1 [|a2 r]]; destruct s as [d];
    unfold_gen; simpl; try reflexivity; destruct d; simpl; try reflexivity; open_lookups; crush.
Qed.
Lemma ReplDict_plain_readonly : forall m orc args s,
  ReplDict_replicated m = false -> state_of (ReplDict_call m orc args s) = s.
Proof.
  intros m orc args s H. destruct m; try discriminate H; destruct args as [|a1 [|a2 [|a3 r]]]; destruct s as [d];
    unfold_gen; simpl; try reflexivity; destruct d; simpl; try reflexivity; open_lookups; crush.
Qed.
Lemma ReplSet_plain_readonly : forall m orc args s,
  ReplSet_replicated m = false -> state_of (ReplSet_call m orc args s) = s.
Proof.
  intros m orc args s H. destruct m; try discriminate H; destruct args as [|a1 [|a2 r]]; destruct s as [d];
    unfold_gen; simpl; try reflexivity; destruct d; simpl; try reflexivity; open_lookups; crush.
Qed.
Lemma ReplQueue_plain_readonly : forall m orc args s,
  ReplQueue_replicated m = false -> state_of (ReplQueue_call m orc args s) = s.
Proof.
  intros m orc args s H. destruct m; try discriminate H; destruct args as [|a1 [|a2 r]]; destruct s as [mx d];
    unfold_gen; crush.
Qed.
Lemma ReplPriorityQueue_plain_readonly : forall m orc args s,
  ReplPriorityQueue_replicated m = false -> state_of (ReplPriorityQueue_call m orc args s) = s.
Proof.
  intros m orc args s H. destruct m; try discriminate H; destruct args as [|a1 [|a2 r]]; destruct s as [mx d];
    unfold_gen; crush.
Qed.

(* the method tables as translated (a decorator added or dropped shows up here) *)
Example ReplList_table_ok :
  map (fun x => (snd (fst (fst (fst x))), snd (fst x), snd x)) ReplList_table =
  [(1%nat, true, 0); (2%nat, true, 0); (1%nat, true, 0); (1%nat, true, 0); (2%nat, true, 0); (1%nat, true, 0);
   (0%nat, true, 0); (0%nat, true, 0); (1%nat, false, 0); (1%nat, false, 0); (1%nat, false, 0); (1%nat, false, 0);
   (2%nat, true, 1); (0%nat, false, 0); (0%nat, false, 0)].
Proof. reflexivity. Qed.

(* ================================ determinism, snapshots, the set.pop oracle ======================== *)
Lemma run_gen_app {Mth S} (call : Mth -> Z -> list pyval -> M S pyval) : forall ops1 ops2 s,
  run_gen call (ops1 ++ ops2) s =
  (fst (run_gen call ops1 s) ++ fst (run_gen call ops2 (snd (run_gen call ops1 s))),
   snd (run_gen call ops2 (snd (run_gen call ops1 s)))).
Proof.
  induction ops1 as [|[[m args] orc] rest IH]; intros ops2 s; simpl.
  - destruct (run_gen call ops2 s); reflexivity.
  - destruct (obs_of (call m orc args s)) as [o s']. rewrite IH.
    destruct (run_gen call rest s') as [os s'']. simpl. reflexivity.
Qed.

Definition is_battery (B : battery) : Prop :=
  B = B_ReplCounter \/ B = B_ReplList \/ B = B_ReplDict \/ B = B_ReplSet \/ B = B_ReplQueue \/ B = B_ReplPriorityQueue.

(* _deserialize(_serialize(s)) into ANY instance of the class gives back s *)
Lemma restore_id : forall B, is_battery B -> forall fresh s : b_state B, restore B fresh s = s.
Proof.
  intros B HB. unfold is_battery in HB.
  repeat (destruct HB as [HB|HB]); subst B; intros fresh s; destruct s; reflexivity.
Qed.

(* Two replicas fed the same operations (same oracle inputs) agree on every result and on the final
   state, also when the second one is a fresh instance that loaded the first one's snapshot taken at
   any point [ops1 | ops2] of the history. *)
Lemma replicas_equal : forall B, is_battery B ->
  forall (ops1 ops2 : list (op B)) (s0 fresh : b_state B),
    let s1 := snd (run B ops1 s0) in
    run B (ops1 ++ ops2) s0 =
    (fst (run B ops1 s0) ++ fst (run B ops2 (restore B fresh s1)), snd (run B ops2 (restore B fresh s1))).
Proof.
  intros B HB ops1 ops2 s0 fresh s1. unfold s1. rewrite (restore_id B HB). unfold run. apply run_gen_app.
Qed.

Example replicas_equal_instance :
  let ops1 := [(ReplSet_m_add, [VInt 9], 0); (ReplSet_m_add, [VInt 16], 0)] in
  let ops2 := [(ReplSet_m_pop, [], 16); (ReplSet_m_rawData, [], 0)] in
  fst (run B_ReplSet (ops1 ++ ops2) (ReplSet_mk (VSet []))) = [ORes VNone; ORes VNone; ORes (VInt 16); ORes (VSet [9])].
Proof. vm_compute. reflexivity. Qed.

(* the oracle input only matters for ReplSet.pop *)
Section Orc.
  Context {Mth S : Type}.
  Variable call : Mth -> Z -> list pyval -> M S pyval.
  Variable sens : Mth -> bool.     (* methods whose outcome may depend on the oracle *)
  Hypothesis Hins : forall m o1 o2 args s, sens m = false -> call m o1 args s = call m o2 args s.

  Definition same_upto_oracle (a b : gop Mth) : Prop :=
    fst a = fst b /\ (sens (fst (fst a)) = true -> snd a = snd b).

  Lemma run_gen_oracle : forall ops ops', Forall2 same_upto_oracle ops ops' ->
    forall s, run_gen call ops s = run_gen call ops' s.
  Proof.
    intros ops ops' H. induction H as [|[[m args] o] [[m' args'] o'] l l' [Hfst Hs] _ IH]; intros s; simpl.
    - reflexivity.
    - simpl in Hfst, Hs. inversion Hfst; subst m' args'.
      destruct (sens m) eqn:Hm.
      + rewrite (Hs eq_refl). destruct (obs_of (call m o' args s)). rewrite IH. reflexivity.
      + rewrite (Hins m o o' args s Hm). destruct (obs_of (call m o' args s)). rewrite IH. reflexivity.
  Qed.
End Orc.

Definition never {A} (_ : A) : bool := false.
Definition is_set_pop (m : ReplSet_meth) : bool := match m with ReplSet_m_pop => true | _ => false end.

Lemma spec_counter_orc : forall m o1 o2 args c, never m = false -> spec_counter m o1 args c = spec_counter m o2 args c.
Proof. intros. destruct m; reflexivity. Qed.
Lemma spec_list_orc : forall m o1 o2 args l, never m = false -> spec_list m o1 args l = spec_list m o2 args l.
Proof. intros. destruct m; reflexivity. Qed.
Lemma spec_dict_orc : forall m o1 o2 args d, never m = false -> spec_dict m o1 args d = spec_dict m o2 args d.
Proof. intros. destruct m; reflexivity. Qed.
Lemma spec_set_orc : forall m o1 o2 args s, is_set_pop m = false -> spec_set m o1 args s = spec_set m o2 args s.
Proof. intros m o1 o2 args s H. destruct m; try discriminate H; reflexivity. Qed.
Lemma ReplQueue_orc : forall m o1 o2 args s, never m = false -> ReplQueue_call m o1 args s = ReplQueue_call m o2 args s.
Proof.
  intros m o1 o2 args s _. destruct m; destruct args as [|a1 [|a2 r]]; destruct s as [mx d]; unfold_gen; simpl; try reflexivity.
  all: try (destruct d; reflexivity).
  all: destruct mx; simpl; try reflexivity; destruct d; simpl; try reflexivity; crush.
Qed.
Lemma ReplPriorityQueue_orc : forall m o1 o2 args s, never m = false ->
  ReplPriorityQueue_call m o1 args s = ReplPriorityQueue_call m o2 args s.
Proof. intros m o1 o2 args s _. destruct m; reflexivity. Qed.

(* for five classes the oracle inputs are irrelevant altogether (from the initial state); for ReplSet
   they are irrelevant except at pop *)
Definition oracle_free (B : battery) : Prop :=
  forall init_args s0, b_init B init_args = Some s0 ->
  forall ops ops' : list (op B), map fst ops = map fst ops' -> run B ops s0 = run B ops' s0.

Lemma map_fst_Forall2 {Mth} : forall ops ops' : list (gop Mth), map fst ops = map fst ops' ->
  Forall2 (same_upto_oracle never) ops ops'.
Proof.
  induction ops as [|a l IH]; destruct ops' as [|b l']; simpl; intros H; try discriminate; constructor.
  - split; [congruence | discriminate].
  - apply IH. congruence.
Qed.

Lemma oracle_free_counter : oracle_free B_ReplCounter.
Proof.
  intros ia s0 Hi ops ops' Hm. unfold run. simpl b_call.
  destruct s0 as [c]. change (ReplCounter_mk c) with (abs_counter c).
  rewrite !(run_abs ReplCounter_call spec_counter abs_counter ReplCounter_char).
  rewrite (run_gen_oracle spec_counter never spec_counter_orc ops ops' (map_fst_Forall2 _ _ Hm)). reflexivity.
Qed.
Lemma oracle_free_list : oracle_free B_ReplList.
Proof.
  intros ia s0 Hi ops ops' Hm. unfold run. simpl b_call.
  simpl in Hi. destruct ia; inversion Hi; subst s0. change ReplList_init_body with (abs_list []).
  rewrite !(run_abs ReplList_call spec_list abs_list ReplList_char).
  rewrite (run_gen_oracle spec_list never spec_list_orc ops ops' (map_fst_Forall2 _ _ Hm)). reflexivity.
Qed.
Lemma oracle_free_dict : oracle_free B_ReplDict.
Proof.
  intros ia s0 Hi ops ops' Hm. unfold run. simpl b_call.
  simpl in Hi. destruct ia; inversion Hi; subst s0. change ReplDict_init_body with (abs_dict []).
  rewrite !(run_abs ReplDict_call spec_dict abs_dict ReplDict_char).
  rewrite (run_gen_oracle spec_dict never spec_dict_orc ops ops' (map_fst_Forall2 _ _ Hm)). reflexivity.
Qed.
Lemma oracle_free_queue : oracle_free B_ReplQueue.
Proof.
  intros ia s0 Hi ops ops' Hm. unfold run. simpl b_call.
  apply (run_gen_oracle ReplQueue_call never ReplQueue_orc ops ops' (map_fst_Forall2 _ _ Hm)).
Qed.
Lemma oracle_free_pqueue : oracle_free B_ReplPriorityQueue.
Proof.
  intros ia s0 Hi ops ops' Hm. unfold run. simpl b_call.
  apply (run_gen_oracle ReplPriorityQueue_call never ReplPriorityQueue_orc ops ops' (map_fst_Forall2 _ _ Hm)).
Qed.

Lemma oracle_only_set_pop :
  oracle_free B_ReplCounter /\ oracle_free B_ReplList /\ oracle_free B_ReplDict /\
  oracle_free B_ReplQueue /\ oracle_free B_ReplPriorityQueue /\
  forall s0, b_init B_ReplSet [] = Some s0 ->
  forall ops ops' : list (op B_ReplSet), Forall2 (same_upto_oracle is_set_pop) ops ops' ->
    run B_ReplSet ops s0 = run B_ReplSet ops' s0.
Proof.
  repeat split; auto using oracle_free_counter, oracle_free_list, oracle_free_dict, oracle_free_queue, oracle_free_pqueue.
  intros s0 Hi ops ops' H. unfold run. simpl b_call. simpl in Hi. inversion Hi; subst s0.
  change ReplSet_init_body with (abs_set []).
  rewrite !(run_abs ReplSet_call spec_set abs_set ReplSet_char).
  rewrite (run_gen_oracle spec_set is_set_pop spec_set_orc ops ops' H). reflexivity.
Qed.

(* ... and at pop the hypothesis is necessary (the model-level face of known finding D14): two replicas
   with the same contents {9, 16} -- the second restored from the first one's snapshot -- whose set.pop()
   picks different (both legal) elements return different results and end in different states. *)
Lemma set_pop_refuted :
  exists (s fresh : b_state B_ReplSet) (o1 o2 : Z),
    b_fields B_ReplSet s = [VSet [9; 16]] /\
    let r1 := run B_ReplSet [(ReplSet_m_pop, [], o1)] s in
    let r2 := run B_ReplSet [(ReplSet_m_pop, [], o2)] (restore B_ReplSet fresh s) in
    fst r1 = [ORes (VInt 9)] /\ fst r2 = [ORes (VInt 16)] /\ snd r1 <> snd r2.
Proof.
  exists (ReplSet_mk (VSet [9; 16])), (ReplSet_mk (VSet [])), 9, 16.
  vm_compute. repeat split; congruence.
Qed.

Lemma plain_methods_readonly :
  (forall m orc args s, ReplCounter_replicated m = false -> state_of (ReplCounter_call m orc args s) = s) /\
  (forall m orc args s, ReplList_replicated m = false -> state_of (ReplList_call m orc args s) = s) /\
  (forall m orc args s, ReplDict_replicated m = false -> state_of (ReplDict_call m orc args s) = s) /\
  (forall m orc args s, ReplSet_replicated m = false -> state_of (ReplSet_call m orc args s) = s) /\
  (forall m orc args s, ReplQueue_replicated m = false -> state_of (ReplQueue_call m orc args s) = s) /\
  (forall m orc args s, ReplPriorityQueue_replicated m = false -> state_of (ReplPriorityQueue_call m orc args s) = s).
Proof.
  repeat split; auto using ReplCounter_plain_readonly, ReplList_plain_readonly, ReplDict_plain_readonly,
    ReplSet_plain_readonly, ReplQueue_plain_readonly, ReplPriorityQueue_plain_readonly.
Qed.

(* the hypotheses of oracle_only_set_pop are satisfiable with different oracle inputs *)
Example same_upto_oracle_instance :
  Forall2 (same_upto_oracle is_set_pop)
          [(ReplSet_m_add, [VInt 3], 5); (ReplSet_m_pop, [], 3); (ReplSet_m___len__, [], 1)]
          [(ReplSet_m_add, [VInt 3], 7); (ReplSet_m_pop, [], 3); (ReplSet_m___len__, [], 2)].
Proof.
  repeat constructor; simpl; intros; congruence.
Qed.
Example plain_method_instance : ReplList_replicated ReplList_m_index = false /\ ReplDict_replicated ReplDict_m_get = false.
Proof. split; reflexivity. Qed.
Example is_battery_instance : is_battery B_ReplSet.
Proof. unfold is_battery. auto. Qed.
