From Coq Require Import ZArith NArith List.
From PSO Require Import Raft.Types Raft.Node Raft.Net Raft.Obs.
From PSO Require Import Raft.ProofsElectionGhost Raft.ProofsElectionMain Raft.ProofsElectionC07.
From PSO Require Import Raft.ProofsElectionDump.
Import ListNotations.
Open Scope N_scope.

Theorem C07_no_restart_vote_once :
  forall (c : conf) (V : list nid) (evs : list event) (g : gstate),
    dyn c = false -> file_dump c = false -> valid V evs = true ->
    run_trace c ginit evs = Some g ->
    exists gh, grun c ginit gh0 evs = Some (g, gh) /\
      forall t v c1 c2, In (t, v, c1) (grants gh) -> In (t, v, c2) (grants gh) -> c1 = c2.
Proof. exact vote_once_run. Qed.
Print Assumptions C07_no_restart_vote_once.

Theorem C07_term_monotone :
  forall (c : conf) (g : gstate) (ev : event) (g' : gstate) (n : nid) (s : S) (x : node),
    gstep c g ev = Some (g', Some (n, s)) ->
    (forall oth now rnd sv, ev <> ERestart n oth now rnd sv) ->
    aget n (nodes g) = Some x -> term x <= term (nd s).
Proof. exact step_term. Qed.
Print Assumptions C07_term_monotone.

Theorem C07_term_monotone_run :
  forall (c : conf) (evs1 evs2 : list event) (g1 g2 : gstate) (n : nid) (x y : node),
    run_trace c ginit evs1 = Some g1 -> run_trace c g1 evs2 = Some g2 ->
    no_restart_of n evs2 = true ->
    aget n (nodes g1) = Some x -> aget n (nodes g2) = Some y -> term x <= term y.
Proof. exact term_monotone_run. Qed.
Print Assumptions C07_term_monotone_run.

Theorem C07_restart_double_vote_refuted :
  exists c evs g gh,
    dyn c = false /\ file_dump c = false /\ file_journal c = true /\
    validj [1;2;3] evs = true /\ grun c ginit gh0 evs = Some (g, gh) /\
    exists t v c1 c2, In (t, v, c1) (grants gh) /\ In (t, v, c2) (grants gh) /\ c1 <> c2.
Proof. exact restart_double_vote_refuted. Qed.
Print Assumptions C07_restart_double_vote_refuted.

Theorem C07_two_leaders_after_restart_refuted :
  exists c evs g gh,
    dyn c = false /\ file_dump c = false /\ file_journal c = true /\
    validj [1;2;3] evs = true /\ grun c ginit gh0 evs = Some (g, gh) /\
    exists t a b, In (t, a) (wins gh) /\ In (t, b) (wins gh) /\ a <> b.
Proof. exact two_leaders_after_restart_refuted. Qed.
Print Assumptions C07_two_leaders_after_restart_refuted.

Theorem C07_follows_older_term_refuted :
  exists c evs1 evs2 g1 g2 g3 x s tl cm pv es,
    dyn c = false /\ file_dump c = false /\ file_journal c = true /\
    validj [1;2;3] (evs1 ++ evs2 ++ [EDeliver 1 3 146 0 []]) = true /\
    run_trace c ginit evs1 = Some g1 /\ aget 3 (nodes g1) = Some x /\
    run_trace c g1 evs2 = Some g2 /\
    hd_error (chan_get 1 3 g2) = Some (AE tl cm pv es) /\
    gstep c g2 (EDeliver 1 3 146 0 []) = Some (g3, Some (3, s)) /\
    tl < term x /\ term (nd s) = tl /\ leader (nd s) = Some 1 /\
    In (Send 1 (NextIdx tl 3 false true)) (outs s).
Proof. exact follows_older_term_refuted. Qed.
Print Assumptions C07_follows_older_term_refuted.

(* with a dump file configured: file_dump c = false replaced by the run-level condition dump_ok
   (on every ETick, a node about to load its dump file has nothing stored; see Props/C03.v) *)
Theorem C07_no_restart_vote_once_dump :
  forall (c : conf) (V : list nid) (evs : list event) (g : gstate),
    dyn c = false -> dump_ok c ginit evs = true -> valid V evs = true ->
    run_trace c ginit evs = Some g ->
    exists gh, grun c ginit gh0 evs = Some (g, gh) /\
      forall t v c1 c2, In (t, v, c1) (grants gh) -> In (t, v, c2) (grants gh) -> c1 = c2.
Proof. exact vote_once_run_dump. Qed.
Print Assumptions C07_no_restart_vote_once_dump.
