From Coq Require Import ZArith NArith List Bool.
From PSO Require Import Raft.Types Raft.Node Raft.Net Raft.Obs.
From PSO Require Import Raft.ProofsReadonlyFrames Raft.ProofsReadonlyA Raft.ProofsReadonlyB Raft.ProofsReadonlyC.
From PSO Require Import Raft.ProofsReadonlyD Raft.ProofsReadonlyE Raft.ProofsReadonlyF Raft.ProofsReadonlyG Raft.ProofsReadonlyFinal.
From PSO Require Import Raft.ProofsFallbackA Raft.ProofsFallbackB.
Import ListNotations.
Open Scope N_scope.

(* `self` of a running node never changes (every event except a restart of that node) *)
Theorem C18_self_stable : forall c g ev g' x s n,
  (0 <= period c)%Z ->
  gstep c g ev = Some (g', Some (x, s)) -> aget x (nodes g) = Some n ->
  (forall oth now rnd sv, ev <> ERestart x oth now rnd sv) ->
  self (nd s) = self n /\ aget x (nodes g') = Some (nd s).
Proof. exact C18_self_stable_thm. Qed.
Print Assumptions C18_self_stable.

(* every reachable state: a node without own address is FOLLOWER; every step of such a node ends as
   FOLLOWER and emits no role change *)
Theorem C18_never_candidate_or_leader : forall c g,
  (0 <= period c)%Z -> reach all_events c g ->
  (forall x n, aget x (nodes g) = Some n -> self n = None -> role n = FOLLOWER) /\
  (forall ev g' x s, gstep c g ev = Some (g', Some (x, s)) -> self (nd s) = None ->
     role (nd s) = FOLLOWER /\ forall a b, ~ In (Role a b) (outs s)).
Proof. exact C18_never_candidate_or_leader_final. Qed.
Print Assumptions C18_never_candidate_or_leader.

(* it never sends RequestVote / ResponseVote, voted stays None, votes stays 0, and its term only
   changes by adopting the (larger) term of a delivered append_entries message *)
Theorem C18_never_votes : forall c g ev g' x s,
  (0 <= period c)%Z -> reach all_events c g -> gstep c g ev = Some (g', Some (x, s)) -> self (nd s) = None ->
  (forall d t lli llt, ~ In (Send d (RequestVote t lli llt)) (outs s)) /\
  (forall d t, ~ In (Send d (ResponseVote t)) (outs s)) /\
  voted (nd s) = None /\ votes (nd s) = 0 /\
  (forall n, aget x (nodes g) = Some n -> (forall oth now rnd sv, ev <> ERestart x oth now rnd sv) ->
     voted n = None /\ votes n = 0 /\
     (term (nd s) = term n \/
      exists a now rnd ord m rest t, ev = EDeliver a x now rnd ord /\ chan_get a x g = m :: rest /\
                                     ae_term m = Some t /\ term n < t /\ term (nd s) = t)).
Proof. exact C18_never_votes_final. Qed.
Print Assumptions C18_never_votes.

(* no id >= RO_BASE is ever a member of `others` of any node *)
Theorem C18_not_counted : forall c g x n y,
  reach voters_named_below_RO_BASE c g -> aget x (nodes g) = Some n -> RO_BASE <= y -> ~ In y (others n).
Proof. exact C18_not_counted_final. Qed.
Print Assumptions C18_not_counted.

(* the leader phase (commit advance, fallback) gives the same verdict on two nodes that agree on
   others, log, term and on match_idx / last_resp AT THE MEMBERS *)
Theorem C18_leader_phase_reads_members_only : forall e s s',
  same_votersview (nd s) (nd s') ->
  role (nd s) = role (nd s') -> commit (nd s) = commit (nd s') -> leader (nd s) = leader (nd s') ->
  tnow s = tnow s' -> exc s = exc s' ->
  verdict (tick_leader e s) = verdict (tick_leader e s').
Proof. exact leader_phase_ignores_nonmembers. Qed.
Print Assumptions C18_leader_phase_reads_members_only.

(* commit_loop itself: same result index, and both runs raise KeyError or neither does *)
Theorem C18_commit_loop_reads_members_only : forall f ci next s s',
  same_votersview (nd s) (nd s') ->
  snd (commit_loop f ci next s) = snd (commit_loop f ci next s') /\
  ((fst (commit_loop f ci next s) = s /\ fst (commit_loop f ci next s') = s') \/
   (fst (commit_loop f ci next s) = raise EXC_KEY s /\ fst (commit_loop f ci next s') = raise EXC_KEY s')).
Proof. exact commit_loop_ext. Qed.
Print Assumptions C18_commit_loop_reads_members_only.

(* the election count reads nothing but the number of members *)
Theorem C18_election_majority_members_only : forall k a b,
  length (others a) = length (others b) -> majority k a = majority k b.
Proof. exact election_majority_members_only. Qed.
Print Assumptions C18_election_majority_members_only.

(* hence: in a reachable state, a read-only node connecting, disconnecting or replying changes no
   commit / fallback / election decision *)
Theorem C18_not_counted_decisions : forall c g L n x,
  valid_reachable c g -> aget L (nodes g) = Some n -> RO_BASE <= x ->
  forall n', (n' = on_connected x n \/ n' = on_disconnected x n \/
              exists e t nx r su, n' = nd (on_message e x (NextIdx t nx r su) n)) ->
    (forall e s s', nd s = n' -> nd s' = n -> tnow s = tnow s' -> exc s = exc s' ->
                    verdict (tick_leader e s) = verdict (tick_leader e s')) /\
    (forall k, majority k n' = majority k n) /\
    role n' = role n /\ term n' = term n /\ votes n' = votes n /\ voted n' = voted n /\ commit n' = commit n.
Proof. exact C18_not_counted_decisions_thm. Qed.
Print Assumptions C18_not_counted_decisions.

(* a NextIdx from x changes next_idx[x], match_idx[x], last_resp[x] of the receiver and nothing else *)
Theorem C18_responses_only_update_own_slot : forall e x t next reset success n,
  let s := on_message e x (NextIdx t next reset success) n in
  outs s = [] /\
  exists ni mi lr,
    nd s = RecordSet.set last_resp (fun _ => lr) (RecordSet.set match_idx (fun _ => mi) (RecordSet.set next_idx (fun _ => ni) n)) /\
    forall y, y <> x ->
      aget y ni = aget y (next_idx n) /\ aget y mi = aget y (match_idx n) /\ aget y lr = aget y (last_resp n).
Proof. exact C18_responses_only_update_own_slot_thm. Qed.
Print Assumptions C18_responses_only_update_own_slot.

(* the full non-interference statement is false: __connectedToAnyone counts read-only connections *)
Theorem C18_noninterference_refuted : ~ C18_noninterference_full.
Proof. exact ProofsReadonlyF.C18_noninterference_refuted. Qed.
Print Assumptions C18_noninterference_refuted.

(* what does hold of non-interference: the leader phase of a tick (commit advance, fallback, step-down)
   commutes with erasing a read-only node x from the voter: same state modulo x's slots, same outputs *)
Theorem C18_noninterference_partial : forall e s x,
  ~ In x (others (nd s)) -> erase_S x (tick_leader e s) = tick_leader e (erase_S x s).
Proof. exact C18_noninterference_partial_thm. Qed.
Print Assumptions C18_noninterference_partial.
