From Coq Require Import ZArith NArith List.
From PSO Require Import Raft.Types Raft.Node Raft.Net Raft.Obs.
From PSO Require Import Raft.ProofsElectionGhost.
From PSO Require Import Raft.RefineAbs Raft.RefineMain Raft.RefineFinal.
Import ListNotations.
Open Scope N_scope.

Theorem L1_refines_L0_core :
  forall (c : conf) (V : list nid) (evs : list event) (g : gstate),
    dyn c = false -> file_dump c = false -> 1 < batch c -> valid V evs = true -> run_ok c ginit evs = true ->
    run_trace c ginit evs = Some g ->
    exists gh s, grun c ginit gh0 evs = Some (g, gh) /\ KS.kreachable (absV V) s /\
                 R c V g gh (sts_after [] evs) s.
Proof. exact TierC_refinement. Qed.
Print Assumptions L1_refines_L0_core.

Theorem L1_log_matching_core :
  forall (c : conf) (V : list nid) (evs : list event) (g : gstate) (a b : nid) (xa xb : node)
         (p : nat) (ea eb : entry),
    dyn c = false -> file_dump c = false -> 1 < batch c -> valid V evs = true -> run_ok c ginit evs = true ->
    run_trace c ginit evs = Some g ->
    aget a (nodes g) = Some xa -> aget b (nodes g) = Some xb -> a < RO_BASE -> b < RO_BASE ->
    nth_error (log xa) p = Some ea -> nth_error (log xb) p = Some eb -> eterm ea = eterm eb ->
    firstn (Datatypes.S p) (log xa) = firstn (Datatypes.S p) (log xb).
Proof. exact TierC_log_matching. Qed.
Print Assumptions L1_log_matching_core.

Theorem L1_leader_completeness_core :
  forall (c : conf) (V : list nid) (evs1 evs2 : list event) (g1 g2 : gstate) (a l : nid) (xa xl : node) (i : N),
    dyn c = false -> file_dump c = false -> 1 < batch c -> valid V (evs1 ++ evs2) = true ->
    run_ok c ginit (evs1 ++ evs2) = true ->
    run_trace c ginit evs1 = Some g1 -> run_trace c g1 evs2 = Some g2 ->
    aget a (nodes g1) = Some xa -> aget l (nodes g2) = Some xl -> a < RO_BASE -> l < RO_BASE ->
    role xl = LEADER -> term xa <= term xl -> 1 <= i -> i <= commit xa ->
    nth_error (log xl) (N.to_nat i - 1) = nth_error (log xa) (N.to_nat i - 1).
Proof. exact TierC_leader_completeness. Qed.
Print Assumptions L1_leader_completeness_core.

Theorem L1_state_machine_safety_core :
  forall (c : conf) (V : list nid) (evs : list event) (g : gstate) (a b : nid) (xa xb : node) (i : N),
    dyn c = false -> file_dump c = false -> 1 < batch c -> valid V evs = true -> run_ok c ginit evs = true ->
    run_trace c ginit evs = Some g ->
    aget a (nodes g) = Some xa -> aget b (nodes g) = Some xb -> a < RO_BASE -> b < RO_BASE ->
    1 <= i -> i <= commit xa -> i <= commit xb ->
    exists en, nth_error (log xa) (N.to_nat i - 1) = Some en /\
               nth_error (log xb) (N.to_nat i - 1) = Some en /\ eidx en = i.
Proof. exact TierC_state_machine_safety. Qed.
Print Assumptions L1_state_machine_safety_core.

Theorem L1_applied_entries_agree_core :
  forall (c : conf) (V : list nid) (evs : list event) (g : gstate) (a b : nid) (xa xb : node) (i : N),
    dyn c = false -> file_dump c = false -> 1 < batch c -> valid V evs = true -> run_ok c ginit evs = true ->
    run_trace c ginit evs = Some g ->
    aget a (nodes g) = Some xa -> aget b (nodes g) = Some xb -> a < RO_BASE -> b < RO_BASE ->
    1 <= i -> i <= applied xa -> i <= applied xb ->
    exists en, nth_error (log xa) (N.to_nat i - 1) = Some en /\
               nth_error (log xb) (N.to_nat i - 1) = Some en /\ eidx en = i.
Proof. exact TierC_applied_entries_agree. Qed.
Print Assumptions L1_applied_entries_agree_core.

Theorem L1_committed_never_change_core :
  forall (c : conf) (V : list nid) (evs1 evs2 : list event) (g1 g2 : gstate) (a : nid) (xa1 xa2 : node) (i : N),
    dyn c = false -> file_dump c = false -> 1 < batch c -> valid V (evs1 ++ evs2) = true ->
    run_ok c ginit (evs1 ++ evs2) = true ->
    run_trace c ginit evs1 = Some g1 -> run_trace c g1 evs2 = Some g2 ->
    aget a (nodes g1) = Some xa1 -> aget a (nodes g2) = Some xa2 -> a < RO_BASE ->
    1 <= i -> i <= commit xa1 ->
    commit xa1 <= commit xa2 /\
    nth_error (log xa2) (N.to_nat i - 1) = nth_error (log xa1) (N.to_nat i - 1).
Proof. exact TierC_committed_never_change. Qed.
Print Assumptions L1_committed_never_change_core.
