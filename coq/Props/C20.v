From Coq Require Import ZArith NArith List Bool.
From PSO Require Import Raft.Types Raft.Node Raft.Net Raft.Obs.
From PSO Require Import Raft.ProofsReadonlyFrames Raft.ProofsReadonlyB Raft.ProofsReadonlyFinal.
From PSO Require Import Raft.ProofsFallbackA Raft.ProofsFallbackB Raft.ProofsFallbackC Raft.ProofsFallbackFinal.
From PSO Require Import Raft.ProofsFallbackSlotsGlobal Raft.ProofsFallbackSuccess Raft.ProofsFallbackSuccessGlobal.
From PSO Require Import Raft.ProofsFallbackFull.
Import ListNotations.
Open Scope N_scope.

(* the leader phase of a tick (tick_leader), for a LEADER with no exception so far: KeyError iff a member
   is missing from matchIndex / lastResponseTime; otherwise it ends as FOLLOWER with leader = None
   exactly when the members heard from within the fallback window (self included) are no majority *)
Theorem C20_fallback_step : forall e s,
  role (nd s) = LEADER -> exc s = 0 ->
  let s' := tick_leader e s in
  let dl := (tnow s - fallback (cf e))%Z in
  (exc s' = EXC_KEY /\ role (nd s') = LEADER /\
     (resp_missing (nd s) = true \/ match_missing (nd s) = true)) \/
  (exc s' = 0 /\ resp_missing (nd s) = false /\
   (majority (fresh_count dl (nd s)) (nd s) = false ->
      role (nd s') = FOLLOWER /\ leader (nd s') = None /\ In (Role LEADER FOLLOWER) (outs s')) /\
   (majority (fresh_count dl (nd s)) (nd s) = true ->
      role (nd s') = LEADER /\ leader (nd s') = leader (nd s) /\ outs s' = outs s)).
Proof. exact C20_fallback_step_thm. Qed.
Print Assumptions C20_fallback_step.

(* a whole _onTick of a node that is LEADER at its start *)
Theorem C20_tick_steps_down : forall e n,
  period_ok e -> role n = LEADER -> need_load n = false ->
  match_missing n = false -> resp_missing n = false ->
  majority (fresh_count (t0 e - fallback (cf e))%Z n) n = false ->
  let s := on_tick e n in
  role (nd s) = FOLLOWER /\ leader (nd s) = None /\ In (Role LEADER FOLLOWER) (outs s) /\
  (forall a, ~ In (Role a LEADER) (outs s)).
Proof. exact C20_tick_steps_down_thm. Qed.
Print Assumptions C20_tick_steps_down.

(* every value of last_resp after a step was there before, or lies between the clock reading at the start
   and at the end of the step and the step made the node leader / added that member, or it is the clock
   reading of the delivery of a NextIdx of the current term from that node to a leader *)
Theorem C20_last_resp_sound : forall c g ev g' L s n,
  (0 <= period c)%Z ->
  gstep c g ev = Some (g', Some (L, s)) -> aget L (nodes g) = Some n ->
  (forall oth now rnd sv, ev <> ERestart L oth now rnd sv) ->
  forall x v, aget x (last_resp (nd s)) = Some v ->
    aget x (last_resp n) = Some v \/ resp_source g ev L n s x v.
Proof. exact C20_last_resp_sound_thm. Qed.
Print Assumptions C20_last_resp_sound.

Theorem C20_bound : forall c g0 L n0 t0 evs1 now rnd bud ord sl evs2 g,
  (0 <= period c)%Z ->
  aget L (nodes g0) = Some n0 -> role n0 = LEADER -> need_load n0 = false ->
  others n0 <> [] -> Forall (fun x => x < RO_BASE) (others n0) ->
  match_missing n0 = false -> resp_missing n0 = false ->
  (forall x v, In x (others n0) -> aget x (last_resp n0) = Some v -> (v <= t0)%Z) ->
  (t0 + fallback c < now)%Z ->
  steps_sat (cut_quiet L) c g0 (evs1 ++ ETick L now rnd bud ord sl :: evs2) ->
  run_trace c g0 (evs1 ++ ETick L now rnd bud ord sl :: evs2) = Some g ->
  exists n, aget L (nodes g) = Some n /\ role n <> LEADER.
Proof. exact C20_bound_final. Qed.
Print Assumptions C20_bound.

(* the same from a state reachable under the C18 validity of inputs: need_load = false and
   "members are voters" are invariants, not hypotheses *)
Theorem C20_bound_reachable : forall c g0 L n0 t0 evs1 now rnd bud ord sl evs2 g,
  (0 <= period c)%Z -> reach voters_named_below_RO_BASE c g0 ->
  aget L (nodes g0) = Some n0 -> role n0 = LEADER ->
  others n0 <> [] -> match_missing n0 = false -> resp_missing n0 = false ->
  (forall x v, In x (others n0) -> aget x (last_resp n0) = Some v -> (v <= t0)%Z) ->
  (t0 + fallback c < now)%Z ->
  steps_sat (cut_quiet L) c g0 (evs1 ++ ETick L now rnd bud ord sl :: evs2) ->
  run_trace c g0 (evs1 ++ ETick L now rnd bud ord sl :: evs2) = Some g ->
  exists n, aget L (nodes g) = Some n /\ role n <> LEADER.
Proof. exact C20_bound_reachable_final. Qed.
Print Assumptions C20_bound_reachable.

(* the bound with no hypothesis on the leader's state left except "it is leader, has a peer, and t0 bounds
   its last-response times": slot presence, need_load = false and "members are voters" are invariants of
   every state reachable by inputs that name voters by ids < RO_BASE and restart nodes with sorted member
   lists (slot_valid); static and dynamic membership alike *)
Theorem C20_bound_reachable_full : forall c evs0 g0 L n0 t0 evs1 now rnd bud ord sl evs2 g,
  (0 <= period c)%Z ->
  Forall slot_valid evs0 -> run_trace c ginit evs0 = Some g0 ->
  aget L (nodes g0) = Some n0 -> role n0 = LEADER -> others n0 <> [] ->
  (forall x v, In x (others n0) -> aget x (last_resp n0) = Some v -> (v <= t0)%Z) ->
  (t0 + fallback c < now)%Z ->
  steps_sat (cut_quiet L) c g0 (evs1 ++ ETick L now rnd bud ord sl :: evs2) ->
  run_trace c g0 (evs1 ++ ETick L now rnd bud ord sl :: evs2) = Some g ->
  exists n, aget L (nodes g) = Some n /\ role n <> LEADER.
Proof. exact C20_bound_reachable_full_thm. Qed.
Print Assumptions C20_bound_reachable_full.

Theorem C20_no_commit_when_cut_partial : forall c g0 L n0 K evs g,
  (0 <= period c)%Z ->
  aget L (nodes g0) = Some n0 -> role n0 = LEADER -> need_load n0 = false ->
  others n0 <> [] -> Forall (fun x => x < RO_BASE) (others n0) ->
  commit n0 <= K -> (forall j, K < j -> majority (match_count j n0) n0 = false) ->
  steps_sat (cut_quiet L) c g0 evs -> run_trace c g0 evs = Some g ->
  exists n, aget L (nodes g) = Some n /\ commit n <= K /\
            (role n = LEADER -> forall x, In x (others n0) -> aget x (match_idx n) = aget x (match_idx n0)).
Proof. exact C20_no_commit_when_cut_partial_final. Qed.
Print Assumptions C20_no_commit_when_cut_partial.

(* the commit bound from a reachable state: need_load = false and "members are voters" are invariants *)
Theorem C20_no_commit_when_cut_reachable : forall c evs0 g0 L n0 K evs g,
  (0 <= period c)%Z ->
  Forall slot_valid evs0 -> run_trace c ginit evs0 = Some g0 ->
  aget L (nodes g0) = Some n0 -> role n0 = LEADER -> others n0 <> [] ->
  commit n0 <= K -> (forall j, K < j -> majority (match_count j n0) n0 = false) ->
  steps_sat (cut_quiet L) c g0 evs -> run_trace c g0 evs = Some g ->
  exists n, aget L (nodes g) = Some n /\ commit n <= K /\
            (role n = LEADER -> forall x, In x (others n0) -> aget x (match_idx n) = aget x (match_idx n0)).
Proof. exact C20_no_commit_when_cut_reachable_thm. Qed.
Print Assumptions C20_no_commit_when_cut_reachable.

(* while L is cut off, every SUCCESS it fires goes to a callback that L had registered in wait_commit, at
   the start of that step, under an index <= K (K: beyond it the frozen matchIndex has no majority): no
   callback waiting for an index > K is acknowledged *)
Theorem C20_no_success_when_cut : forall c evs0 g0 L n0 K evs,
  (0 <= period c)%Z ->
  Forall slot_valid evs0 -> run_trace c ginit evs0 = Some g0 ->
  aget L (nodes g0) = Some n0 -> role n0 = LEADER -> others n0 <> [] ->
  commit n0 <= K -> (forall j, K < j -> majority (match_count j n0) n0 = false) ->
  Forall ProofsCommitGlobal.ev_ok evs ->
  steps_sat (cut_quiet L) c g0 evs ->
  steps_sat (success_below L K) c g0 evs.
Proof. exact C20_no_success_when_cut_thm. Qed.
Print Assumptions C20_no_success_when_cut.

(* the full statement on runs of the Tier C3 fragment (static membership, no dump file, batch > 1, voters
   started once with the others of V, no complete snapshot refused for its version): a cut-off leader
   acknowledges nothing registered beyond the last index its log had at the cut, i.e. nothing submitted to it
   after the cut.  The two invariants used (commit <= last index; a leader's matchIndex <= its last index)
   are read off the Tier C3 refinement and the L0 invariants *)
Theorem C20_no_success_when_cut_full : forall c V evs0 g0 L n0 evs,
  (0 <= period c)%Z -> tierC3_run c V evs0 ->
  Forall slot_valid evs0 -> run_trace c ginit evs0 = Some g0 ->
  aget L (nodes g0) = Some n0 -> role n0 = LEADER -> others n0 <> [] ->
  Forall ProofsCommitGlobal.ev_ok evs ->
  steps_sat (cut_quiet L) c g0 evs ->
  steps_sat (success_below L (last_idx (log n0))) c g0 evs.
Proof. exact C20_no_success_when_cut_full_thm. Qed.
Print Assumptions C20_no_success_when_cut_full.

(* the two invariants themselves *)
Theorem C20_leader_bounds : forall c V evs g L xL,
  tierC3_run c V evs -> run_trace c ginit evs = Some g -> aget L (nodes g) = Some xL -> role xL = LEADER ->
  commit xL <= last_idx (log xL) /\
  forall x m, In x (others xL) -> aget x (match_idx xL) = Some m -> m <= last_idx (log xL).
Proof. exact C20_leader_bounds_thm. Qed.
Print Assumptions C20_leader_bounds.

Theorem C20_commit_needs_majority : forall e s,
  commit (nd (tick_leader e s)) = commit (nd s) \/
  (role (nd s) = LEADER /\ commit (nd s) < commit (nd (tick_leader e s)) /\
   majority (match_count (commit (nd (tick_leader e s))) (nd s)) (nd s) = true).
Proof. exact ProofsFallbackFinal.C20_commit_needs_majority. Qed.
Print Assumptions C20_commit_needs_majority.

Theorem C20_hasQuorum_iff : forall n,
  (has_quorum n = true <->
   2 * (connected_voters n + own_count n) > N.of_nat (length (others n)) + own_count n) /\
  (forall i, self n = Some i -> (has_quorum n = true <-> majority (1 + connected_voters n) n = true)) /\
  (self n = None -> (has_quorum n = true <-> 2 * connected_voters n > N.of_nat (length (others n)))).
Proof. exact C20_hasQuorum_iff_thm. Qed.
Print Assumptions C20_hasQuorum_iff.
